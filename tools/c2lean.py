#!/usr/bin/env python3
"""c2lean — translate scalar C kernels (typed clang-14 JSON AST) into Lean 4 definitions over Nat/Int/Bool.

DESIGN.md section 4.1, "Scalar kernels".  The translator is TRUSTED to render the supported subset faithfully; its
output is additionally evaluated against the compiled C code on a boundary grid (Gen/KernelsGrid.lean, `decide`).

Supported subset (anything else raises `Unsupported`, which the caller reports as a broken stage-G obligation):
  types       uint8/16/32/64, size_t, lzma_vli, enums (as uint32), bool; signed ints (as Lean `Int`, no wrap: signed
              overflow is undefined behaviour and outside every kernel's domain)
  values      parameters, locals (mutable: re-bound by `let` shadowing), integer/character literals, macro constants
              (already expanded in the AST), enumerators and `sizeof(type)` (values read from a compiled probe),
              `static const` local arrays with literal initialisers and global `const` integer arrays (tabulated by the
              probe), indexed by an unsigned expression
  pointers    a pointer parameter `p` is flattened: every `p->a.b` / `p[k]` (k constant) that is read becomes a Nat
              parameter `p_a_b` / `p_k`; every integer field that is written becomes a component of the result tuple;
              `p == NULL` is rendered `False` (non-NULL is part of the kernel's domain); a `const T *q = p` local is an
              alias; passing `p` to another translated kernel passes the fields that kernel reads
  expressions + - * / % << >> & | ^ ~ unary-, comparisons, && || !, ?:, casts, calls to other translated kernels
  statements  blocks, declarations, `=`, compound assignment, ++/-- (as statements), if/else, return,
              for / while / do-while without return/break/continue inside (rendered as a fuel recursion; the fuel is
              the syntactic bound or comes from the kernel's spec), `(void)0` (what assert() leaves with -DNDEBUG)
  extras      a local pointer initialised from `lzma_alloc()` is a FRESH object: `== NULL` is False (allocation succeeds),
              its integer fields that are written are results, pointer-typed stores are skipped and listed in the
              generated docstring;  locals holding a constant are propagated;
              `switch` on an integer with `case`/`default` groups each ending in break/return (rendered as an if chain);
              file-scope integer variables (read = parameter `glob_<name>`, written = result component);
              calls listed in the spec's `ignore_calls` (e.g. lzma_free) and `if`s that guard nothing rendered are skipped;
              `outline_ifs`: every joined `if` becomes an auxiliary definition (keeps big functions provable);
              early returns do not duplicate the continuation when all other paths are effect-free.
  fragments   spec `fragment = {first, last[, results][, continue_ends]}` translates the statements of one block between two
              anchors ({decl: name} | {assign: target suffix[, nth]} | {if_reads: member} | {if_array: name} | {if_var: name});
              variables declared outside become parameters (integers also result components when written), struct objects
              and pointers outside are flattened like pointer parameters, `buffer[i + k]` with a free `i` is the cell
              `buffer_i_k`; first result component 0 = fell through (or `continue`), r + 1 = `return r`.
              `fragment = {call_arg: [callee or "*", k], reads: member}` translates one call argument expression.
  BitVec mode spec `bitvec=True`: integers are `BitVec w` with the native wrapping operators (for the BCJ filters, whose
              bridges are discharged by `bv_decide`); no tables, no calls into Nat-mode kernels.
Unsigned arithmetic of width w is rendered on `Nat` with explicit `% 2^w`; `x & (2^k-1)` as `x % 2^k`,
`x & ~(2^k-1)` as `x / 2^k * 2^k`, shifts by constants as `* 2^k` / `/ 2^k`, so that `omega` applies.
"""
import hashlib, json, os, random, re, subprocess


class Unsupported(Exception):
    pass


# BitVec mode (spec `bitvec=True`): fixed-width integers are rendered as `BitVec w` with the native wrapping operators
# instead of `Nat` with `% 2^w` — for word-level bit manipulation (the BCJ filters) whose models are stated over BitVec
# and whose bridges are discharged by `bv_decide`.  Set for the duration of one translation.
BV = [False]


# --------------------------------------------------------------------------------------------------------------
# C types
# --------------------------------------------------------------------------------------------------------------

class CT:
    """kind: 'u' unsigned int of width w, 's' signed, 'b' bool, 'p' pointer, 'v' void, 'a' array"""
    def __init__(self, kind, w=0, name=""):
        self.kind, self.w, self.name = kind, w, name

    def __eq__(self, o):
        return isinstance(o, CT) and (self.kind, self.w) == (o.kind, o.w)

    def __repr__(self):
        return "%s%d" % (self.kind, self.w) if self.kind in "us" else {"b": "bool", "p": "ptr", "v": "void", "a": "array"}.get(self.kind, "?")

    def lean(self):
        if BV[0] and self.kind in "us":
            return "BitVec %d" % self.w
        return {"u": "Nat", "s": "Int", "b": "Bool"}[self.kind]

    def isint(self):
        return self.kind in "usb"


BASE_TYPES = {
    "unsigned char": ("u", 8), "unsigned short": ("u", 16), "unsigned int": ("u", 32), "unsigned long": ("u", 64),
    "unsigned long long": ("u", 64), "unsigned": ("u", 32),
    "char": ("s", 8), "signed char": ("s", 8), "short": ("s", 16), "int": ("s", 32), "long": ("s", 64), "long long": ("s", 64),
    "_Bool": ("b", 1), "bool": ("b", 1),
    "uint8_t": ("u", 8), "uint16_t": ("u", 16), "uint32_t": ("u", 32), "uint64_t": ("u", 64), "size_t": ("u", 64),
    "int8_t": ("s", 8), "int16_t": ("s", 16), "int32_t": ("s", 32), "int64_t": ("s", 64), "lzma_vli": ("u", 64),
    "uintptr_t": ("u", 64), "lzma_bool": ("u", 8),
}
# typedefs of anonymous enums used by the kernels (clang does not desugar them); all have only non-negative
# enumerators, hence `unsigned int` as the underlying type
ENUM_TYPES = {"lzma_check", "lzma_lzma_state", "lzma_ret", "lzma_mode", "lzma_match_finder", "lzma_action", "lzma_delta_type"}


def strip_quals(s):
    s = re.sub(r"\b(const|volatile|restrict|__restrict)\b", " ", s)
    return re.sub(r"\s+", " ", s).strip()


def pointee_of(s):
    s = strip_quals(s)
    return s[:-1].strip() if s.endswith("*") else s


def parse_type_str(s):
    s0 = strip_quals(s)
    if s0.endswith("*") or "(*)" in s0:
        return CT("p", 64, s0)
    if s0.endswith("]"):
        return CT("a", 0, s0)
    if s0 == "void":
        return CT("v", 0, s0)
    if s0 in BASE_TYPES:
        k, w = BASE_TYPES[s0]
        return CT(k, w, s0)
    if s0.startswith("enum ") or s0 in ENUM_TYPES:
        return CT("u", 32, s0)
    return None


def node_type_lenient(n):
    try:
        return node_type(n)
    except Unsupported:
        return CT("o", 0, (n.get("type") or {}).get("qualType", ""))


def node_type(n):
    t = n.get("type") or {}
    for key in ("desugaredQualType", "qualType"):
        if key in t:
            ct = parse_type_str(t[key])
            if ct is not None:
                return ct
    raise Unsupported("type `%s` is outside the subset (%s)" % (t.get("qualType"), n.get("kind")))


# --------------------------------------------------------------------------------------------------------------
# clang AST
# --------------------------------------------------------------------------------------------------------------

def json_objects(s):
    d, i, n = json.JSONDecoder(), 0, len(s)
    while i < n:
        while i < n and s[i].isspace():
            i += 1
        if i >= n:
            break
        o, i = d.raw_decode(s, i)
        yield o


def clang_function_ast(src, fn, flags, clang="clang-14"):
    """The FunctionDecl (with body) named exactly `fn` in translation unit `src`."""
    cmd = [clang, "-Xclang", "-ast-dump=json", "-Xclang", "-ast-dump-filter=" + fn, "-fsyntax-only", "-DNDEBUG", "-w"] + list(flags) + [src]
    p = subprocess.run(cmd, stdout=subprocess.PIPE, stderr=subprocess.PIPE, timeout=300)
    if p.returncode != 0:
        raise Unsupported("clang cannot parse %s: %s" % (src, p.stderr.decode("utf-8", "replace")[-1500:]))
    found = None
    for o in json_objects(p.stdout.decode("utf-8", "replace")):
        if o.get("kind") == "FunctionDecl" and o.get("name") == fn and any(c.get("kind") == "CompoundStmt" for c in o.get("inner", [])):
            found = o
    if found is None:
        raise Unsupported("no definition of function `%s` in %s" % (fn, src))
    return found


SKIP_KINDS = ("FullComment", "ParagraphComment", "TextComment")


def inner(n):
    return [c for c in n.get("inner", []) if c.get("kind") not in SKIP_KINDS and not c.get("kind", "").endswith("Attr")]


def walk(n):
    yield n
    for c in n.get("inner", []):
        if isinstance(c, dict):
            yield from walk(c)


# --------------------------------------------------------------------------------------------------------------
# values
# --------------------------------------------------------------------------------------------------------------

LEAN_KEYWORDS = {"end", "at", "from", "in", "do", "then", "else", "if", "let", "have", "fun", "match", "with", "by", "open", "type", "Type",
                 "def", "theorem", "namespace", "section", "where", "for", "mut", "return", "show", "this", "at", "state", "instance",
                 "structure", "class", "local", "private", "prefix", "infix", "notation", "macro", "syntax", "import", "export", "variable",
                 "universe", "using", "calc", "extends", "deriving", "inductive", "abbrev", "example", "axiom", "sorry", "fuel"}


def lean_ident(s):
    s = re.sub(r"[^A-Za-z0-9_]", "_", s)
    if s in LEAN_KEYWORDS or not re.match(r"[A-Za-z_]", s):
        s = s + "_"
    return s


def atom(t):
    if re.fullmatch(r"[A-Za-z0-9_.']+", t):
        return t
    if t.startswith("(") and t.endswith(")"):
        depth = 0
        for i, ch in enumerate(t):
            depth += ch == "("
            depth -= ch == ")"
            if depth == 0 and i < len(t) - 1:
                break
        else:
            return t
    return "(" + t + ")"


class V:
    """A rendered value: Lean text, C type, the constant value when known; for a signed value known to be
    non-negative, `nat` is the same value as a `Nat` expression (so that promoted uint8/uint16 arithmetic stays on Nat);
    `ite` = (condition, V, V) when the value is a conditional (conversions are pushed into the branches)."""
    def __init__(self, text, ty, const=None, nat=None, ite=None):
        self.text, self.ty, self.const, self.nat, self.ite = text, ty, const, nat, ite


def ite_v(cc, x, y, ty):
    if BV[0]:
        return V("(if %s then %s else %s)" % (cc, x.text, y.text), ty, None, ("nn" if (x.nat is not None and y.nat is not None) else None), (cc, x, y))
    nat = "(if %s then %s else %s)" % (cc, x.nat, y.nat) if (x.nat is not None and y.nat is not None) else None
    if ty.kind == "s":
        return V("(if %s then %s else %s : Int)" % (cc, x.text, y.text), ty, None, nat, (cc, x, y))
    return V("(if %s then %s else %s)" % (cc, x.text, y.text), ty, None, None, (cc, x, y))


def from_nat(nat, ty):
    """signed value given as a Nat expression"""
    return V("(%s : Int)" % nat if not re.fullmatch(r"\d+", nat) else "(%s : Int)" % nat, ty, None, nat)


def lit(v, ty):
    if ty.kind == "b":
        return V("true" if v else "false", ty, 1 if v else 0)
    if BV[0]:
        return V("%d#%d" % (v % (1 << ty.w), ty.w), ty, v, "nn" if v >= 0 else None)
    if ty.kind == "s":
        return V("(%d : Int)" % v, ty, v, str(v) if v >= 0 else None)
    return V(str(v), ty, v)


def in_range(v, ty):
    if ty.kind == "u":
        return 0 <= v < (1 << ty.w)
    if ty.kind == "s":
        return -(1 << (ty.w - 1)) <= v < (1 << (ty.w - 1))
    return v in (0, 1)


def convert(v, to):
    """C integer conversion of value v to type `to`."""
    fr = v.ty
    if not (fr.isint() and to.isint()):
        raise Unsupported("conversion %r -> %r" % (fr, to))
    if fr == to:
        return v
    if v.const is not None:
        c = v.const
        if to.kind == "b":
            return lit(1 if c else 0, to)
        if to.kind == "u":
            return lit(c % (1 << to.w), to)
        c = c % (1 << to.w)
        if c >= 1 << (to.w - 1):
            c -= 1 << to.w
        return lit(c, to)
    if v.ite is not None:
        cc, x, y = v.ite
        return ite_v(cc, convert(x, to), convert(y, to), to)
    if BV[0]:
        return bv_convert(v, to)
    if to.kind == "b":
        return V("decide (%s ≠ 0)" % atom(v.nat if v.nat is not None else v.text), to)
    if fr.kind == "s" and v.nat is not None:
        if to.kind == "u":
            return V("%s %% %d" % (atom(v.nat), 1 << to.w), to)
        if to.w >= fr.w:
            return V(v.text, to, None, v.nat)
    if fr.kind == "b":
        if to.kind == "u":
            return V("(if %s then 1 else 0)" % atom(v.text), to)
        return V("(if %s then (1 : Int) else 0)" % atom(v.text), to)
    if fr.kind == "u" and to.kind == "u":
        return V(v.text, to) if to.w >= fr.w else V("%s %% %d" % (atom(v.text), 1 << to.w), to)
    if fr.kind == "u" and to.kind == "s":
        if to.w > fr.w:
            return from_nat(v.text, to)
        h = 1 << (to.w - 1)
        return V("((%s : Int) + %d) %% %d - %d" % (v.text, h, 1 << to.w, h), to)
    if fr.kind == "s" and to.kind == "u":
        return V("(%s %% %d).toNat" % (atom(v.text), 1 << to.w), to)
    if fr.kind == "s" and to.kind == "s":
        if to.w >= fr.w:
            return V(v.text, to)
        h = 1 << (to.w - 1)
        return V("(%s + %d) %% %d - %d" % (atom(v.text), h, 1 << to.w, h), to)
    raise Unsupported("conversion %r -> %r" % (fr, to))


def bv_convert(v, to):
    fr = v.ty
    if to.kind == "b":
        return V("decide (%s ≠ 0#%d)" % (atom(v.text), fr.w), to)
    if fr.kind == "b":
        return V("(if %s then 1#%d else 0#%d)" % (atom(v.text), to.w, to.w), to, None, "nn")
    nonneg = fr.kind == "u" or v.nat is not None
    if to.w == fr.w:
        return V(v.text, to, None, v.nat if to.kind == "s" and fr.kind == "s" else None)
    if to.w < fr.w:
        return V("%s.setWidth %d" % (atom(v.text), to.w), to)
    if nonneg:
        return V("%s.setWidth %d" % (atom(v.text), to.w), to, None, "nn")
    return V("%s.signExtend %d" % (atom(v.text), to.w), to)


def bv_arith(op, a, b, ty):
    A, B = atom(a.text), atom(b.text)
    nn = a.nat is not None and (b.nat is not None or b.ty.kind == "u")
    unsigned = ty.kind == "u" or nn
    if op in ("+", "-", "*"):
        return V("%s %s %s" % (A, op, B), ty)
    if op in ("/", "%"):
        if unsigned:
            return V("%s %s %s" % (A, op, B), ty, None, "nn" if ty.kind == "s" else None)
        return V("%s.%s %s" % (A, "sdiv" if op == "/" else "srem", B), ty)
    if op in ("<<", ">>"):
        if b.const is not None:
            if not 0 <= b.const < ty.w:
                raise Unsupported("shift count %d out of range" % b.const)
            cnt = str(b.const)
        else:
            cnt = B
        if op == "<<":
            return V("%s <<< %s" % (A, cnt), ty)
        if ty.kind == "u" or a.nat is not None:
            return V("%s >>> %s" % (A, cnt), ty, None, "nn" if ty.kind == "s" else None)
        if b.const is None:
            raise Unsupported("arithmetic right shift by a non-constant")
        return V("%s.sshiftRight %s" % (A, cnt), ty)
    sym = {"&": "&&&", "|": "|||", "^": "^^^"}[op]
    keep = "nn" if ty.kind == "s" and ((op == "&" and (a.nat is not None or b.nat is not None)) or (a.nat is not None and b.nat is not None)) else None
    return V("%s %s %s" % (A, sym, B), ty, None, keep)


def pow2(c):
    return c > 0 and (c & (c - 1)) == 0


def arith(op, a, b, ty):
    """a `op` b where both operands already have type `ty` (shifts: a has type ty, b any integer type)."""
    if ty.kind == "b":
        raise Unsupported("arithmetic on bool")
    M = 1 << ty.w
    shift = op in ("<<", ">>")
    if not shift and (a.ty != ty or b.ty != ty):
        raise Unsupported("operand types %r %r differ from the result type %r of `%s`" % (a.ty, b.ty, ty, op))
    if a.const is not None and b.const is not None:
        x, y = a.const, b.const
        if op in ("/", "%") and y == 0:
            raise Unsupported("constant division by zero")
        if shift and not 0 <= y < ty.w:
            raise Unsupported("constant shift count %d out of range" % y)
        if ty.kind == "s" and (x < 0 or y < 0) and op in ("<<", ">>"):
            raise Unsupported("signed `%s` on a negative constant" % op)
        r = {"+": lambda: x + y, "-": lambda: x - y, "*": lambda: x * y, "/": lambda: abs(x) // abs(y) * (1 if (x < 0) == (y < 0) else -1),
             "%": lambda: x - y * (abs(x) // abs(y) * (1 if (x < 0) == (y < 0) else -1)), "<<": lambda: x << y, ">>": lambda: x >> y,
             "&": lambda: x & y, "|": lambda: x | y, "^": lambda: x ^ y}[op]()
        if ty.kind == "u":
            r %= M
        elif not in_range(r, ty):
            raise Unsupported("signed overflow in a constant expression")
        return lit(r, ty)
    if BV[0]:
        return bv_arith(op, a, b, ty)
    A, B = atom(a.text), atom(b.text)
    if ty.kind == "s":
        if a.nat is not None and b.nat is not None and op in ("+", "*", "/", "%"):
            return from_nat("%s %s %s" % (atom(a.nat), op, atom(b.nat)), ty)
        if a.nat is not None and b.nat is not None and op in ("<<", ">>", "&", "|", "^"):
            # non-negative operands; a left shift that overflowed would be undefined behaviour, so no wrap
            return from_nat(nat_bits(op, a.nat, a.const, V(b.nat, CT("u", 32), b.const), ty.w - 1, None), ty)
        if op in ("+", "-", "*"):
            return V("%s %s %s" % (A, op, B), ty)
        if op == "/":
            return V("Int.tdiv %s %s" % (A, B), ty)
        if op == "%":
            return V("Int.tmod %s %s" % (A, B), ty)
        raise Unsupported("signed `%s` on non-constant operands" % op)
    # unsigned
    if op == "+":
        return V("(%s + %s) %% %d" % (A, B, M), ty)
    if op == "-":
        return V("(%s + %d - %s) %% %d" % (A, M, B, M), ty)
    if op == "*":
        return V("%s * %s %% %d" % (A, B, M), ty)
    if op == "/":
        return V("%s / %s" % (A, B), ty)
    if op == "%":
        return V("%s %% %s" % (A, B), ty)
    return V(nat_bits(op, a.text, a.const, b if b.ty.kind == "u" or not shift else to_nat_operand(b), ty.w, M), ty)


def to_nat_operand(b):
    """shift count of signed type as a Nat operand"""
    if b.const is not None:
        return V(str(b.const), CT("u", 32), b.const)
    if b.nat is not None:
        return V(b.nat, CT("u", 32))
    return convert(b, CT("u", 32))


def nat_bits(op, atext, aconst, b, w, M):
    """Nat text of `a op b` for op in << >> & | ^ on non-negative values below 2^w; M = wrap modulus or None (no wrap)"""
    A, B = atom(atext), atom(b.text)
    if op == ">>":
        if b.const is not None:
            if not 0 <= b.const < w:
                raise Unsupported("shift count %d out of range" % b.const)
            return "%s / %d" % (A, 1 << b.const) if b.const else atext
        return "%s >>> %s" % (A, B)
    if op == "<<":
        if b.const is not None:
            if not 0 <= b.const < w:
                raise Unsupported("shift count %d out of range" % b.const)
            if b.const == 0:
                return atext
            return "%s * %d %% %d" % (A, 1 << b.const, M) if M else "%s * %d" % (A, 1 << b.const)
        return "(%s <<< %s) %% %d" % (A, B, M) if M else "%s <<< %s" % (A, B)
    if op == "&":
        for xt, xc, yt, yc in ((atext, aconst, b.text, b.const), (b.text, b.const, atext, aconst)):
            if yc is not None:
                c = yc
                if c == 0:
                    return "0"
                if c == (1 << w) - 1:
                    return xt
                lowbit = c & -c
                if pow2(c + lowbit):                 # contiguous run of ones: bits [log2 lowbit, log2 (c + lowbit))
                    hi = c + lowbit
                    t = atom(xt)
                    if hi < (1 << w):
                        t = "%s %% %d" % (t, hi)
                    if lowbit > 1:
                        t = "%s / %d * %d" % (atom(t) if hi < (1 << w) else t, lowbit, lowbit)
                    return t
        return "%s &&& %s" % (A, B)
    if op == "|":
        return "%s ||| %s" % (A, B)
    if op == "^":
        return "%s ^^^ %s" % (A, B)
    raise Unsupported("operator `%s`" % op)


CMP = {"<": "<", ">": ">", "<=": "≤", ">=": "≥", "==": "=", "!=": "≠"}


def py_cmp(op, x, y):
    return {"<": x < y, ">": x > y, "<=": x <= y, ">=": x >= y, "==": x == y, "!=": x != y}[op]


# --------------------------------------------------------------------------------------------------------------
# one function
# --------------------------------------------------------------------------------------------------------------

class St(set):
    """definitely-assigned names on the current path + the names currently known to hold a constant"""
    def __init__(self, it=(), consts=None):
        super().__init__(it)
        self.consts = dict(consts or {})

    def fork(self):
        return St(self, self.consts)


class Param:
    """A Lean parameter: a C argument (`origin = ('arg', i)`) or a field read through pointer argument i
    (`origin = ('field', i, path)`)."""
    def __init__(self, lean, ct, origin):
        self.lean, self.ct, self.origin = lean, ct, origin


class PtrBase:
    def __init__(self, name, index, pointee):
        self.name, self.index, self.pointee = name, index, pointee      # index = position among the C arguments
        self.reads = {}       # path -> CT   (fields that are inputs)
        self.writes = {}      # path -> CT   (integer fields that are outputs)
        self.ignored = []     # pointer-typed stores that were skipped

    def lean(self, path):
        return lean_ident(self.name + "_" + re.sub(r"[\[\]]", "", path).replace(".", "_"))


class FreeBase(PtrBase):
    """fragment mode: the integer variables declared outside the fragment"""
    def __init__(self):
        PtrBase.__init__(self, "", "free", "")

    def lean(self, path):
        return lean_ident(path)


class Kernel:
    def __init__(self):
        self.cname = self.lean_name = self.src = ""
        self.params = []          # [Param]
        self.cargs = []           # [(name, CT, type string)] of the C function
        self.ret = None           # CT or None (void)
        self.outputs = []         # [(lean name, CT, arg index, path)]
        self.ptrs = {}            # arg index -> PtrBase
        self.defs = []            # Lean source blocks (aux definitions first)
        self.requests = set()     # "sizeof:T" / "enum:NAME" / "table:NAME:elemtype:len"
        self.literals = set()
        self.notes = []

    def result_lean_type(self):
        parts = ([self.ret.lean()] if self.ret is not None else []) + [o[1].lean() for o in self.outputs]
        return " × ".join(parts)


def strip_casts(n):
    while n.get("kind") in ("ImplicitCastExpr", "ParenExpr", "CStyleCastExpr", "ConstantExpr"):
        n = inner(n)[0]
    return n


def is_null_ptr(n):
    m = n
    while m.get("kind") in ("ImplicitCastExpr", "ParenExpr", "CStyleCastExpr"):
        if m.get("castKind") == "NullToPointer":
            return True
        m = inner(m)[0]
    return False


class FnTranslator:
    def __init__(self, fn, spec, registry, consts):
        self.fn, self.spec, self.registry, self.consts = fn, spec, registry, consts or {}
        self.cname = fn["name"]
        self.lean_name = spec.get("lean", self.cname)
        self.k = Kernel()
        self.k.cname, self.k.lean_name = self.cname, self.lean_name
        self.vars = {}            # decl id -> dict(kind, lean, ct, ...)
        self.used_names = set()
        self.aux = []
        self.nloops = 0
        self.ntmp = 0
        self.log = []             # ('r'|'w'|'d', lean name, CT)
        self.out_keys = []        # [(argindex, path)] known outputs (fixpoint)
        self.fuel = list(spec.get("fuel", []))
        self.bases = {}
        self.seed = {}
        self.st = St()
        self.always = set()
        self.free_params = []
        self.frag_plain = False
        self.in_loop = 0
        self.field_map = {}        # lean name of a field / array cell / free variable -> (base key, base object, path, CT); never rolled back
        self.frag_end = None

    # ---- names ---------------------------------------------------------------------------------------------
    def fresh(self, base):
        nm = lean_ident(base)
        if nm in self.used_names or nm == self.lean_name:
            i = 2
            while "%s_%d" % (nm, i) in self.used_names:
                i += 1
            nm = "%s_%d" % (nm, i)
        self.used_names.add(nm)
        return nm

    def const_request(self, key, ty):
        self.k.requests.add(key)
        if key in self.consts:
            return lit(self.consts[key], ty) if in_range(self.consts[key], ty) else lit(self.consts[key] % (1 << ty.w), ty)
        return V(lean_ident("«%s»" % key), ty)          # pass 1: opaque placeholder (never written to a file)

    # ---- pointers / lvalues --------------------------------------------------------------------------------
    def free_var(self, rd):
        """fragment mode: a variable declared outside the fragment is an input of the fragment"""
        ts = rd.get("type", {}).get("qualType", "")
        ct = parse_type_str(rd.get("type", {}).get("desugaredQualType", ts)) or parse_type_str(ts)
        if ct is None and not strip_quals(ts).endswith("]"):
            # a struct object declared outside the fragment: its members are inputs / outputs like those of a pointer parameter
            key = "frag:" + rd["name"]
            base = PtrBase(rd["name"], key, strip_quals(ts))
            self.bases[key] = base
            v = {"kind": "struct", "base": base}
            self.vars[rd["id"]] = v
            return v
        if ct is None:
            raise Unsupported("free variable `%s` of type `%s`" % (rd.get("name"), ts))
        if ct.kind == "p":
            key = "frag:" + rd["name"]
            base = PtrBase(rd["name"], key, pointee_of(ts))
            self.bases[key] = base
            v = {"kind": "ptr", "base": base}
        elif ct.isint():
            # an integer variable declared outside the fragment: read = input, written = result component
            base = self.bases.get("free")
            if base is None:
                base = self.bases["free"] = FreeBase()
            self.used_names.add(lean_ident(rd["name"]))
            v = {"kind": "freeint", "base": base, "name": rd["name"], "ct": ct}
        else:
            raise Unsupported("free variable `%s` of type `%s`" % (rd.get("name"), ts))
        self.vars[rd["id"]] = v
        return v

    def ptr_base(self, n):
        m = strip_casts(n)
        if m.get("kind") == "DeclRefExpr":
            v = self.vars.get(m["referencedDecl"]["id"])
            if v is None and self.spec.get("fragment") and m["referencedDecl"].get("kind") in ("VarDecl", "ParmVarDecl"):
                v = self.free_var(m["referencedDecl"])
            if v and v["kind"] == "ptr":
                return v["base"]
        if m.get("kind") == "UnaryOperator" and m.get("opcode") == "&":
            raise Unsupported("address-of")
        raise Unsupported("pointer expression that is not a pointer parameter or an alias of one (%s)" % m.get("kind"))

    def lvalue(self, n):
        """('var', info) | ('field', base, path, ct) | ('table', info, index V)"""
        k = n.get("kind")
        if k in ("ParenExpr", "ConstantExpr"):
            return self.lvalue(inner(n)[0])
        if k == "DeclRefExpr":
            rd = n["referencedDecl"]
            v = self.vars.get(rd["id"])
            if v is None and self.spec.get("fragment") and rd.get("kind") in ("VarDecl", "ParmVarDecl"):
                v = self.free_var(rd)
            if v is None:
                if rd.get("kind") == "VarDecl":
                    ts = rd.get("type", {}).get("qualType", "")
                    ct = parse_type_str(rd.get("type", {}).get("desugaredQualType", ts)) or parse_type_str(ts)
                    if ct is not None and ct.isint() and not re.search(r"\bconst\b", ts):
                        # a file-scope variable: read = input `glob_<name>`, written = result component
                        base = self.bases.get("glob")
                        if base is None:
                            base = self.bases["glob"] = PtrBase("glob", "glob", "")
                        return ("field", base, rd["name"], ct)
                    return ("global", rd, None)
                raise Unsupported("reference to `%s` (%s)" % (rd.get("name"), rd.get("kind")))
            if v["kind"] == "freeint":
                return ("field", v["base"], v["name"], v["ct"])
            return ("var", v)
        if k == "MemberExpr":
            if n.get("isArrow"):
                return ("field", self.ptr_base(inner(n)[0]), n["name"], node_type_lenient(n))
            lv = self.lvalue(inner(n)[0])
            if lv[0] == "var" and lv[1]["kind"] == "struct":
                return ("field", lv[1]["base"], n["name"], node_type_lenient(n))
            if lv[0] != "field":
                raise Unsupported("member access on a non-parameter object")
            return ("field", lv[1], lv[2] + "." + n["name"], node_type_lenient(n))
        if k == "ArraySubscriptExpr":
            b, i = inner(n)
            bs = strip_casts(b)
            is_table = False
            if bs.get("kind") == "DeclRefExpr":
                rd = bs["referencedDecl"]
                v = self.vars.get(rd["id"])
                is_table = (v is not None and v["kind"] == "table") or (v is None and rd.get("kind") == "VarDecl" and strip_quals(rd.get("type", {}).get("qualType", "")).endswith("]"))
            if not is_table and self.spec.get("fragment") and strip_casts(i).get("kind") != "IntegerLiteral":
                sym = self.symbolic_index(i)
                if sym is not None:
                    return ("field", self.ptr_base(b), "[%s]" % sym, node_type(n))
            idx = self.val(i)
            if is_table:
                v = self.vars.get(bs["referencedDecl"]["id"])
                return ("table", v if v is not None else self.global_table(bs["referencedDecl"]), idx)
            base = self.ptr_base(b)
            if idx.const is None or idx.const < 0:
                raise Unsupported("array parameter indexed by a non-constant")
            return ("field", base, "[%d]" % idx.const, node_type(n))
        if k == "UnaryOperator" and n.get("opcode") == "*":
            return ("field", self.ptr_base(inner(n)[0]), "[0]", node_type(n))
        raise Unsupported("lvalue of kind %s" % k)

    def symbolic_index(self, n):
        """fragment mode: `v` or `v + c` (v a variable declared outside the fragment) as the name of an array cell"""
        n = strip_casts(n)
        if n.get("kind") == "DeclRefExpr" and n["referencedDecl"].get("kind") in ("VarDecl", "ParmVarDecl"):
            return n["referencedDecl"]["name"] + "+0"          # `buffer[i]` and `buffer[i + 0]` are the same cell
        if n.get("kind") == "BinaryOperator" and n.get("opcode") == "+":
            a, b = [strip_casts(x) for x in inner(n)]
            if a.get("kind") == "IntegerLiteral":
                a, b = b, a
            if a.get("kind") == "DeclRefExpr" and b.get("kind") == "IntegerLiteral":
                return "%s+%s" % (a["referencedDecl"]["name"], b["value"])
        return None

    def global_table(self, rd):
        ts = rd.get("type", {}).get("qualType", "")
        m = re.match(r"(.*)\[(\d+)\]$", strip_quals(ts))
        if not m or "const" not in ts:
            raise Unsupported("global `%s` of type `%s` is not a const array of known length" % (rd.get("name"), ts))
        et = parse_type_str(m.group(1))
        if et is None or et.kind != "u":
            raise Unsupported("global table `%s`: element type `%s`" % (rd.get("name"), m.group(1)))
        key = "table:%s:%s:%s" % (rd["name"], m.group(1).strip(), m.group(2))
        self.k.requests.add(key)
        return {"kind": "table", "lean": lean_ident(rd["name"]), "ct": et, "len": int(m.group(2)), "global": True}

    def read_lv(self, lv, st):
        if lv[0] == "var":
            v = lv[1]
            if v["kind"] != "int":
                raise Unsupported("use of `%s` as a value" % v["lean"])
            if v["lean"] not in st and v["lean"] not in self.always:
                raise Unsupported("`%s` may be read before it is assigned" % v["lean"])
            self.log.append(("r", v["lean"], v["ct"]))
            if v["lean"] in st.consts:
                return lit(st.consts[v["lean"]], v["ct"])
            return V(v["lean"], v["ct"])
        if lv[0] == "field":
            _, base, path, ct = lv
            if not ct.isint():
                raise Unsupported("read of non-integer field %s" % path)
            nm = base.lean(path)
            self.field_map[nm] = (base.index, base, path, ct)
            if nm not in st:
                if base.index is None:
                    raise Unsupported("field `%s` of a fresh object is read before it is written" % path)
                base.reads[path] = ct
            self.log.append(("r", nm, ct))
            if nm in st.consts:
                return lit(st.consts[nm], ct)
            return V(nm, ct)
        if lv[0] == "table":
            if BV[0]:
                raise Unsupported("table lookup in BitVec mode")
            _, t, idx = lv
            if idx.ty.kind != "u":
                if idx.const is None or idx.const < 0:
                    raise Unsupported("table index of signed type")
                idx = lit(idx.const, CT("u", 32))
            if idx.const is not None and "values" in t:
                if idx.const >= len(t["values"]):
                    raise Unsupported("constant index out of bounds")
                return lit(t["values"][idx.const], t["ct"])
            if t.get("len", 0) > 256:
                return V("%s_at %s" % (t["lean"], atom(idx.text)), t["ct"])
            return V("%s.getD %s 0" % (t["lean"], atom(idx.text)), t["ct"])
        raise Unsupported("read of global `%s`" % lv[1].get("name"))

    # ---- expressions ---------------------------------------------------------------------------------------
    def val(self, n):
        k = n.get("kind")
        st = self.st
        if k in ("ParenExpr", "ConstantExpr"):
            return self.val(inner(n)[0])
        if k == "IntegerLiteral":
            ty = node_type(n)
            c = int(n["value"])
            if c > 16:
                self.k.literals.add(c)
            return lit(c, ty)
        if k == "CharacterLiteral":
            return lit(int(n["value"]), node_type(n))
        if k in ("ImplicitCastExpr", "CStyleCastExpr"):
            ck = n.get("castKind")
            sub = inner(n)[0]
            if ck == "LValueToRValue":
                return self.read_lv(self.lvalue(sub), st)
            if ck == "NoOp":
                return self.val(sub)
            if ck == "IntegralCast":
                return convert(self.val(sub), node_type(n))
            if ck == "IntegralToBoolean":
                c = self.cond(sub)
                if c in ("True", "False"):
                    return lit(1 if c == "True" else 0, node_type(n))
                return V("decide %s" % atom(c), node_type(n))
            raise Unsupported("cast kind %s" % ck)
        if k == "DeclRefExpr":
            rd = n["referencedDecl"]
            if rd.get("kind") == "EnumConstantDecl":
                ty = node_type(n)
                return self.const_request("enum:" + rd["name"], ty)
            raise Unsupported("bare reference to `%s`" % rd.get("name"))
        if k == "UnaryExprOrTypeTraitExpr":
            if n.get("name") != "sizeof" or "argType" not in n:
                raise Unsupported("%s of an expression" % n.get("name"))
            return self.const_request("sizeof:" + strip_quals(n["argType"]["qualType"]), node_type(n))
        if k == "BinaryOperator":
            op = n["opcode"]
            a, b = inner(n)
            if op in CMP or op in ("&&", "||"):
                c = self.cond(n)
                ty = node_type(n)
                if c in ("True", "False"):
                    return lit(1 if c == "True" else 0, ty)
                return ite_v(c, lit(1, ty), lit(0, ty), ty)
            if op in ("+", "-", "*", "/", "%", "<<", ">>", "&", "|", "^"):
                r = arith(op, self.val(a), self.val(b), node_type(n))
                if r.const is not None and r.const > 16:
                    self.k.literals.add(r.const)
                return r
            raise Unsupported("operator `%s` inside an expression" % op)
        if k == "UnaryOperator":
            op = n["opcode"]
            sub = inner(n)[0]
            ty = node_type(n)
            if op == "!":
                c = self.cond(n)
                if c in ("True", "False"):
                    return lit(1 if c == "True" else 0, ty)
                return ite_v(c, lit(1, ty), lit(0, ty), ty)
            x = self.val(sub)
            if op == "+":
                return x
            if op == "-":
                return arith("-", lit(0, ty), x, ty)
            if op == "~" and BV[0] and x.const is None:
                return V("~~~%s" % atom(x.text), ty)
            if op == "~":
                if ty.kind != "u":
                    if x.const is not None and in_range(~x.const, ty):
                        return lit(~x.const, ty)
                    raise Unsupported("`~` on a signed non-constant")
                if x.const is not None:
                    return lit((1 << ty.w) - 1 - x.const, ty)
                return V("%d - %s" % ((1 << ty.w) - 1, atom(x.text)), ty)
            raise Unsupported("unary `%s` inside an expression" % op)
        if k == "ConditionalOperator":
            c, a, b = inner(n)
            cc = self.cond(c)
            if cc == "True":
                return self.val(a)
            if cc == "False":
                return self.val(b)
            x, y = self.val(a), self.val(b)
            ty = node_type(n)
            x, y = convert(x, ty), convert(y, ty)
            return ite_v(cc, x, y, ty)
        if k == "CallExpr":
            return self.call(n)
        raise Unsupported("expression of kind %s" % k)

    def cond(self, n):
        """Lean Prop text ('True'/'False' when constant) for the truth value of a C expression."""
        k = n.get("kind")
        if k == "SynthCond":
            return n["text"]
        if k in ("ParenExpr", "ConstantExpr"):
            return self.cond(inner(n)[0])
        if k in ("ImplicitCastExpr", "CStyleCastExpr"):
            ck = n.get("castKind")
            sub = inner(n)[0]
            if ck in ("IntegralToBoolean", "NoOp"):
                return self.cond(sub)
            if ck == "IntegralCast":
                to = node_type(n)
                fr = node_type(sub)
                if fr.kind == "b" or (to.isint() and to.kind != "b" and to.w >= fr.w):
                    return self.cond(sub)
        if k == "BinaryOperator":
            op = n["opcode"]
            a, b = inner(n)
            if op in ("&&", "||"):
                x, y = self.cond(a), self.cond(b)
                if op == "&&":
                    if x == "False" or y == "False":
                        return "False"
                    if x == "True":
                        return y
                    if y == "True":
                        return x
                    return "(%s ∧ %s)" % (x, y)
                if x == "True" or y == "True":
                    return "True"
                if x == "False":
                    return y
                if y == "False":
                    return x
                return "(%s ∨ %s)" % (x, y)
            if op in CMP:
                ta = (a.get("type") or {}).get("qualType", "")
                if parse_type_str(ta) is not None and parse_type_str(ta).kind == "p":
                    # pointer comparison: only `p == NULL` / `p != NULL` for a pointer parameter or fresh object
                    if is_null_ptr(b):
                        self.ptr_base(a)
                    elif is_null_ptr(a):
                        self.ptr_base(b)
                    else:
                        raise Unsupported("pointer comparison")
                    if op not in ("==", "!="):
                        raise Unsupported("pointer comparison")
                    return "False" if op == "==" else "True"
                x, y = self.val(a), self.val(b)
                if x.ty != y.ty:
                    raise Unsupported("comparison of %r with %r" % (x.ty, y.ty))
                if x.const is not None and y.const is not None:
                    return "True" if py_cmp(op, x.const, y.const) else "False"
                if x.ty.kind == "b":
                    raise Unsupported("comparison of bool values")
                if BV[0]:
                    if op in ("==", "!=") or x.ty.kind == "u" or (x.nat is not None and y.nat is not None):
                        return "%s %s %s" % (atom(x.text), CMP[op], atom(y.text))        # `<` on BitVec is unsigned
                    a, b = (x, y) if op in ("<", "<=") else (y, x)
                    return "%s.%s %s = true" % (atom(a.text), "slt" if op in ("<", ">") else "sle", atom(b.text))
                if x.ty.kind == "s" and x.nat is not None and y.nat is not None:
                    return "%s %s %s" % (atom(x.nat), CMP[op], atom(y.nat))
                return "%s %s %s" % (atom(x.text), CMP[op], atom(y.text))
        if k == "UnaryOperator" and n.get("opcode") == "!":
            x = self.cond(inner(n)[0])
            return {"True": "False", "False": "True"}.get(x, "¬ %s" % atom(x))
        v = self.val(n)
        if v.const is not None:
            return "True" if v.const != 0 else "False"
        if v.ty.kind == "b":
            return "%s = true" % atom(v.text)
        if BV[0]:
            return "%s ≠ 0#%d" % (atom(v.text), v.ty.w)
        return "%s ≠ 0" % atom(v.nat if v.nat is not None else v.text)

    def call(self, n):
        parts = inner(n)
        callee = strip_casts(parts[0])
        if callee.get("kind") != "DeclRefExpr":
            raise Unsupported("indirect call")
        name = callee["referencedDecl"]["name"]
        if name == "__builtin_expect":
            return self.val(parts[1])
        kk = self.registry.get(name)
        if kk is None:
            raise Unsupported("call to `%s`, which is not a translated kernel" % name)
        if BV[0] != bool(getattr(kk, "bitvec", False)):
            raise Unsupported("call between a BitVec-mode and a Nat-mode kernel (`%s`)" % name)
        if kk.outputs:
            raise Unsupported("call to `%s`, which writes through a pointer" % name)
        args = parts[1:]
        texts = []
        for p in kk.params:
            if p.origin[0] == "arg":
                v = self.val(args[p.origin[1]])
                if v.ty != p.ct:
                    v = convert(v, p.ct)
                texts.append(atom(v.text))
            elif p.origin[1] == "glob":
                base = self.bases.get("glob")
                if base is None:
                    base = self.bases["glob"] = PtrBase("glob", "glob", "")
                texts.append(self.read_lv(("field", base, p.origin[2], p.ct), self.st).text)
            else:
                base = self.ptr_base(args[p.origin[1]])
                cb = kk.ptrs.get(p.origin[1])
                if base.pointee in ("void", "") and cb is not None:
                    base.pointee = cb.pointee
                texts.append(self.read_lv(("field", base, p.origin[2], p.ct), self.st).text)
        self.k.notes.append("calls " + kk.lean_name)
        return V("%s %s" % (kk.lean_name, " ".join(texts)) if texts else kk.lean_name, kk.ret)

    # ---- statements ----------------------------------------------------------------------------------------
    @staticmethod
    def may_return(n):
        return any(x.get("kind") in ("ReturnStmt", "ContinueStmt") for x in walk(n))

    @staticmethod
    def stmts_of(n):
        if n is None:
            return []
        return inner(n) if n.get("kind") == "CompoundStmt" else [n]

    def tuple_text(self, names):
        return names[0] if len(names) == 1 else "(" + ", ".join(names) + ")"

    def proj(self, r, i, n):
        if n == 1:
            return r
        return r + ".2" * i + (".1" if i < n - 1 else "")

    def out_values(self, st):
        """current values of the output fields (incoming value if not yet written on this path)"""
        vals = []
        for idx, path in self.out_keys:
            base = self.bases.get(idx)
            ct = self.seed[(idx, path)]
            if base is None:
                vals.append("0")
                continue
            nm = base.lean(path)
            if nm in st:
                vals.append(nm)
            elif base.index is None:
                vals.append("0")
            else:
                base.reads[path] = ct
                vals.append(nm)
        return vals

    def ret_lines(self, s, st):
        if s.get("kind") == "ContinueStmt":
            return self.frag_end(st)
        sub = inner(s)
        parts = []
        if sub:
            if self.k.ret is None:
                raise Unsupported("return with a value in a void function")
            self.st = st
            v = self.val(sub[0])
            if self.frag_plain:
                self.k.ret = v.ty
            elif self.spec.get("fragment"):
                v = arith("+", convert(v, CT("u", 32)), lit(1, CT("u", 32)), CT("u", 32))
            elif v.ty != self.k.ret:
                v = convert(v, self.k.ret)
            parts.append(v.text)
        elif self.k.ret is not None:
            raise Unsupported("return without a value")
        parts += self.out_values(st)
        parts += [x[0] for x in self.frag_results(st)]
        if not parts:
            raise Unsupported("void function without outputs")
        return [parts[0] if len(parts) == 1 else "(" + ", ".join(parts) + ")"]

    def assign(self, lv, v, st):
        """lines binding the new value of an lvalue"""
        if lv[0] == "var":
            info = lv[1]
            if info["kind"] != "int":
                raise Unsupported("assignment to `%s`" % info["lean"])
            v = convert(v, info["ct"])
            st.add(info["lean"])
            self.set_const(st, info["lean"], v)
            self.log.append(("w", info["lean"], info["ct"]))
            return ["let %s : %s := %s" % (info["lean"], info["ct"].lean(), v.text)]
        if lv[0] == "field":
            _, base, path, ct = lv
            if not ct.isint():
                raise Unsupported("store to non-integer field %s" % path)
            v = convert(v, ct)
            nm = base.lean(path)
            self.field_map[nm] = (base.index, base, path, ct)
            base.writes[path] = ct
            st.add(nm)
            self.set_const(st, nm, v)
            self.log.append(("w", nm, ct))
            return ["let %s : %s := %s" % (nm, ct.lean(), v.text)]
        raise Unsupported("assignment to a table element or global")

    @staticmethod
    def set_const(st, nm, v):
        if v.const is not None:
            st.consts[nm] = v.const
        else:
            st.consts.pop(nm, None)

    def expr_stmt(self, s, st):
        """an expression statement: assignment, compound assignment, ++/--, or something without effect"""
        self.st = st
        k = s.get("kind")
        if k in ("ParenExpr",):
            return self.expr_stmt(inner(s)[0], st)
        if k == "NullStmt":
            return []
        if k == "CStyleCastExpr" and s.get("castKind") == "ToVoid":
            sub = strip_casts(inner(s)[0])
            if sub.get("kind") in ("IntegerLiteral", "DeclRefExpr"):
                return []
            raise Unsupported("(void) of a non-trivial expression")
        if k == "CallExpr":
            callee = strip_casts(inner(s)[0])
            nm = callee.get("referencedDecl", {}).get("name") if callee.get("kind") == "DeclRefExpr" else None
            if nm in self.spec.get("ignore_calls", ()):
                note = "call to `%s` not rendered" % nm
                if note not in self.k.notes:
                    self.k.notes.append(note)
                return []
            raise Unsupported("call to `%s` as a statement" % nm)
        if k == "BinaryOperator" and s.get("opcode") == "=":
            l, r = inner(s)
            lt = parse_type_str((l.get("type") or {}).get("qualType", ""))
            if lt is not None and lt.kind == "p":
                if any(x.get("kind") in ("CallExpr", "UnaryOperator", "BinaryOperator", "CompoundAssignOperator") and x is not strip_casts(r) and x.get("opcode") in ("=", "++", "--") for x in walk(r)):
                    raise Unsupported("pointer store with side effects")
                if any(x.get("kind") == "CallExpr" for x in walk(r)):
                    raise Unsupported("pointer store of a call result")
                ll = strip_casts(l)
                if ll.get("kind") == "DeclRefExpr":
                    raise Unsupported("assignment to a pointer variable")
                lv = self.lvalue(l) if ll.get("kind") != "UnaryOperator" else ("field", self.ptr_base(inner(ll)[0]), "[0]", lt)
                lv[1].ignored.append(lv[2])
                return []
            lv = self.lvalue(l)
            return self.assign(lv, self.val(r), st)
        if k == "CompoundAssignOperator":
            l, r = inner(s)
            op = s["opcode"][:-1]
            lv = self.lvalue(l)
            cur = self.read_lv(lv, st)
            lty = parse_type_str(s["computeLHSType"].get("desugaredQualType", s["computeLHSType"]["qualType"])) or parse_type_str(s["computeLHSType"]["qualType"])
            rty = parse_type_str(s["computeResultType"].get("desugaredQualType", s["computeResultType"]["qualType"])) or parse_type_str(s["computeResultType"]["qualType"])
            if lty is None or rty is None:
                raise Unsupported("compound assignment types")
            a = convert(cur, lty)
            b = self.val(r)
            if op in ("<<", ">>"):
                res = arith(op, a, b, rty)
            else:
                res = arith(op, convert(a, rty), convert(b, rty), rty)
            return self.assign(lv, res, st)
        if k == "UnaryOperator" and s.get("opcode") in ("++", "--"):
            lv = self.lvalue(inner(s)[0])
            cur = self.read_lv(lv, st)
            ty = cur.ty
            if ty.kind == "b":
                raise Unsupported("++ on bool")
            cty = ty if ty.w >= 32 else CT("s", 32)
            res = arith("+" if s["opcode"] == "++" else "-", convert(cur, cty), lit(1, cty), cty)
            return self.assign(lv, res, st)
        raise Unsupported("statement of kind %s%s" % (k, " `%s`" % s.get("opcode") if s.get("opcode") else ""))

    def decl_stmt(self, s, st):
        lines = []
        for d in inner(s):
            if d.get("kind") != "VarDecl":
                raise Unsupported("declaration of kind %s" % d.get("kind"))
            ts = d["type"].get("desugaredQualType", d["type"]["qualType"])
            ct = parse_type_str(ts) or parse_type_str(d["type"]["qualType"])
            init = inner(d)
            if ct is None:
                raise Unsupported("local `%s` of type `%s`" % (d["name"], d["type"]["qualType"]))
            if ct.kind == "p":
                if not init:
                    raise Unsupported("pointer local `%s` without initialiser" % d["name"])
                src = strip_casts(init[0])
                if src.get("kind") == "CallExpr":
                    callee = strip_casts(inner(src)[0])
                    nm = callee.get("referencedDecl", {}).get("name")
                    if nm in self.spec.get("allocators", ("lzma_alloc", "lzma_alloc_zero")):
                        base = PtrBase(d["name"], None, pointee_of(d["type"]["qualType"]))
                        self.bases["fresh:" + d["name"]] = base
                        self.vars[d["id"]] = {"kind": "ptr", "base": base}
                        self.k.notes.append("`%s` is a fresh object (allocation assumed to succeed)" % d["name"])
                        continue
                base = self.ptr_base(init[0])
                if base.pointee in ("void", ""):
                    base.pointee = pointee_of(d["type"]["qualType"])
                self.vars[d["id"]] = {"kind": "ptr", "base": base}
                continue
            if ct.kind == "a":
                if d.get("storageClass") != "static" or "const" not in d["type"]["qualType"] or not init or init[0].get("kind") != "InitListExpr":
                    raise Unsupported("array local `%s` that is not a `static const` table with an initialiser list" % d["name"])
                m = re.match(r"(.*)\[(\d+)\]$", strip_quals(d["type"]["qualType"]))
                et = parse_type_str(m.group(1)) if m else None
                if et is None or not et.isint():
                    raise Unsupported("table `%s` element type" % d["name"])
                vals = []
                self.st = st
                for e in inner(init[0]):
                    v = self.val(e)
                    if v.const is None:
                        raise Unsupported("table `%s` has a non-constant element" % d["name"])
                    vals.append(convert(v, et).const)
                vals += [0] * (int(m.group(2)) - len(vals))
                tn = self.lean_name + "_" + lean_ident(d["name"])
                self.aux.append("/-- `static const %s` of `%s` -/\ndef %s : List Nat := [%s]" % (d["type"]["qualType"] + " " + d["name"], self.cname, tn, ", ".join(str(x) for x in vals)))
                self.vars[d["id"]] = {"kind": "table", "lean": tn, "ct": et, "len": len(vals), "values": vals}
                continue
            if not ct.isint():
                raise Unsupported("local `%s` of type `%s`" % (d["name"], d["type"]["qualType"]))
            nm = self.fresh(d["name"])
            self.vars[d["id"]] = {"kind": "int", "lean": nm, "ct": ct, "cname": d["name"]}
            self.log.append(("d", nm, ct))
            if init:
                self.st = st
                v = convert(self.val(init[0]), ct)
                st.add(nm)
                self.set_const(st, nm, v)
                self.log.append(("w", nm, ct))
                lines.append("let %s : %s := %s" % (nm, ct.lean(), v.text))
        return lines

    def block(self, stmts, st, tail):
        """Lean term lines for: run `stmts`, then continue with `tail(st)` on every path that falls through."""
        lines = []
        stmts = list(stmts)
        i = 0
        while i < len(stmts):
            s = stmts[i]
            k = s.get("kind")
            if k == "CompoundStmt":
                stmts[i:i + 1] = inner(s)
                continue
            if k == "ReturnStmt":
                return lines + self.ret_lines(s, st)
            if k == "ContinueStmt":
                # only in a fragment that is the tail of a loop body: `continue` = the fragment ends here
                if not (self.spec.get("fragment") or {}).get("continue_ends") or self.frag_end is None or self.in_loop:
                    raise Unsupported("statement of kind ContinueStmt")
                return lines + self.frag_end(st)
            if k == "DeclStmt":
                lines += self.decl_stmt(s, st)
            elif k == "IfStmt":
                parts = inner(s)
                if s.get("hasInit") or s.get("hasVar"):
                    raise Unsupported("if with a declaration")
                c = parts[0]
                th = self.stmts_of(parts[1])
                el = self.stmts_of(parts[2]) if len(parts) > 2 else []
                self.st = st
                mark0 = len(self.log)
                try:
                    cc = self.cond(c)
                except Unsupported:
                    # a condition outside the subset is tolerated only if it guards nothing that is rendered
                    # (e.g. `if (mf->buffer != NULL && …) { lzma_free(…); mf->buffer = NULL; }`)
                    if self.may_return(s) or not self.effect_free(th + el, st):
                        raise
                    i += 1
                    continue
                if cc in ("True", "False"):
                    stmts[i:i + 1] = th if cc == "True" else el
                    continue
                if self.may_return(s):
                    paths = self.early_returns([s], st)
                    if paths:
                        # every path through the statement either returns or changes nothing: no need to copy the rest
                        rest = stmts[i + 1:]
                        out = []
                        ind = ""
                        for pc, r in paths:
                            out.append(ind + "if %s then" % pc)
                            out += [ind + "  " + x for x in self.ret_lines(r, st)]
                            out.append(ind + "else")
                            ind += "  "
                        out += [ind + x for x in self.block(rest, st, tail)]
                        return lines + out
                    rest = stmts[i + 1:]
                    a = self.block(th, st.fork(), lambda st2: self.block(rest, st2, tail))
                    b = self.block(el, st.fork(), lambda st2: self.block(rest, st2, tail))
                    return lines + ["if %s then" % cc] + ["  " + x for x in a] + ["else"] + ["  " + x for x in b]
                lines += self.if_join(cc, th, el, st, mark0)
            elif k in ("DoStmt", "WhileStmt", "ForStmt"):
                lines += self.loop(s, st)
            elif k == "SwitchStmt":
                pre, node = self.switch_to_ifs(s, st)
                lines += pre
                if node is None:
                    i += 1
                    continue
                stmts[i:i + 1] = [node]
                continue
            elif k in ("GotoStmt", "LabelStmt", "BreakStmt", "ContinueStmt", "CaseStmt", "DefaultStmt"):
                raise Unsupported("statement of kind %s" % k)
            else:
                lines += self.expr_stmt(s, st)
            i += 1
        return lines + tail(st)

    @staticmethod
    def always_returns(stmts):
        return bool(stmts) and stmts[-1].get("kind") == "ReturnStmt"

    def early_returns(self, stmts, st):
        """[(condition, ReturnStmt)] if every path through `stmts` either returns or has no rendered effect, else None"""
        paths = []
        for s in stmts:
            k = s.get("kind")
            if k == "CompoundStmt":
                sub = self.early_returns(inner(s), st)
                if sub is None:
                    return None
                paths += sub
            elif k == "ReturnStmt" or (k == "ContinueStmt" and (self.spec.get("fragment") or {}).get("continue_ends")):
                paths.append(("True", s))
                return paths
            elif k == "IfStmt":
                parts = inner(s)
                self.st = st
                try:
                    cc = self.cond(parts[0])
                except Unsupported:
                    return None
                pa = self.early_returns(self.stmts_of(parts[1]), st)
                pb = self.early_returns(self.stmts_of(parts[2]) if len(parts) > 2 else [], st)
                if pa is None or pb is None:
                    return None
                neg = {"True": "False", "False": "True"}.get(cc, "¬ %s" % atom(cc))
                for pre, ps in ((cc, pa), (neg, pb)):
                    for pc, r in ps:
                        if pre == "False" or pc == "False":
                            continue
                        paths.append((pc if pre == "True" else pre if pc == "True" else "(%s ∧ %s)" % (pre, pc), r))
            elif k == "DeclStmt":
                return None
            else:
                try:
                    if not self.effect_free([s], st):
                        return None
                except Unsupported:
                    return None
        return paths

    def effect_free(self, stmts, st):
        mark = len(self.log)
        snap = self.snapshot()
        try:
            self.block(stmts, st.fork(), lambda s2: [])
            ws = self.written_in(mark)
        finally:
            self.restore(snap)
            del self.log[mark:]
        return not ws

    def switch_to_ifs(self, s, st):
        """`switch (e) { case A: case B: …; break; … default: … }` as a chain of synthetic if statements.
        Every group must end in `break` or `return` (no fall-through between non-empty groups)."""
        parts = inner(s)
        if len(parts) != 2 or parts[1].get("kind") != "CompoundStmt":
            raise Unsupported("switch statement shape")
        self.st = st
        sw = self.val(parts[0])
        pre = []
        if sw.const is None and not re.fullmatch(r"[A-Za-z0-9_']+", sw.nat if sw.nat is not None else sw.text):
            self.ntmp += 1
            nm = "sw_%d" % self.ntmp
            pre = ["let %s : %s := %s" % (nm, sw.ty.lean(), sw.text)]
            sw = V(nm, sw.ty, None, None)
        groups, cur = [], None          # [(labels, stmts)]
        def open_label(node):
            labels = []
            while node.get("kind") in ("CaseStmt", "DefaultStmt"):
                sub = inner(node)
                if node["kind"] == "CaseStmt":
                    if len(sub) != 2:
                        raise Unsupported("case range")
                    v = convert(self.val(sub[0]), sw.ty)
                    labels.append(v)
                    node = sub[1]
                else:
                    labels.append(None)
                    node = sub[0]
            return labels, node
        for node in inner(parts[1]):
            if node.get("kind") in ("CaseStmt", "DefaultStmt"):
                labels, first = open_label(node)
                if cur is not None and cur[1] and cur[1][-1].get("kind") not in ("BreakStmt", "ReturnStmt"):
                    raise Unsupported("switch case falls through")
                if cur is not None and not cur[1]:
                    cur[0].extend(labels)
                else:
                    cur = (labels, [])
                    groups.append(cur)
                cur[1].append(first)
            else:
                if cur is None:
                    raise Unsupported("statement before the first case")
                cur[1].append(node)
        default, chain = None, []
        for gi, (labels, body) in enumerate(groups):
            if body and body[-1].get("kind") == "BreakStmt":
                body = body[:-1]
            elif not (body and body[-1].get("kind") == "ReturnStmt") and gi != len(groups) - 1:
                raise Unsupported("switch case falls through")
            if any(x.get("kind") == "BreakStmt" for b in body for x in walk(b) if x.get("kind") not in ("SwitchStmt",)):
                raise Unsupported("break inside a switch case body")
            if None in labels:
                default = body
                labels = [l for l in labels if l is not None]
                if not labels:
                    continue
            conds = []
            for l in labels:
                a = sw.nat if (sw.ty.kind == "s" and sw.nat is not None and l.nat is not None) else sw.text
                b = l.nat if (sw.ty.kind == "s" and sw.nat is not None and l.nat is not None) else l.text
                if sw.const is not None and l.const is not None:
                    conds.append("True" if sw.const == l.const else "False")
                else:
                    conds.append("%s = %s" % (atom(a), atom(b)))
            conds = [c for c in conds if c != "False"]
            if not conds:
                continue
            text = "True" if "True" in conds else (conds[0] if len(conds) == 1 else "(" + " ∨ ".join(conds) + ")")
            chain.append((text, body))
        node = {"kind": "CompoundStmt", "inner": default} if default is not None else None
        for text, body in reversed(chain):
            n2 = {"kind": "IfStmt", "inner": [{"kind": "SynthCond", "text": text}, {"kind": "CompoundStmt", "inner": body}] + ([node] if node is not None else [])}
            node = n2
        return pre, node

    def written_in(self, mark):
        """(lean name, CT) written since log position `mark` and declared before it, in order of first write"""
        declared = {x[1] for x in self.log[mark:] if x[0] == "d"}
        seen, out = set(), []
        for kind, nm, ct in self.log[mark:]:
            if kind == "w" and nm not in declared and nm not in seen:
                seen.add(nm)
                out.append((nm, ct))
        return out

    def if_join(self, cc, th, el, st, mark0=None):
        # dry run to learn which outer variables the branches assign
        mark = len(self.log)
        st_before = set(st) | set(self.always)
        snap = self.snapshot()
        sa, sb = st.fork(), st.fork()
        self.block(th, sa, lambda s2: [])
        self.block(el, sb, lambda s2: [])
        ws = self.written_in(mark)
        self.restore(snap)
        del self.log[mark:]
        if not ws:
            return []
        names = [w[0] for w in ws]
        for nm, ct in ws:
            if nm not in st:
                # assigned in a branch but not before: the other branch keeps the incoming value (fields) or is undefined (locals)
                if not self.is_field_name(nm):
                    if not (nm in sa and nm in sb):
                        raise Unsupported("`%s` is assigned in only one branch of an if before any other assignment" % nm)
        res = self.tuple_text(names)

        def tail_for(branch_st):
            def t(s2):
                for nm, ct in ws:
                    if nm not in s2:
                        self.touch_field_input(nm)
                return [res]
            return t
        sa, sb = st.fork(), st.fork()
        a = self.block(th, sa, tail_for(sa))
        b = self.block(el, sb, tail_for(sb))
        for nm, ct in ws:
            self.log.append(("w", nm, ct))
            st.add(nm)
            st.consts.pop(nm, None)
        tys = " × ".join(ct.lean() for _, ct in ws)
        if self.spec.get("outline_ifs") and mark0 is not None:
            # the joined `if` becomes an auxiliary definition over the outer names it reads (keeps the main definition small)
            declared = {x[1] for x in self.log[mark0:] if x[0] == "d"}
            reads, seen, written = [], set(), set()
            for kind, nm, ct in self.log[mark0:-len(ws)]:
                if kind == "w":
                    written.add(nm)
                elif kind == "r" and nm not in declared and nm not in seen and nm not in written:
                    seen.add(nm)
                    reads.append((nm, ct))
            for nm, ct in ws:
                if nm in st_before and nm not in seen:
                    seen.add(nm)
                    reads.append((nm, ct))
            self.ntmp += 1
            aux = "%s_if%d" % (self.lean_name, self.ntmp)
            params = " ".join("(%s : %s)" % (nm, ct.lean()) for nm, ct in reads)
            self.aux.append("/-- an `if` statement of `%s` assigning %s -/\ndef %s %s : %s :=\n  if %s then\n%s\n  else\n%s"
                            % (self.cname, ", ".join(names), aux, params, tys, cc, "\n".join("    " + x for x in a), "\n".join("    " + x for x in b)))
            call = aux + "".join(" " + nm for nm, _ in reads)
            if len(ws) == 1:
                return ["let %s : %s := %s" % (names[0], tys, call)]
            r = "r_%d" % self.ntmp
            out = ["let %s : %s := %s" % (r, tys, call)]
            for j, (nm, ct) in enumerate(ws):
                out.append("let %s : %s := %s" % (nm, ct.lean(), self.proj(r, j, len(ws))))
            return out
        if len(ws) == 1:
            return ["let %s : %s :=" % (names[0], tys), "  if %s then" % cc] + ["    " + x for x in a] + ["  else"] + ["    " + x for x in b]
        self.ntmp += 1
        r = "r_%d" % self.ntmp
        out = ["let %s : %s :=" % (r, tys), "  if %s then" % cc] + ["    " + x for x in a] + ["  else"] + ["    " + x for x in b]
        for j, (nm, ct) in enumerate(ws):
            out.append("let %s : %s := %s" % (nm, ct.lean(), self.proj(r, j, len(ws))))
        return out

    def is_field_name(self, nm):
        return nm in self.field_map

    def touch_field_input(self, nm):
        f = self.field_map.get(nm)
        if f is None:
            return
        key, b, path, ct = f
        if key is None:
            raise Unsupported("field `%s` of a fresh object may be used before it is written" % path)
        if self.bases.get(key) is not b and key not in self.bases:
            self.bases[key] = b
        self.bases[key].reads[path] = ct

    def snapshot(self):
        return (dict(self.vars), set(self.used_names), list(self.aux), self.nloops, self.ntmp, list(self.fuel),
                {k: (dict(b.reads), dict(b.writes), list(b.ignored)) for k, b in self.bases.items()}, dict(self.bases),
                set(self.k.requests), set(self.k.literals), list(self.k.notes), set(self.always), list(self.free_params))

    def restore(self, snap):
        self.vars, self.used_names, self.aux, self.nloops, self.ntmp, self.fuel = dict(snap[0]), set(snap[1]), list(snap[2]), snap[3], snap[4], list(snap[5])
        self.bases = dict(snap[7])
        for k, (r, w, ig) in snap[6].items():
            self.bases[k].reads, self.bases[k].writes, self.bases[k].ignored = dict(r), dict(w), list(ig)
        self.k.requests, self.k.literals, self.k.notes = set(snap[8]), set(snap[9]), list(snap[10])
        self.always, self.free_params = set(snap[11]), list(snap[12])

    # ---- loops ---------------------------------------------------------------------------------------------
    def loop(self, s, st):
        k = s.get("kind")
        for x in walk(s):
            if x.get("kind") in ("ReturnStmt", "BreakStmt", "ContinueStmt", "GotoStmt"):
                raise Unsupported("%s inside a loop" % x.get("kind"))
        pre = []
        if k == "DoStmt":
            body, c = inner(s)
            inc = None
        elif k == "WhileStmt":
            c, body = inner(s)[-2:]
            inc = None
        else:
            parts = s.get("inner", [])
            # ForStmt children: init, condition variable, condition, increment, body ({} for an absent one)
            if len(parts) != 5:
                raise Unsupported("for statement shape")
            init, cvar, c, inc, body = parts
            if cvar:
                raise Unsupported("for with a condition variable")
            if not c:
                raise Unsupported("for without a condition")
            if init:
                pre = self.decl_stmt(init, st) if init.get("kind") == "DeclStmt" else self.expr_stmt(init, st)
            inc = inc or None
        fuel = self.loop_fuel(s, k, c, inc)
        self.nloops += 1
        name = "%s_loop%d" % (self.lean_name, self.nloops)
        # dry run: which outer names the loop writes / reads
        mark = len(self.log)
        snap = self.snapshot()
        s1 = st.fork()
        s1.consts = {}          # conservative: every branch of the body is visited, every read is logged
        self.block(self.stmts_of(body), s1, lambda s2: [])
        if inc is not None:
            self.expr_stmt(inc, s1)
        self.st = s1
        self.cond(c)
        carried = self.written_in(mark)
        declared = {x[1] for x in self.log[mark:] if x[0] == "d"}
        cn = {w[0] for w in carried}
        ro, seen = [], set()
        for kind, nm, ct in self.log[mark:]:
            if kind == "r" and nm not in declared and nm not in cn and nm not in seen:
                seen.add(nm)
                ro.append((nm, ct))
        self.restore(snap)
        del self.log[mark:]
        if not carried:
            raise Unsupported("loop without effect")
        for nm, ct in carried:
            if nm not in st:
                if self.is_field_name(nm):
                    self.touch_field_input(nm)
                else:
                    raise Unsupported("`%s` is first assigned inside a loop" % nm)
        cnames = [w[0] for w in carried]
        res = self.tuple_text(cnames)
        rty = " × ".join(ct.lean() for _, ct in carried)
        rec = "%s fuel %s" % (name, " ".join(cnames + [r[0] for r in ro]))
        for nm in cnames:
            st.consts.pop(nm, None)
        s2 = st.fork()
        lines = []
        if k == "DoStmt":
            def tail(s3):
                self.st = s3
                cc = self.cond(c)
                return ["if %s then %s else %s" % (cc, rec, res)]
            lines = self.block(self.stmts_of(body), s2, tail)
        else:
            self.st = s2
            cc = self.cond(c)

            def tail(s3):
                out = self.expr_stmt(inc, s3) if inc is not None else []
                return out + [rec]
            b = self.block(self.stmts_of(body), s2, tail)
            lines = ["if %s then" % cc] + ["  " + x for x in b] + ["else", "  " + res]
        params = " ".join("(%s : %s)" % (nm, ct.lean()) for nm, ct in carried + ro)
        self.aux.append("/-- loop %d of `%s` (%s), fuel = iteration bound -/\ndef %s (fuel : Nat) %s : %s :=\n  match fuel with\n  | 0 => %s\n  | fuel + 1 =>\n%s"
                        % (self.nloops, self.cname, {"DoStmt": "do-while", "WhileStmt": "while", "ForStmt": "for"}[k], name, params, rty, res,
                           "\n".join("    " + x for x in lines)))
        call = "%s %d %s" % (name, fuel, " ".join(cnames + [r[0] for r in ro]))
        for nm, ct in carried + ro:
            self.log.append(("r", nm, ct))
        out = list(pre)
        if len(carried) == 1:
            out.append("let %s : %s := %s" % (cnames[0], rty, call))
        else:
            self.ntmp += 1
            r = "r_%d" % self.ntmp
            out.append("let %s : %s := %s" % (r, rty, call))
            for j, (nm, ct) in enumerate(carried):
                out.append("let %s : %s := %s" % (nm, ct.lean(), self.proj(r, j, len(carried))))
        for nm, ct in carried:
            st.add(nm)
            self.log.append(("w", nm, ct))
        return out

    def loop_fuel(self, s, k, c, inc):
        if self.fuel:
            return int(self.fuel.pop(0))
        # syntactic bound: `v < N` / `v <= N` / `v != N` with N constant and v stepped by ++ (for loops with `v = c0`)
        cn = strip_casts(c)
        if cn.get("kind") == "BinaryOperator" and cn.get("opcode") in ("<", "<=", "!="):
            a, b = inner(cn)
            try:
                self.st = St()
                bound = self.val(b)
            except Unsupported:
                bound = None
            if bound is not None and bound.const is not None and inc is not None and inc.get("kind") == "UnaryOperator" and inc.get("opcode") == "++":
                return bound.const + 2
        raise Unsupported("loop without a syntactic bound (give `fuel` in the kernel's spec)")

    # ---- whole function ------------------------------------------------------------------------------------
    @staticmethod
    def member_path(n):
        n = strip_casts(n)
        parts = []
        while n.get("kind") == "MemberExpr":
            parts.append(n["name"])
            if n.get("isArrow"):
                break
            n = strip_casts(inner(n)[0])
        return ".".join(reversed(parts))

    def target_path(self, n):
        """textual path of an assignment target: member path, or `[index]` for an array cell"""
        n = strip_casts(n)
        if n.get("kind") == "MemberExpr":
            return self.member_path(n)
        if n.get("kind") == "ArraySubscriptExpr":
            sym = self.symbolic_index(inner(n)[1])
            i = strip_casts(inner(n)[1])
            return "[%s]" % (sym if sym is not None else i.get("value", "?"))
        if n.get("kind") == "DeclRefExpr":
            return n["referencedDecl"].get("name", "")
        return ""

    def stmt_matches(self, s, a):
        k = s.get("kind")
        if "decl" in a:
            return k == "DeclStmt" and any(d.get("kind") == "VarDecl" and d.get("name") == a["decl"] for d in inner(s))
        if "assign" in a:
            if (k == "BinaryOperator" and s.get("opcode") == "=") or k == "CompoundAssignOperator" \
                    or (k == "UnaryOperator" and s.get("opcode") in ("++", "--")):
                return self.target_path(inner(s)[0]).endswith(a["assign"])
            return False
        if "if_reads" in a:
            return k == "IfStmt" and any(x.get("kind") == "MemberExpr" and self.member_path(x).endswith(a["if_reads"]) for x in walk(inner(s)[0]))
        if "if_array" in a:
            return k == "IfStmt" and any(x.get("kind") == "ArraySubscriptExpr" and strip_casts(inner(x)[0]).get("referencedDecl", {}).get("name") == a["if_array"]
                                         for x in walk(inner(s)[0]))
        if "if_var" in a:
            return k == "IfStmt" and any(x.get("kind") == "DeclRefExpr" and x.get("referencedDecl", {}).get("name") == a["if_var"] for x in walk(inner(s)[0]))
        raise Unsupported("fragment anchor %r" % (a,))

    def find_fragment(self, body, frag):
        if "call_arg" in frag:
            fname, argi = frag["call_arg"]
            n = frag.get("nth", 0)
            for c in walk(body):
                if c.get("kind") == "CallExpr":
                    callee = strip_casts(inner(c)[0])
                    if callee.get("kind") == "DeclRefExpr" and (callee["referencedDecl"].get("name") == fname or fname == "*") \
                            and len(inner(c)) > 1 + argi \
                            and ("reads" not in frag or any(x.get("kind") == "MemberExpr" and self.member_path(x).endswith(frag["reads"])
                                                            for x in walk(inner(c)[1 + argi]))):
                        if n == 0:
                            return [{"kind": "ReturnStmt", "inner": [inner(c)[1 + argi]]}]
                        n -= 1
            raise Unsupported("fragment: no call to `%s`" % fname)
        first = frag.get("first") or {"decl": frag["first_decl"]}
        last = frag.get("last") or {"assign": frag["last_assign"]}
        n = first.get("nth", 0)
        for c in walk(body):
            if c.get("kind") != "CompoundStmt":
                continue
            ss = inner(c)
            for i, s in enumerate(ss):
                if self.stmt_matches(s, first):
                    if n > 0:
                        n -= 1
                        continue
                    js = [j for j in range(i, len(ss)) if self.stmt_matches(ss[j], last)]
                    if js:
                        return ss[i:(js[-1] if last.get("nth") == -1 else js[0]) + 1]
                    raise Unsupported("fragment: no statement matching %r after %r" % (last, first))
        raise Unsupported("fragment: no statement matching %r" % (first,))

    def frag_results(self, st):
        """values of the fragment's named result locals (0 where not yet defined on this path)"""
        out = []
        for nm in (self.spec.get("fragment") or {}).get("results", ()):
            info = [v for v in self.vars.values() if v.get("kind") == "int" and v.get("cname") == nm]
            if info and info[0]["lean"] in st:
                out.append((info[0]["lean"], info[0]["ct"]))
            else:
                out.append(("0", info[0]["ct"] if info else CT("u", 64)))
        return out

    def translate(self):
        BV[0] = bool(self.spec.get("bitvec"))
        try:
            k = self.translate_()
            k.bitvec = BV[0]
            return k
        finally:
            BV[0] = False

    def translate_(self):
        fn = self.fn
        m = re.match(r"(.*?)\s*\(", fn["type"]["qualType"])
        rt = parse_type_str(m.group(1)) if m else None
        if rt is None or not (rt.isint() or rt.kind == "v"):
            raise Unsupported("return type `%s`" % fn["type"]["qualType"])
        body = [c for c in inner(fn) if c.get("kind") == "CompoundStmt"][0]
        pdecls = [c for c in inner(fn) if c.get("kind") == "ParmVarDecl"]
        frag = self.spec.get("fragment")
        frag_stmts = self.find_fragment(body, frag) if frag else None
        if frag:
            rt = CT("u", 32)
            pdecls = []
        out_keys, seed = [], {}
        for _ in range(4):
            self.__init__(self.fn, self.spec, self.registry, self.consts)
            self.k.ret = None if rt.kind == "v" else rt
            self.out_keys = out_keys
            self.bases = {}
            st = St()
            for i, p in enumerate(pdecls):
                ts = p["type"].get("desugaredQualType", p["type"]["qualType"])
                ct = parse_type_str(ts) or parse_type_str(p["type"]["qualType"])
                pname = p.get("name") or "arg%d" % i
                self.k.cargs.append((pname, ct, p["type"]["qualType"]))
                if ct is None:
                    raise Unsupported("parameter `%s` of type `%s`" % (pname, p["type"]["qualType"]))
                if ct.kind == "p":
                    base = PtrBase(pname, i, pointee_of(p["type"]["qualType"]))
                    self.bases[i] = base
                    self.vars[p["id"]] = {"kind": "ptr", "base": base}
                elif ct.isint():
                    nm = self.fresh(pname)
                    self.vars[p["id"]] = {"kind": "int", "lean": nm, "ct": ct}
                    st.add(nm)
                else:
                    raise Unsupported("parameter `%s` of type `%s`" % (pname, p["type"]["qualType"]))
            self.seed = seed          # output fields found in the previous round: (base key, path) -> CT
            self.st = st

            self.frag_plain = bool(frag and "call_arg" in frag)

            def end(st2):
                if frag:
                    vals = ["0"] + self.out_values(st2) + [x[0] for x in self.frag_results(st2)]
                    return ["(" + ", ".join(vals) + ")"] if len(vals) > 1 else ["0"]
                if self.k.ret is not None:
                    raise Unsupported("control reaches the end of a non-void function")
                vals = self.out_values(st2)
                if not vals:
                    raise Unsupported("void function without outputs")
                return [vals[0] if len(vals) == 1 else "(" + ", ".join(vals) + ")"]
            self.frag_end = end if frag else None
            lines = self.block(frag_stmts if frag else inner(body), st, end)
            found = {}
            for key, b in self.bases.items():
                for path, ct in b.writes.items():
                    found[(key, path)] = ct
            new_keys = sorted(found, key=lambda kp: (str(kp[0]), kp[1]))
            if new_keys == out_keys:
                break
            out_keys, seed = new_keys, found
        else:
            raise Unsupported("output fields do not stabilise")
        k = self.k
        k.ret_type_str = m.group(1)
        # parameters: C arguments in order, then the fields read through each pointer argument (alphabetical)
        for i, (pname, ct, ts) in enumerate(k.cargs):
            if ct.kind != "p":
                pid = pdecls[i]["id"]
                k.params.append(Param(self.vars[pid]["lean"], ct, ("arg", i)))
        k.params += self.free_params
        k.no_probe = bool(frag)
        for i in sorted((x for x in self.bases if not str(x).startswith("fresh:")), key=str):
            b = self.bases[i]
            k.ptrs[i] = b
            for path in sorted(b.reads):
                k.params.append(Param(b.lean(path), b.reads[path], ("field", i, path)))
        for key, path in out_keys:
            b = self.bases[key]
            k.outputs.append((b.lean(path), b.writes[path], key, path))
        k.fresh = {key: b for key, b in self.bases.items() if str(key).startswith("fresh:")}
        if frag:
            for nm in frag.get("results", ()):
                info = [v for v in self.vars.values() if v.get("kind") == "int" and v.get("cname") == nm]
                if not info:
                    raise Unsupported("fragment result `%s` is not a local of the fragment" % nm)
                k.outputs.append((info[0]["lean"], info[0]["ct"], "local", nm))
            if "call_arg" in frag:
                doc_frag = " — FRAGMENT: argument %d of call %d to `%s`" % (frag["call_arg"][1], frag.get("nth", 0), frag["call_arg"][0])
            else:
                doc_frag = " — FRAGMENT from %r to %r; first component: 0 = fell through, r + 1 = `return r`" % (
                    frag.get("first") or {"decl": frag["first_decl"]}, frag.get("last") or {"assign": frag["last_assign"]})
        sig = " ".join("(%s : %s)" % (p.lean, p.ct.lean()) for p in k.params)
        doc = "`%s` (%s)%s" % (self.cname, self.spec.get("src", "?"), doc_frag if frag else "")
        for b in self.bases.values():
            if b.ignored:
                doc += "; pointer stores not rendered: " + ", ".join("%s%s" % (b.name, "->" + p if not p.startswith("[") else p) for p in b.ignored)
        if k.outputs:
            doc += "; result = (" + ", ".join((["return value"] if k.ret is not None else []) + [o[0] for o in k.outputs]) + ")"
        k.defs = list(self.aux) + ["/-- %s -/\ndef %s %s: %s :=\n%s" % (doc, self.lean_name, sig + " " if sig else "", k.result_lean_type(), "\n".join("  " + x for x in lines))]
        return k


# --------------------------------------------------------------------------------------------------------------
# boundary grid, probe source, Lean output
# --------------------------------------------------------------------------------------------------------------

BASE_POINTS = [0, 1, 2, 3, 4, 5, 7, 8, 9, 11, 12, 15, 16, 17, 31, 32, 33, 40, 41, 63, 64, 65, 127, 128, 129, 255, 256, 257, 511, 512, 513,
               4095, 4096, 4097, 65535, 65536, 65537]


def grid_values(ct, literals, lo=None, hi=None):
    if ct.kind == "b":
        return [0, 1]
    w = ct.w
    tmin, tmax = (0, (1 << w) - 1) if ct.kind == "u" else (-(1 << (w - 1)), (1 << (w - 1)) - 1)
    lo = tmin if lo is None else max(lo, tmin)
    hi = tmax if hi is None else min(hi, tmax)
    if hi - lo < 300:
        return list(range(lo, hi + 1))
    vs = set(BASE_POINTS)
    for k in (20, 21, 24, 28, 30, 31, 32, 33, 34, 35, 40, 48, 56, 61, 62, 63):
        vs.update(((1 << k) - 1, 1 << k, (1 << k) + 1))
    for c in literals:
        vs.update((c - 2, c - 1, c, c + 1, c + 2))
    for d in range(5):
        vs.update((hi - d, lo + d))
    if ct.kind == "s":
        vs.update((-1, -2, -3, -128, -129))
    return sorted(v for v in vs if lo <= v <= hi)


def make_grid(k, spec):
    """Deterministic list of argument tuples (one value per Lean parameter) for kernel k."""
    rng = random.Random(int(hashlib.sha1(k.cname.encode()).hexdigest()[:8], 16))
    dom = spec.get("domain", {})
    cols = []
    for p in k.params:
        lo, hi = dom.get(p.lean, dom.get(p.lean.rstrip("_"), (None, None)))
        cols.append(grid_values(p.ct, k.literals, lo, hi))
    if not cols:
        return [()]
    total = 1
    for c in cols:
        total *= len(c)
    limit = spec.get("points", 64)
    if total <= max(limit, 300):
        pts = [()]
        for c in cols:
            pts = [p + (v,) for p in pts for v in c]
        return pts
    n = max(len(c) for c in cols)
    shuffled = []
    for c in cols:
        c2 = list(c)
        rng.shuffle(c2)
        shuffled.append(c2)
    pts = [tuple(c[0] for c in cols), tuple(c[-1] for c in cols)]
    for i in range(n):
        pts.append(tuple(c[i % len(c)] for c in shuffled))
    for i in range(n):          # a second, differently aligned pass so that boundary values of different parameters meet
        pts.append(tuple(c[(i * (j + 2) + j) % len(c)] for j, c in enumerate(shuffled)))
    seen, out = set(), []
    for p in pts:
        if p not in seen:
            seen.add(p)
            out.append(p)
    if len(out) > limit:
        keep = out[:2]
        rest = out[2:]
        rng.shuffle(rest)
        out = keep + rest[:limit - 2]
    return out


def c_lit(v):
    return "%dULL" % v if v >= 0 else "((unsigned long long)(%dLL))" % v


def path_c(obj, path):
    m = re.match(r"\[(\d+)\]$", path)
    return "%s[%s]" % (obj, m.group(1)) if m else "%s[0].%s" % (obj, path)


def probe_kernel_c(k, spec, pts, tag):
    """C function running kernel k on every grid point; prints `G\\t<tag>\\t<i>\\t<results...>`."""
    np_ = max(1, len(k.params))
    rows = ",\n".join("    {" + ", ".join(c_lit(v) for v in (p or (0,))) + "}" for p in pts)
    out = ["static void grid_%s(void) {" % tag,
           "  static const unsigned long long A[%d][%d] = {\n%s\n  };" % (len(pts), np_, rows),
           "  for (int gi = 0; gi < %d; ++gi) {" % len(pts)]
    lean_index = {id(p): j for j, p in enumerate(k.params)}
    args = []
    for i, (pname, ct, ts) in enumerate(k.cargs):
        if ct.kind == "p":
            b = k.ptrs.get(i)
            used = b is not None and (b.reads or b.writes or b.ignored)
            if not used:
                args.append("NULL")
                continue
            if b.pointee in ("void", ""):
                raise Unsupported("pointer parameter `%s` has no known pointee type for the probe" % pname)
            n = 1
            for path in list(b.reads) + list(b.writes) + list(b.ignored):
                m = re.match(r"\[(\d+)\]", path)
                if m:
                    n = max(n, int(m.group(1)) + 1)
            out.append("    %s obj_%d[%d]; memset(obj_%d, 0, sizeof obj_%d);" % (b.pointee, i, n, i, i))
            for p in k.params:
                if p.origin[0] == "field" and p.origin[1] == i:
                    out.append("    %s = A[gi][%d];" % (path_c("obj_%d" % i, p.origin[2]), lean_index[id(p)]))
            args.append("obj_%d" % i)
        else:
            j = [lean_index[id(p)] for p in k.params if p.origin == ("arg", i)][0]
            args.append("(%s)A[gi][%d]" % (strip_quals(ts), j))
    for p in k.params:
        if p.origin[0] == "field" and p.origin[1] == "glob":
            out.append("    %s = A[gi][%d];" % (p.origin[2], lean_index[id(p)]))
    call = "%s(%s)" % (k.cname, ", ".join(args))
    fmt, vals = [], []
    if k.ret is not None:
        out.append("    %s ret_ = %s;" % (k.ret_type_str, call))
        fmt.append("%lld" if k.ret.kind == "s" else "%llu")
        vals.append("(long long)ret_" if k.ret.kind == "s" else "(unsigned long long)ret_")
    else:
        out.append("    %s;" % call)
    for nm, ct, key, path in k.outputs:
        if isinstance(key, int):
            e = path_c("obj_%d" % key, path)
        elif key == "glob":
            e = path
        else:
            fe = spec.get("fresh_expr", {}).get(key.split(":", 1)[1])
            if fe is None:
                raise Unsupported("no probe access to the fresh object `%s` (spec `fresh_expr`)" % key)
            e = "((%s) ? %s : 0)" % (fe, "(%s)->%s" % (fe, path))
        fmt.append("%lld" if ct.kind == "s" else "%llu")
        vals.append("(long long)(%s)" % e if ct.kind == "s" else "(unsigned long long)(%s)" % e)
    out.append('    printf("G\\t%s\\t%%d\\t%s\\n", gi, %s);' % (tag, "\\t".join(fmt), ", ".join(vals)))
    for line in spec.get("probe_cleanup", []):
        out.append("    " + line)
    out += ["  }", "}"]
    return "\n".join(out)


def probe_source(include_path, items, requests):
    """items: [(tag, kernel, spec, pts)] of one unit. The probe prints constants (K), tables (T) and grid results (G)."""
    src = ['#include "%s"' % include_path, "#include <stdio.h>", "#include <string.h>", "#include <stdlib.h>", ""]
    body = []
    for tag, k, spec, pts in items:
        src.append(probe_kernel_c(k, spec, pts, tag))
        body.append("  grid_%s();" % tag)
    src.append("int main(void) {")
    for r in sorted(requests):
        kind, rest = r.split(":", 1)
        if kind == "sizeof":
            src.append('  printf("K\\t%s\\t%%llu\\n", (unsigned long long)sizeof(%s));' % (r, rest))
        elif kind == "enum":
            src.append('  printf("K\\t%s\\t%%lld\\n", (long long)(%s));' % (r, rest))
        elif kind == "table":
            name, et, ln = rest.rsplit(":", 2)
            src.append('  printf("T\\t%s"); for (int i = 0; i < %s; ++i) printf("\\t%%llu", (unsigned long long)%s[i]); printf("\\n");' % (r, ln, name))
    src += body + ["  return 0;", "}", ""]
    return "\n".join(src)


def parse_probe_output(text):
    consts, grids = {}, {}
    for line in text.split("\n"):
        t = line.split("\t")
        if t[0] == "K" and len(t) == 3:
            consts[t[1]] = int(t[2])
        elif t[0] == "T" and len(t) >= 2:
            consts[t[1]] = [int(x) for x in t[2:]]
        elif t[0] == "G" and len(t) >= 3:
            grids.setdefault(t[1], {})[int(t[2])] = [int(x) for x in t[3:]]
    return consts, grids


def lean_val(v, ct):
    if ct.kind == "b":
        return "true" if v else "false"
    return str(v) if v >= 0 else "(%d)" % v


def table_def(name, vals, doc):
    """a long table as `++` of chunks of at most 256 elements (list literals above ~1000 elements hit maxRecDepth)"""
    if len(vals) <= 256:
        return "/-- %s -/\ndef %s : List Nat := [%s]" % (doc, name, ", ".join(str(v) for v in vals))
    out, names = [], []
    for i in range(0, len(vals), 256):
        nm = "%s_%d" % (name, i // 256)
        names.append(nm)
        rows = [", ".join(str(v) for v in vals[j:j + 32]) for j in range(i, min(i + 256, len(vals)), 32)]
        out.append("def %s : List Nat := [\n  %s]" % (nm, ",\n  ".join(rows)))
    out.append("/-- %s, in chunks of 256 -/\ndef %s_chunks : List (List Nat) := [%s]" % (doc, name, ", ".join(names)))
    out.append("/-- `%s[i]` (0 beyond the end), looked up chunk by chunk so that kernel evaluation stays cheap -/\n"
               "def %s_at (i : Nat) : Nat := (%s_chunks.getD (i / 256) []).getD (i %% 256) 0" % (name, name, name))
    return "\n\n".join(out)
