"""C15 — BCJ and delta filters are exact inverses, size-preserving, slicing-independent, and fixed (reference algorithms)."""
import ctypes, json, os, struct
import vlib

META = {
    "category": "proof",
    "text": "Lean theorems over executable models of all eight BCJ filters, the delta filter and simple_coder.c's buffering: delta round trip + "
            "circular-history model = out[i]=in[i]-in[i-d]; per-word inverse and class preservation for ARM, ARM-Thumb, ARM64, PowerPC, SPARC, IA-64 "
            "lifted to whole buffers (decode(encode x)=x, length preserved, processed = size rounded down); chunk stability; x86 mask invariant / "
            "inner-loop termination / round trip; RISC-V round trip. Tie: every *_code function (the real static functions, reached by #including "
            "simple/*.c), the one-shot lzma_bcj_* API, simple_code() under arbitrary slicing with a NULL or pass-through next coder, and the delta "
            "loops are run on the same inputs as the model and must agree byte for byte (output, processed count, x86 prev_mask/prev_pos, "
            "per-call return code / consumed / produced). The repo's good-*.xz files with BCJ/delta filters are decoded by the code and by the model.",
    "note": "Trusted: Lean kernel (+ bv_decide's LRAT checker for the quantifier-free word lemmas in Lemmas/BitWordsBcj.lean), the harness, the C "
            "compiler. The model is the reference algorithm; a symmetric change of encoder and decoder is caught by the byte-exact correspondence. "
            "A system liblzma (if present) is a third opinion only, used to classify a disagreement.",
    "technique": "Lean 4 proof over an executable model + differential correspondence (byte-exact) + round-trip/slicing oracles on the implementation",
}

HARNESS = ["c15_codes.c", "c15_delta.c", "c15_main.c"]
TU = "src/liblzma/simple/x86.c"
FIDS = ["x86", "powerpc", "ia64", "arm", "armthumb", "sparc", "arm64", "riscv"]
ALIGN = {"x86": 1, "powerpc": 4, "ia64": 16, "arm": 4, "armthumb": 2, "sparc": 4, "arm64": 4, "riscv": 2}
WINDOW = {"x86": 5, "powerpc": 4, "ia64": 16, "arm": 4, "armthumb": 4, "sparc": 4, "arm64": 4, "riscv": 8}
FILTER_ID = {"x86": 4, "powerpc": 5, "ia64": 6, "arm": 7, "armthumb": 8, "sparc": 9, "arm64": 10, "riscv": 11}
ID_NAME = {v: k for k, v in FILTER_ID.items()}
DELTA_ID = 3
M32 = 0xFFFFFFFF


# ------------------------------------------------------------------------------------------------
# data generators: random, and instruction-dense synthetic code per architecture
# ------------------------------------------------------------------------------------------------

def rbytes(rng, n):
    return bytes(rng.getrandbits(8) for _ in range(n))


def le32(v):
    return struct.pack("<I", v & M32)


def be32(v):
    return struct.pack(">I", v & M32)


def dense_x86(rng, n):
    out = bytearray()
    mode = rng.randrange(3)
    while len(out) < n:
        r = rng.random()
        if mode == 2:       # only the bytes that matter to the mask logic
            out.append(rng.choice((0xE8, 0xE9, 0x00, 0xFF, 0xE8, rng.getrandbits(8))))
        elif r < 0.30:
            out += bytes([rng.choice((0xE8, 0xE9))]) + rbytes(rng, 3) + bytes([rng.choice((0, 0xFF))])
        elif r < 0.45:
            out.append(rng.choice((0xE8, 0xE9)))
        elif r < 0.65:
            out.append(rng.choice((0, 0xFF)))
        elif r < 0.78:      # realistic call with a small displacement
            out += bytes([0xE8]) + struct.pack("<i", rng.randrange(-70000, 70000))
        elif r < 0.84:      # operand whose converted value has 00/FF in the inspected byte
            out += bytes([0xE8, rng.choice((0, 0xFF, 1, 0xFE)), rng.choice((0, 0xFF)), rng.choice((0, 0xFF)), rng.choice((0, 0xFF))])
        else:
            out.append(rng.getrandbits(8))
    return bytes(out[:n])


def x86_loop2(rng, n, now_pos):
    """x86 code in which many convertible candidates sit 1..3 bytes after a rejected one (prev_mask 2/4/8) and the plain sum would put
    00/FF into the byte the rejected candidate looked at, so that the inner loop of x86_code takes its second iteration."""
    out = bytearray()
    filler = lambda: rng.choice((0x90, 0x11, 0x7E, 0x80, 0x01, 0xFE, rng.randrange(1, 0xE8)))
    while len(out) < n:
        out += bytes(filler() for _ in range(rng.randrange(0, 7)))
        k = rng.randrange(1, 4)
        r = len(out)                       # rejected candidate here, its byte 4 is at r + 4 = q + 4 - k
        q = r + k
        pc5 = (now_pos + q + 5) & M32
        for _ in range(20):
            dest = rng.getrandbits(24)
            sh = 8 * (3 - k)               # the inspected byte of the operand at q is operand byte 4-k, bits 8*(3-k)..
            dest = (dest & ~(0xFF << sh)) | (rng.choice((0, 0xFF)) << sh)
            src = (dest - pc5) & 0xFFFFFF
            insp = (src >> sh) & 0xFF
            if insp not in (0, 0xFF):
                break
        op = bytes([src & 0xFF, (src >> 8) & 0xFF, (src >> 16) & 0xFF, rng.choice((0, 0xFF))])
        seq = bytearray([0xE8]) + bytes(filler() for _ in range(k - 1)) + bytes([rng.choice((0xE8, 0xE9))]) + op
        # bytes r+1 .. r+4 are: fillers, the second opcode, and the first operand bytes; the rejected candidate's byte 4 is op[3-k],
        # non-MS by construction (insp), so it is rejected because of its byte 4 and records prev_mask bit only.
        out += seq
    return bytes(out[:n])


def dense_arm(rng, n):
    out = bytearray(rbytes(rng, rng.choice((0, 0, 1, 2, 3))))
    while len(out) < n:
        r = rng.random()
        if r < 0.5:
            out += rbytes(rng, 3) + b"\xEB"
        elif r < 0.6:
            out += bytes([rng.choice((0, 0xFF))] * 3) + b"\xEB"
        elif r < 0.7:
            out += b"\xEB" * rng.randrange(1, 6)
        else:
            out += rbytes(rng, 4)
    return bytes(out[:n])


def dense_armthumb(rng, n):
    out = bytearray(rbytes(rng, rng.choice((0, 0, 1, 2))))
    while len(out) < n:
        r = rng.random()
        if r < 0.45:
            out += bytes([rng.getrandbits(8), 0xF0 | rng.randrange(8), rng.getrandbits(8), 0xF8 | rng.randrange(8)])
        elif r < 0.6:       # overlapping class bytes
            out += bytes([rng.getrandbits(8), rng.choice((0xF0, 0xF7, 0xF8, 0xFF))])
        elif r < 0.7:
            out += bytes([rng.choice((0, 0xFF)), 0xF0 | rng.randrange(8), rng.choice((0, 0xFF)), 0xF8 | rng.randrange(8)])
        else:
            out += rbytes(rng, 2)
    return bytes(out[:n])


def dense_arm64(rng, n):
    out = bytearray(rbytes(rng, rng.choice((0, 0, 0, 1, 2, 3))))
    while len(out) < n:
        r = rng.random()
        if r < 0.3:
            imm = rng.choice((rng.getrandbits(26), rng.randrange(64), (-rng.randrange(1, 64)) & 0x3FFFFFF, 0x2000000, 0x1FFFFFF))
            out += le32(0x94000000 | imm)
        elif r < 0.75:
            src = rng.choice((0x1FFFF, 0x20000, 0x1E0000, 0x1DFFFF, 0, 0x1FFFFF, rng.getrandbits(21), rng.getrandbits(17),
                              0x1E0000 | rng.getrandbits(17), rng.getrandbits(21)))
            out += le32(0x90000000 | ((src & 3) << 29) | (((src >> 2) & 0x7FFFF) << 5) | rng.randrange(32))
        elif r < 0.8:       # near misses of the opcode tests
            out += le32(rng.choice((0x90000000, 0x94000000, 0x10000000, 0x96000000, 0xB0000000, 0x91000000)) ^ (rng.getrandbits(24)))
        else:
            out += rbytes(rng, 4)
    return bytes(out[:n])


def dense_powerpc(rng, n):
    out = bytearray(rbytes(rng, rng.choice((0, 0, 0, 1, 2, 3))))
    while len(out) < n:
        r = rng.random()
        if r < 0.5:
            out += bytes([0x48 | rng.randrange(4), rng.getrandbits(8), rng.getrandbits(8), (rng.getrandbits(8) & 0xFC) | 1])
        elif r < 0.6:
            out += bytes([0x48 | rng.randrange(4), rng.choice((0, 0xFF)), rng.choice((0, 0xFF)), rng.choice((1, 0xFD))])
        elif r < 0.75:      # near misses
            out += bytes([rng.choice((0x48, 0x4C, 0x44, 0x4B)), rng.getrandbits(8), rng.getrandbits(8), rng.getrandbits(8)])
        else:
            out += rbytes(rng, 4)
    return bytes(out[:n])


def dense_sparc(rng, n):
    out = bytearray(rbytes(rng, rng.choice((0, 0, 0, 1, 2, 3))))
    while len(out) < n:
        r = rng.random()
        if r < 0.3:
            out += bytes([0x40, rng.getrandbits(8) & 0x3F]) + rbytes(rng, 2)
        elif r < 0.6:
            out += bytes([0x7F, 0xC0 | rng.getrandbits(6)]) + rbytes(rng, 2)
        elif r < 0.75:      # near misses: wrong sign bits
            out += bytes([rng.choice((0x40, 0x7F)), rng.getrandbits(8)]) + rbytes(rng, 2)
        elif r < 0.8:
            out += bytes([rng.choice((0x40, 0x7F)), rng.choice((0, 0x3F, 0xC0, 0xFF)), rng.choice((0, 0xFF)), rng.choice((0, 0xFF))])
        else:
            out += rbytes(rng, 4)
    return bytes(out[:n])


def dense_ia64(rng, n):
    out = bytearray(rbytes(rng, rng.choice((0, 0, 0, 0, 1, 8, 15))))
    while len(out) < n:
        if rng.random() < 0.15:
            out += rbytes(rng, 16)
            continue
        v = rng.randrange(32) if rng.random() < 0.3 else rng.randrange(16, 32)
        for slot in range(3):
            s = rng.getrandbits(41)
            if rng.random() < 0.7:
                s = (s & ~(0xF << 37)) | (5 << 37)
            if rng.random() < 0.75:
                s &= ~(7 << 9)
            if rng.random() < 0.2:      # extreme immediates
                imm = rng.choice((0, 0xFFFFF, 1, 0x80000))
                s = (s & ~((0xFFFFF << 13) | (1 << 36))) | (imm << 13) | (rng.randrange(2) << 36)
            v |= s << (5 + 41 * slot)
        out += v.to_bytes(16, "little")
    return bytes(out[:n])


def dense_riscv(rng, n):
    out = bytearray(rbytes(rng, rng.choice((0, 0, 0, 1, 2))))
    while len(out) < n:
        r = rng.random()
        if r < 0.2:         # JAL
            rd = rng.choice((1, 5, 1, 5, 0, 3, 7, rng.randrange(32)))
            imm = rng.choice((rng.getrandbits(20), 0, 0xFFFFF, rng.getrandbits(8)))
            out += le32((imm << 12) | (rd << 7) | 0x6F)
        elif r < 0.5:       # AUIPC + inst2
            rd = rng.choice((rng.randrange(32), rng.randrange(1, 32), 0, 2, 1, 10))
            rs1 = rd if rng.random() < 0.8 else rng.randrange(32)
            op = rng.choice((0x67, 0x13, 0x03, 0x23, 0x17, 0x03, rng.getrandbits(7) | 3, rng.getrandbits(7)))
            imm12 = rng.choice((rng.getrandbits(12), 0x800, 0x7FF, 0xFFF, 0))
            imm20 = rng.choice((rng.getrandbits(20), 0, 0xFFFFF, 0x80000, 0x7FFFF))
            out += le32((imm20 << 12) | (rd << 7) | 0x17)
            out += le32((imm12 << 20) | (rs1 << 15) | (rng.randrange(8) << 12) | (rng.randrange(32) << 7) | op)
        elif r < 0.68:      # special form: AUIPC rd=x2 carrying the low 20 bits of inst2, then an address
            rs1 = rng.choice((rng.randrange(32), rng.randrange(3, 32), 0, 2, 1))
            low20 = (rs1 << 15) | (rng.getrandbits(13) << 2) | rng.choice((3, 3, 3, 1, 0))
            rd = rng.choice((2, 2, 2, 0))
            out += le32((low20 << 12) | (rd << 7) | 0x17) + rbytes(rng, 4)
        elif r < 0.78:      # 16-bit instruction
            out += struct.pack("<H", (rng.getrandbits(16) & ~3) | rng.randrange(3))
        elif r < 0.86:      # AUIPC followed by AUIPC (false pairs)
            rd = rng.randrange(1, 32)
            out += le32((rng.getrandbits(20) << 12) | (rd << 7) | 0x17)
            out += le32((rng.getrandbits(12) << 20) | (rd << 15) | (rng.getrandbits(3) << 12) | (rng.randrange(32) << 7) | 0x17)
        else:
            out += rbytes(rng, rng.choice((2, 4)))
    return bytes(out[:n])


DENSE = {"x86": dense_x86, "powerpc": dense_powerpc, "ia64": dense_ia64, "arm": dense_arm, "armthumb": dense_armthumb,
         "sparc": dense_sparc, "arm64": dense_arm64, "riscv": dense_riscv}


def gen_data(rng, fid, n, kind=None, pos=0):
    kind = kind or rng.choice(("dense", "dense", "dense", "rand", "edge") + (("loop2", "loop2") if fid == "x86" else ()))
    if kind == "loop2":
        return x86_loop2(rng, n, pos), kind
    if kind == "dense":
        return DENSE[fid](rng, n), kind
    if kind == "edge":
        return bytes(rng.choice((0, 0xFF, 0xE8, 0xEB, 0xEF, 0x17, 0x48, 0x40, 0x7F, 0xF0, 0xF8, 0x94, 0x90, 0x10 + rng.randrange(16)))
                     for _ in range(n)), kind
    return rbytes(rng, n), kind


def gen_offset(rng, fid, aligned=True):
    a = ALIGN[fid]
    r = rng.random()
    if r < 0.25:
        v = 0
    elif r < 0.45:
        v = a * rng.randrange(1, 300)
    elif r < 0.65:
        v = (1 << 32) - a * rng.randrange(1, 40)         # wraps inside the buffer
    elif r < 0.75:
        v = (1 << 31) + a * rng.randrange(-20, 20)
    elif r < 0.85:
        v = rng.choice((0xFFFFF000, 0x00001000, 0x7FFFF000, 0x08000000, 0xF8000000, 0x20000000, 0xE0000000))
    else:
        v = rng.getrandbits(32)
    v &= M32
    v -= v % a
    if not aligned and a > 1:
        v = (v + rng.randrange(1, a)) & M32
    return v


def gen_size(rng, fid, quick):
    w = WINDOW[fid]
    r = rng.random()
    if r < 0.25:
        return rng.randrange(0, 3 * w + 2)
    if r < 0.75:
        return rng.randrange(3 * w, 160)
    if r < 0.97:
        return rng.randrange(160, 700)
    return rng.randrange(700, 3000 if quick else 12000)


def gen_slices(rng, n, wellformed=True):
    """A slicing `in:out:act,...`. Well-formed = LZMA_RUN only (the harness/driver then drain with LZMA_FINISH)."""
    style = rng.randrange(7)
    sl = []
    if style == 0:
        return "-"                                  # everything in the draining calls (4096-byte output pieces)
    if style == 1:
        sl = [(1, 1, 0)] * min(2 * n + 4, 400)      # byte at a time
    elif style == 2:
        sl = [(rng.randrange(0, 4), 1000, 0) for _ in range(min(n, 300))]     # tiny input, large output
    elif style == 3:
        sl = [(1000, rng.randrange(0, 4), 0) for _ in range(min(n, 300))]     # large input, tiny output
    elif style == 4:
        sl = [(rng.randrange(0, 40), rng.randrange(0, 40), 0) for _ in range(rng.randrange(1, 60))]
    elif style == 5:
        sl = [(rng.choice((0, 1, 5, 16, 17, 100)), rng.choice((0, 1, 4, 5, 6, 16, 31, 33, 100)), 0) for _ in range(rng.randrange(1, 40))]
    else:
        sl = [(n + 10, n + 10, 3)]                  # one call with LZMA_FINISH
    if not wellformed:
        k = rng.randrange(len(sl) + 1)
        sl.insert(k, (rng.randrange(0, 30), rng.randrange(0, 30), rng.choice((3, 3, 1, 2))))
    return ",".join("%d:%d:%d" % s for s in sl)


def gen_lens(rng, n):
    k = rng.randrange(0, 12)
    if k == 0:
        return "-"
    return ",".join(str(rng.choice((0, 1, 2, 3, 4, 5, 6, 7, 8, 9, 12, 16, 17, 31, 33, 64, 200, rng.randrange(1, n + 2)))) for _ in range(k))


def gen_cases(ctx):
    """Returns (both, conly, monly): op lines answered by model and implementation, for the implementation only (property
    oracles), and for the model only (branch statistics of the generated buffers, for the evidence)."""
    rng, quick = ctx.rng, ctx.quick()
    both, conly, monly = [], [], []
    scale = 3 if quick else 40

    for fid in FIDS:
        for _ in range(110 * scale):                 # single calls of *_code
            enc = rng.randrange(2)
            n = gen_size(rng, fid, quick)
            np_ = gen_offset(rng, fid, aligned=rng.random() < 0.85)
            data, kind = gen_data(rng, fid, n, pos=np_)
            pp = (np_ - rng.choice((5, 5, 1, 2, 3, 4, 6, 7, 0, rng.getrandbits(32)))) & M32 if fid == "x86" else 0
            both.append("code %s %d %d 0 %d %s" % (fid, enc, np_, pp, vlib.hexs(data)))
            monly.append("cov %s %d %s" % (fid, np_, vlib.hexs(data)))
            ctx.count("code/%s/%s" % (fid, kind))
        for _ in range(45 * scale):                  # consecutive calls with carried state and now_pos
            enc = rng.randrange(2)
            n = gen_size(rng, fid, quick)
            off = gen_offset(rng, fid)
            data, kind = gen_data(rng, fid, n, pos=off)
            both.append("codeseq %s %d %d %s %s" % (fid, enc, off, vlib.hexs(data), gen_lens(rng, n)))
            monly.append("cov %s %d %s" % (fid, off, vlib.hexs(data)))
            ctx.count("codeseq/%s" % fid)
        for _ in range(25 * scale):                  # one-shot API ("none" for the filters that have no such function)
            enc = rng.randrange(2)
            n = gen_size(rng, fid, quick)
            data, kind = gen_data(rng, fid, n)
            both.append("oneshot %s %d %d %s" % (fid, enc, gen_offset(rng, fid, aligned=rng.random() < 0.6), vlib.hexs(data)))
            ctx.count("oneshot/%s" % fid)
        for _ in range(70 * scale):                  # simple_code() under slicing
            enc = rng.randrange(2)
            n = gen_size(rng, fid, quick)
            wf = rng.random() < 0.85
            off = gen_offset(rng, fid, aligned=rng.random() < 0.93)
            data, kind = gen_data(rng, fid, n, pos=off)
            both.append("stream %s %d %d %d %s %s" % (fid, enc, rng.randrange(2), off, vlib.hexs(data), gen_slices(rng, n, wf)))
            ctx.count("stream/%s/%s" % (fid, "wellformed" if wf else "early-finish-or-flush"))
        for _ in range(40 * scale):                  # the property on the implementation: round trip + slicing independence
            n = gen_size(rng, fid, quick)
            off = gen_offset(rng, fid)
            data, kind = gen_data(rng, fid, n, pos=off)
            conly.append("rt %s %d %d %d %s" % (fid, rng.randrange(2), off, rng.getrandbits(40), vlib.hexs(data)))
            ctx.count("rt/%s" % fid)
        # candidates straddling every call boundary: a dense buffer cut at every position
        n = 6 * WINDOW[fid] + 3
        for rep in range(2 if quick else 12):
            off = gen_offset(rng, fid)
            data, _ = gen_data(rng, fid, n, "loop2" if fid == "x86" and rep % 2 else "dense", pos=off)
            monly.append("cov %s %d %s" % (fid, off, vlib.hexs(data)))
            for cut in range(n + 1):
                both.append("codeseq %s %d %d %s %d,%d" % (fid, rep & 1, off, vlib.hexs(data), cut, n))
                both.append("stream %s %d 1 %d %s %d:%d:0" % (fid, rep & 1, off, vlib.hexs(data), cut, n))
                ctx.count("cut-sweep/%s" % fid)

    # delta: every distance
    def ddata(n):
        k = rng.randrange(4)
        if k == 0:
            return rbytes(rng, n)
        if k == 1:
            return bytes((i * rng.randrange(1, 9)) & 0xFF for i in range(n))
        if k == 2:
            return bytes([rng.getrandbits(8)]) * n
        return bytes(rng.choice((0, 0xFF, 0x80, 1)) for _ in range(n))

    for dist in range(1, 257):
        for rep in range(2 if quick else 12):
            n = rng.choice((dist - 1, dist, dist + 1, 2 * dist, 2 * dist + 1, 255, 256, 257, 300, 513, 600, rng.randrange(0, 800)))
            enc = rng.randrange(2)
            data = ddata(n)
            both.append("delta %d %d %s %s" % (enc, dist, vlib.hexs(data), gen_lens(rng, n)))
            both.append("dstream %d %d %d %s %s" % (enc, 1 if not enc else rng.randrange(2), dist, vlib.hexs(ddata(n)), gen_slices(rng, n, rng.random() < 0.9)))
            conly.append("drt %d %d %d %s" % (rng.randrange(2), dist, rng.getrandbits(40), vlib.hexs(ddata(n))))
            ctx.count("delta/dist-%s" % ("1-16" if dist <= 16 else "17-255" if dist < 256 else "256"))
    for dist in (0, 257, 1000):                     # rejected distances
        both.append("dstream 1 0 %d 0102 -" % dist)
        both.append("dstream 0 1 %d 0102 -" % dist)
        ctx.count("delta/invalid-dist")
    for _ in range(2 * scale):                       # long inputs: many wraps of the 256-byte history
        both.append("deltax %d %d %s" % (rng.randrange(2), rng.choice((1, 2, 3, 4, 255, 256, rng.randrange(1, 257))), vlib.hexs(ddata(rng.randrange(3000, 9000)))))
        ctx.count("delta/long")
    return both, conly, monly


# ------------------------------------------------------------------------------------------------
# third opinion: the system's released liblzma (if any), through ctypes; raw chain {filter, LZMA2}
# ------------------------------------------------------------------------------------------------

class _Filter(ctypes.Structure):
    _fields_ = [("id", ctypes.c_uint64), ("options", ctypes.c_void_p)]


class SysLzma:
    def __init__(self):
        self.lib = None
        for name in ("liblzma.so.5", "liblzma.so"):
            try:
                self.lib = ctypes.CDLL(name)
                break
            except OSError:
                pass
        if self.lib is None:
            return
        self.lib.lzma_version_string.restype = ctypes.c_char_p
        self.version = self.lib.lzma_version_string().decode()
        self.lzma2 = ctypes.create_string_buffer(1024)
        self.lib.lzma_lzma_preset(self.lzma2, 0)
        self.lib.lzma_filter_encoder_is_supported.restype = ctypes.c_ubyte
        self.lib.lzma_filter_encoder_is_supported.argtypes = [ctypes.c_uint64]

    def supported(self, fid_num):
        return self.lib is not None and bool(self.lib.lzma_filter_encoder_is_supported(fid_num))

    def _chain(self, fid_num, param):
        fl = (_Filter * 3)()
        n = 0
        keep = None
        if fid_num is not None:
            if fid_num == DELTA_ID:
                keep = (ctypes.c_uint32 * 2)(0, param)       # lzma_options_delta { type, dist }
                buf = ctypes.create_string_buffer(64)
                ctypes.memmove(buf, keep, 8)
                keep = buf
            else:
                keep = (ctypes.c_uint32 * 1)(param)
            fl[0].id, fl[0].options = fid_num, ctypes.cast(keep, ctypes.c_void_p)
            n = 1
        fl[n].id, fl[n].options = 0x21, ctypes.cast(self.lzma2, ctypes.c_void_p)
        fl[n + 1].id, fl[n + 1].options = (1 << 64) - 1, None
        return fl, keep

    def _enc(self, fl, data):
        cap = len(data) * 2 + 4096
        out = ctypes.create_string_buffer(cap)
        op = ctypes.c_size_t(0)
        r = self.lib.lzma_raw_buffer_encode(fl, None, data, ctypes.c_size_t(len(data)), out, ctypes.byref(op), ctypes.c_size_t(cap))
        return out.raw[:op.value] if r == 0 else None

    def _dec(self, fl, data, n):
        out = ctypes.create_string_buffer(n + 16)
        ip, op = ctypes.c_size_t(0), ctypes.c_size_t(0)
        r = self.lib.lzma_raw_buffer_decode(fl, None, data, ctypes.byref(ip), ctypes.c_size_t(len(data)), out, ctypes.byref(op), ctypes.c_size_t(n + 16))
        return out.raw[:op.value] if r == 0 else None

    def apply(self, fid_num, param, enc, data):
        """Filter `data` as a whole stream (encoder or decoder direction) with the system library; None if unsupported."""
        if not self.supported(fid_num) or len(data) == 0:
            return None
        plain, k1 = self._chain(None, 0)
        filt, k2 = self._chain(fid_num, param)
        if enc:
            c = self._enc(filt, data)
            return None if c is None else self._dec(plain, c, len(data))
        c = self._enc(plain, data)
        return None if c is None else self._dec(filt, c, len(data))


def wellformed(slices, n):
    """LZMA_RUN slices only (the drain supplies LZMA_FINISH), or one finishing call that offers all the input."""
    if slices == "-":
        return True
    sl = [tuple(int(x) for x in s.split(":")) for s in slices.split(",")]
    return all(a == 0 for _, _, a in sl) or (len(sl) == 1 and sl[0][2] == 3 and sl[0][0] >= n)


def third_opinion(sysl, line):
    """Expected whole-stream output of a well-formed op according to the system liblzma, or None when it cannot say."""
    t = line.split()
    hx = lambda s: b"" if s == "-" else bytes.fromhex(s)
    try:
        if t[0] == "stream":
            off, data = int(t[4]), hx(t[5])
            if off % ALIGN[t[1]] or not wellformed(t[6], len(data)):
                return None
            return sysl.apply(FILTER_ID[t[1]], off, t[2] == "1", data)
        if t[0] == "dstream":
            data = hx(t[4])
            if not wellformed(t[5], len(data)) or not 1 <= int(t[3]) <= 256:
                return None
            return sysl.apply(DELTA_ID, int(t[3]), t[1] == "1", data)
        if t[0] in ("delta", "deltax"):
            return sysl.apply(DELTA_ID, int(t[2]), t[1] == "1", hx(t[3]))
    except Exception:
        return None
    return None


def impl_whole(line, res):
    """Whole-stream output of the implementation for an op the third opinion can judge (None if the stream did not end)."""
    if line.startswith(("stream", "dstream")):
        o, ended = stream_out(res)
        return o if ended else None
    if line.startswith(("delta ", "deltax")):
        return b"" if res == "-" else bytes.fromhex(res)
    return None


def stream_out(res):
    """The concatenated output of a stream/dstream result line, and whether the stream reached LZMA_STREAM_END."""
    parts = dict(p.split("=", 1) for p in res.split() if "=" in p)
    if "out" not in parts:
        return None, False
    calls = parts.get("calls", "")
    ended = calls.split(",")[-1].startswith("1:") if calls else False
    o = parts["out"]
    return (b"" if o == "-" else bytes.fromhex(o)), ended


# ------------------------------------------------------------------------------------------------
# golden files of the repository
# ------------------------------------------------------------------------------------------------

GOLDEN = ["good-1-arm64-lzma2-1.xz", "good-1-arm64-lzma2-2.xz", "good-1-delta-lzma2.tiff.xz", "good-1-3delta-lzma2.xz",
          "good-1-empty-bcj-lzma2.xz"]


def arm64_testfile():
    """The known plaintext of good-1-arm64-lzma2-*.xz: output of the repository's debug/testfilegen-arm64.c."""
    src = os.path.join(vlib.REPO, "debug", "testfilegen-arm64.c")
    exe = os.path.join(vlib.CACHE, "gen", "testfilegen-arm64")
    os.makedirs(os.path.dirname(exe), exist_ok=True)
    if not os.path.exists(src):
        return None
    import subprocess
    if subprocess.run(["cc", "-O1", "-w", src, "-o", exe]).returncode != 0:
        return None
    return subprocess.run([exe], stdout=subprocess.PIPE).stdout


def golden_check(ctx, exe, mexe):
    """Decode the repo's good files that use BCJ/delta: the code must accept them (integrity check over the plaintext verified),
    the plaintext must be the known one where it is known, and the model's decoder applied to the LZMA2-decoded bytes must give
    the same plaintext; the code's and the model's encoders applied to the plaintext must reproduce the stored filtered bytes."""
    n_ok = 0
    plain_arm64 = arm64_testfile()
    for name in GOLDEN:
        p = os.path.join(vlib.REPO, "tests", "files", name)
        if not os.path.exists(p):
            ctx.count("golden/missing")
            continue
        data = open(p, "rb").read()
        rc, out, err = vlib.run_lines([exe], ["xzfile " + data.hex()])
        if rc != 0 or len(out) != 1 or len(out[0].split()) != 4:
            ctx.violation("golden-abort", {"kind": "harness failed on a good file", "file": name, "stderr": err, "out": str(out)[:500]}, True)
            continue
        rfull, flt, F, P = out[0].split()
        F = b"" if F == "-" else bytes.fromhex(F)
        P = b"" if P == "-" else bytes.fromhex(P)
        replay = {"kind": "golden file", "file": name, "op": "xzfile <hex of tests/files/%s>" % name}
        if rfull != "0":
            ctx.violation("golden-decode", dict(replay, detail="lzma_stream_buffer_decode returned %s (integrity check of the plaintext failed or data error)" % rfull), True)
            continue
        if "arm64" in name and plain_arm64 is not None and P != plain_arm64:
            ctx.violation("golden-plaintext", dict(replay, detail="decoded bytes differ from debug/testfilegen-arm64 output"), True)
            continue
        chain = [] if flt == "-" else [tuple(int(x) for x in f.split(":")) for f in flt.split(",")]
        ctx.count("golden/" + name)
        ctx.case("golden " + name, nontrivial=len(P) > 0, sample={"file": name, "filters": flt, "size": len(P)})
        # code's encoder and model on the chain
        for who, prog in (("impl", exe), ("model", mexe)):
            if prog is None:
                continue
            # decode: last filter first
            cur = F
            bad = None
            for fidn, param in reversed(chain):
                cur = apply_prog(prog, fidn, param, False, cur)
                if cur is None:
                    bad = "could not run"
                    break
            if bad is None and cur != P:
                bad = "decoding the stored filtered bytes does not give the file's plaintext"
            if bad is None:
                cur = P
                for fidn, param in chain:
                    cur = apply_prog(prog, fidn, param, True, cur)
                    if cur is None:
                        bad = "could not run"
                        break
                if bad is None and cur != F:
                    bad = "encoding the plaintext does not reproduce the bytes stored in the file"
            if bad:
                if who == "impl":
                    ctx.violation("golden-" + who, dict(replay, detail=bad), True)
                else:
                    ctx.obligation_broken("golden file %s: model: %s" % (name, bad), "")
            else:
                n_ok += 1
    return n_ok


def apply_prog(prog, fidn, param, enc, data):
    if len(data) == 0:
        return b""
    if fidn == DELTA_ID:
        line = "deltax %d %d %s" % (enc, param, data.hex())
        rc, out, err = vlib.run_lines([prog], [line])
        if rc != 0 or len(out) != 1:
            return None
        return b"" if out[0] == "-" else bytes.fromhex(out[0])
    line = "stream %s %d 1 %d %s %d:%d:3" % (ID_NAME[fidn], enc, param, data.hex(), len(data), len(data))
    rc, out, err = vlib.run_lines([prog], [line])
    if rc != 0 or len(out) != 1:
        return None
    o, ended = stream_out(out[0])
    return o if ended else None


# ------------------------------------------------------------------------------------------------
# the check
# ------------------------------------------------------------------------------------------------

def run_all(exe, lines, timeout=300):
    """Run op lines in parallel chunks; returns (outputs or None, (failing line, stderr) or None).
    A chunk that aborts or does not finish within `timeout` seconds is re-run line by line (20 s each) to find the op."""
    if not lines:
        return [], None
    parts = vlib.chunks(lines, vlib.NCPU * 2)
    res = vlib.par_map(lambda ls: vlib.run_lines([exe], ls, timeout=timeout), parts)
    outs = []
    for (rc, out, err), ls in zip(res, parts):
        if rc != 0 or len(out) != len(ls):
            start = max(0, len(out) - 1) if rc == 124 else 0      # after a timeout the culprit is the first unanswered op
            for ln in ls[start:] + ls[:start]:
                rc1, o1, e1 = vlib.run_lines([exe], [ln], timeout=20)
                if rc1 != 0 or len(o1) != 1:
                    return None, (ln, e1 if rc1 != 124 else "[no answer within 20 s: the implementation does not terminate on this input]")
            return None, (ls[0], "chunk failed but no single line does: " + err)
        outs += out
    return outs, None


def changed(line, res):
    """Did the filter convert anything (output differs from input)? Used for the non-triviality count."""
    t = line.split()
    try:
        if t[0] == "code":
            return res.split()[3] != t[6]
        if t[0] == "codeseq":
            return res.split()[1] != t[4]
        if t[0] == "oneshot":
            return res != "none" and res.split()[1] != t[4]
        if t[0] == "stream":
            return ("out=" + t[5]) not in res
        if t[0] in ("delta", "deltax"):
            return res != t[3]
        if t[0] == "dstream":
            return ("out=" + t[4]) not in res
    except Exception:
        pass
    return True


def gen_stage():
    """Stage G: compile and run harness/gen_c15.c against the tree (linked with the #include-ing harness files), write Gen/C15.lean."""
    okg, log, gexe = vlib.harness_build("c15gen", ["c15_codes.c", "c15_delta.c", "gen_c15.c"], tu=TU)
    if not okg:
        return False, "probe does not compile:\n" + log
    rc, out = vlib.sh([gexe], timeout=120, env={"ASAN_OPTIONS": "detect_leaks=0"})
    if rc != 0 or "end XzVerif.Gen.C15" not in out:
        return False, "probe failed (rc %d):\n%s" % (rc, out[-3000:])
    vlib.write_if_changed(vlib.module_path("XzVerif.Gen.C15"), out)
    return True, ""


def run(ctx):
    ctx.cov["rule"] = ("op lines from the seeded PRNG: per filter, random / edge-byte / instruction-dense synthetic buffers (every opcode class, near "
                       "misses, extreme immediates, unaligned prefixes), start offsets incl. 0, small, near 2^32 (wrapping inside the buffer), 2^31, "
                       "unaligned; single *_code calls, consecutive calls with carried state cut at arbitrary and at every position, one-shot API, "
                       "simple_code under 7 slicing styles (byte-at-a-time, tiny in, tiny out, random, single FINISH call, early FINISH / flush "
                       "actions), delta distances 1..256 with sizes around the distance and the 256-byte history; non-trivial = the filter changed "
                       "at least one byte; distinct by full op line")
    ctx.assumptions += [
        "Lean 4 kernel; bv_decide (LRAT-checked SAT certificates) for the quantifier-free 32/64/128-bit word lemmas in Lemmas/BitWordsBcj.lean",
        "the models in Model/Bcj*.lean, Model/Delta.lean, Model/Simple.lean are transcriptions of the reference algorithms; the correspondence pins the C code to them",
        "the C compiler; the harness feeds the same bytes to the C functions and to the model driver; the pass-through next coder of the harness",
        "x86: single *_code calls are started with prev_mask = 0 (any prev_pos); other prev_mask values are reached through carried state only",
    ]
    # B (library first: the Gen probe runs the real code)
    okb, log, _ = vlib.c_build("asan", targets=["liblzma"])
    if not okb:
        ctx.obligation_broken("stage B: /repo does not build", log)
        return "proof"
    # G: regenerate lean/XzVerif/Gen/C15.lean by running the tree's code (filter parameters, IA-64 slot masks, x86 mask tables, word grids)
    g_ok, glog = gen_stage()
    if not g_ok:
        ctx.obligation_broken("stage G: Gen/C15.lean cannot be regenerated (harness/gen_c15.c against simple/*.c, delta/*.c)", glog)
    # P
    p_ok = ctx.lean_stage(["XzVerif.Props.C15"], exes=["xzm_c15"], bv_decide_ok=("XzVerif.Lemmas.BitWords",)) if g_ok else False
    okh, log, exe = vlib.harness_build("c15", HARNESS, tu=TU)
    if not okh:
        ctx.obligation_broken("stage B: C15 harness does not compile against the tree (simple/*.c, delta/*.c are #included)", log)
        return "proof"
    mexe = vlib.model_exe("xzm_c15")
    model_ok = os.path.exists(mexe) and (p_ok or vlib.lake(["build", "xzm_c15"])[0] == 0)
    if not model_ok:
        mexe = None
    # K
    both, conly, monly = gen_cases(ctx)
    c_out, fail = run_all(exe, both + conly, timeout=240 if ctx.quick() else 900)
    if fail is not None:
        ctx.violation("harness-abort", {"kind": "implementation aborted (sanitizer/assert/crash/hang)", "op": fail[0], "stderr": fail[1]}, True)
        return "proof"
    m_out = None
    if mexe:
        m_out, mfail = run_all(mexe, both, timeout=240 if ctx.quick() else 900)
        if mfail is not None:
            ctx.obligation_broken("model driver xzm_c15 failed on an op", json.dumps({"op": mfail[0][:400], "stderr": mfail[1][-500:]}))
            m_out = None
    if mexe and m_out is not None:
        # branch statistics of the generated buffers (how often each decision of the filters was exercised)
        cov_out, cfail = run_all(mexe, monly, timeout=240)
        for res in cov_out or []:
            for kv in res.split():
                if "=" in kv:
                    k, v = kv.split("=")
                    ctx.count("branch/" + k, int(v))
    sysl = SysLzma()
    ctx.cov["third_opinion"] = getattr(sysl, "version", None)
    mism, third_used = 0, 0
    for i, ln in enumerate(both):
        nt = changed(ln, c_out[i])
        ctx.case(ln, nontrivial=nt, sample={"op": ln[:200], "impl": c_out[i][:200]} if i % 1499 == 0 else None)
        ctx.count("nontrivial" if nt else "identity", table="distribution")
        if m_out is not None and m_out[i] != c_out[i]:
            mism += 1
            if mism > 6:
                continue
            exp = third_opinion(sysl, ln)
            impl_stream = impl_whole(ln, c_out[i])
            model_stream = impl_whole(ln, m_out[i])
            replay = {"kind": "implementation output differs from the reference model", "op": ln, "impl": c_out[i], "model": m_out[i],
                      "how_to_replay": "echo '<op>' | .cache/harness-asan/c15   and   | lean/.lake/build/bin/xzm_c15"}
            if impl_stream is not None and impl_stream == model_stream:
                # same bytes, different per-call return codes / consumed / produced counts: the buffering differs from the model
                ctx.obligation_broken("correspondence C15: simple_coder per-call behaviour differs from the model (stream bytes agree)",
                                      json.dumps(replay)[:2500])
                continue
            if exp is not None and impl_stream is not None:
                third_used += 1
                replay["system_liblzma"] = exp.hex()
                if exp == impl_stream:
                    ctx.obligation_broken("correspondence C15: model and implementation disagree, the system liblzma %s agrees with the implementation (model defect)" % sysl.version,
                                          json.dumps(replay)[:2500])
                    continue
            ctx.violation("bcj-delta-mismatch", replay, True)
    # C-only oracles: round trip and slicing independence on the implementation
    rt_bad = 0
    for j, ln in enumerate(conly):
        res = c_out[len(both) + j]
        ctx.case(ln, nontrivial=True)
        if res != "1":
            rt_bad += 1
            if rt_bad <= 4:
                ctx.violation("roundtrip", {"kind": "round trip / slicing independence fails on the implementation", "op": ln, "impl": res[:2000]}, True)
    g_ok = golden_check(ctx, exe, mexe)
    ctx.cov["correspondence"] = {"ops_compared_with_model": len(both) if m_out is not None else 0, "mismatches": mism,
                                 "roundtrip_ops_on_implementation": len(conly), "roundtrip_failures": rt_bad,
                                 "golden_file_checks_passed": g_ok, "third_opinion_consulted": third_used, "model_ran": m_out is not None}
    # S: if the proof/model side broke, judge the implementation against the system library where it can speak
    if ctx.broken and not ctx.violations and sysl.lib is not None:
        checked = bad = 0
        for i, ln in enumerate(both):
            exp = third_opinion(sysl, ln)
            if exp is None:
                continue
            got = impl_whole(ln, c_out[i])
            if got is None:
                continue
            checked += 1
            if got != exp:
                bad += 1
                if bad <= 3:
                    ctx.violation("search-third-opinion", {"kind": "implementation differs from the released liblzma " + sysl.version, "op": ln,
                                                           "impl": c_out[i], "system_liblzma": exp.hex()}, True)
        ctx.cov["search"] = {"ops_checked_against_system_liblzma": checked, "failing": bad,
                             "roundtrip_ops": len(conly), "roundtrip_failures": rt_bad}
    return "proof"


def replay(ctx, path):
    r = json.load(open(path))
    vlib.c_build("asan", targets=["liblzma"])
    okh, log, exe = vlib.harness_build("c15", HARNESS, tu=TU)
    if not okh:
        print(log)
        return 2
    if r.get("kind") == "golden file":
        mexe = vlib.model_exe("xzm_c15")
        golden_check(ctx, exe, mexe if os.path.exists(mexe) else None)
        bad = bool(ctx.violations)
    else:
        op = r["op"]
        rc, out, err = vlib.run_lines([exe], [op])
        print("op:", op[:300])
        print("impl:", (out or [err])[0][:600])
        if op.split()[0] in ("rt", "drt"):
            bad = rc != 0 or out != ["1"]
        else:
            mexe = vlib.model_exe("xzm_c15")
            rc2, out2, err2 = vlib.run_lines([mexe], [op])
            print("model:", (out2 or [err2])[0][:600])
            bad = rc != 0 or out != out2
    if bad:
        print("VIOLATION property=C15 replay=%s" % path)
        return 1
    print("replay passes")
    return 0
