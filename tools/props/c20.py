"""C20 — xzgrep/xzdiff and friends act as grep/diff on decompressed data; names are data."""
import hashlib, json, os, re, shutil, subprocess, sys
import vlib
import c20gen

META = {
    "category": "proof",
    "text": "Lean theorems about an interpreter of the sh word syntax, a mini-sed, `case` globs and the exit-status blocks, applied to the "
            "script text cut from xzgrep.in/xzdiff.in on every run: the escape pipeline re-quotes every NUL-free byte string into exactly one "
            "literal shell word (escape_quotes_exactly, plain_quote_exact); operands, options, option arguments and the pattern are read back by "
            "eval exactly, in order, with nothing expanded, and a file name occurs only as the opaque \"$i\" (operands_preserved, grep_eval_words, "
            "split_option_requoted); the sed fallback prefixes every line with exactly name: for every name (label_escape_exact); the status blocks "
            "compute the documented 0/1/>=2 table for all status values (status_combination and the *_status_eq bridges); the case patterns select "
            "the documented decompressor for every name (suffix_dispatch). Tie: the model's sh/sed/glob/status semantics are run against the real "
            "dash, bash and sed on the same script fragments, and the built scripts are run on hostile names, patterns and option sets against "
            "grep/diff/cmp on the decompressed files (same stdout and exit status, a canary file must never appear).",
    "note": "Trusted: Lean kernel + propext/Classical.choice/Quot.sound; tools/c20gen.py (cuts the script text; renders the status blocks into the "
            "statement language — re-checked against the real sh on a grid every run); GNU grep/diff/cmp/sed and dash/bash of this image as the "
            "reference. Modelled, not verified: only the sh/sed subset the scripts use; expr(1) in the option splitter and in xzdiff's one-operand "
            "mode, less(1)'s LESSOPEN quoting and more(1) are exercised by the differential runs only.",
    "technique": "Lean 4 proof over an executable sh/sed model applied to regenerated script literals + differential runs of the built scripts",
}

H = lambda b: b.hex() if b else "-"
NCASE = {"quick": dict(strings=500, words=700, sedin=400, globs=900, names=700, grep=1800, diff=700, pager=100),
         "thorough": dict(strings=4000, words=6000, sedin=3000, globs=8000, names=6000, grep=17000, diff=6500, pager=600)}

BASE_PATH = "/usr/bin:/bin"


def benv(extra_path, **kw):
    e = {"PATH": ":".join(extra_path + [BASE_PATH]), "LC_ALL": "C", "HOME": "/nonexistent", "TMPDIR": kw.pop("tmp", "/tmp")}
    e.update(kw)
    return e


TIMEOUT = 120


def spawn(argv, cwd=None, env=None, inp=b"", timeout=None):
    try:
        p = subprocess.run(argv, cwd=cwd, env=env, input=inp, stdout=subprocess.PIPE, stderr=subprocess.PIPE, timeout=timeout or TIMEOUT)
        return p.returncode, p.stdout, p.stderr
    except subprocess.TimeoutExpired:
        return 124, b"", b"[timeout]"


# ---------------------------------------------------------------------------------------------------------
# hostile material
# ---------------------------------------------------------------------------------------------------------

CANARY = b"canary"
HOSTILE = [
    b"a.txt", b"file1", b"data.log", b"a b", b" lead", b"trail ", b"tab\tx", b"nl\nx", b"x\n", b"\n", b"\n\n", b"a\n\nb",
    b"q'uote", b"'", b"''", b"x'", b"'x", b"it's", b"a'b'c", b"'\\''", b"d\"q", b"\"", b"back\\slash", b"x\\", b"\\", b"\\\\",
    b"\\n", b"\\&", b"amp&x", b"&", b"&&", b"pi|pe", b"|", b"||", b"semi;x", b";", b";touch canary;", b"$(touch canary)",
    b"`touch canary`", b"'$(touch canary)'", b"';touch canary;'", b"x';touch canary;'y", b"\";touch canary;\"", b"|touch canary",
    b"&touch canary&", b"\ntouch canary\n", b"x\ntouch canary", b"$HOME", b"${x}", b"$1", b"$@", b"$", b"*", b"?", b"[a]", b"[", b"#c",
    b"~", b"!", b"!!", b"x:y", b":", b"%s", b"%", b"%d%n", b"=", b"a=b", b"{a,b}", b"(x)", b"<in", b">out", b"X", b"xX", b"X\n",
    b"&\\|", b"\\|", b"|\\", b"a&b|c\\d\ne", b"x\ny&z|w\\v'u\"t", b"\xc3\xa9", b"\xff\xfe", b"\x01\x02", b"\x7f", b"e\x1b[31m",
    b"-dash", b"--", b"-e", b"--label=x", b"-'", b"-x'", b"--regexp=a'", b"-;touch canary;", b"L" * 180,
]
SPECIAL = b"'\"\\\n &|;$`*?[]#~!:%=(){}<>X-.\t"
LETTERS = b"abcxyzXYZ019"


def rnd_bytes(rng, n, special_p=0.6):
    out = bytearray()
    for _ in range(n):
        if rng.random() < special_p:
            out.append(rng.choice(SPECIAL))
        elif rng.random() < 0.06:
            out.append(rng.randrange(1, 256))
        else:
            out.append(rng.choice(LETTERS))
    return bytes(out)


def hostile_string(rng):
    r = rng.random()
    if r < 0.45:
        return rng.choice(HOSTILE)
    if r < 0.6:
        return rng.choice(HOSTILE) + rng.choice(HOSTILE)
    return rnd_bytes(rng, rng.choice((1, 2, 3, 5, 8, 13, 30)))


def as_filename(b):
    b = b.replace(b"/", b"_").replace(b"\0", b"_")
    if b in (b"", b".", b"..", b"-"):
        b = b"f" + b
    return b[:200]


# ---------------------------------------------------------------------------------------------------------
# K1: the model's sh / sed / glob / status semantics against the real tools, on the script text itself
# ---------------------------------------------------------------------------------------------------------

def od_hex(out):
    """Decode `od -An -v -tx1` output back to bytes."""
    return bytes.fromhex(re.sub(rb"\s+", b"", out).decode())


ODX = "od -An -v -tx1"


def k1_ops(ctx, g, d, n):
    """Returns (ops, reals): model op lines and, for each, a closure producing the real tools' canonical answer."""
    rng = ctx.rng
    ops = []

    def add(line, real, tag):
        ops.append((line, real, tag))
        ctx.count("K1:" + tag)

    shells = [s for s in ("dash", "bash") if shutil.which(s)]
    esc_src = g["escapeSrc"]
    site0 = g["sites"][1]
    # (a) escape pipeline and round trip through eval, on the script's own text
    strings = [rng.choice(HOSTILE) for _ in range(n["strings"] // 3)] + [hostile_string(rng) for _ in range(n["strings"] - n["strings"] // 3)]
    strings = [s for s in strings if b"\0" not in s]
    esc_script = ("escape=%s\nq=$(printf %s \"$1\" | LC_ALL=C sed \"$escape\")\nprintf '%%s' \"$q\" | %s\necho /\n"
                  "eval \"set -- '$q\"\necho $#\nprintf '%%s' \"$1\" | %s\n" % (esc_src, site0["fmt"], ODX, ODX))
    for s in strings:
        sh = rng.choice(shells)

        def real(s=s, sh=sh):
            rc, out, err = spawn([sh, "-c", esc_script, "sh", s], env=benv([]))
            parts = out.split(b"/\n")
            if rc != 0 or len(parts) != 2:
                return "real-failed rc=%d %r" % (rc, err[-200:])
            q = od_hex(parts[0])
            cnt, _, rt = parts[1].partition(b"\n")
            return "ok %s | argc=%s roundtrip=%s" % (H(q), cnt.decode().strip(), H(od_hex(rt)))
        add(("esc " + H(s), "words " + H(b" '") + "%Q%"), real, "escape+eval")
    # (b) the word reader on random quoted command lines
    def rnd_cmdline():
        toks = []
        for _ in range(rng.randrange(1, 6)):
            w = b""
            for _ in range(rng.randrange(1, 4)):
                k = rng.randrange(4)
                if k == 0:
                    w += bytes(rng.choice(b"abcXYZ019-_=./:,+%@") for _ in range(rng.randrange(1, 5)))
                elif k == 1:
                    w += b"'" + rnd_bytes(rng, rng.randrange(0, 6)).replace(b"'", b"q") + b"'"
                elif k == 2:
                    c = rng.choice(SPECIAL.replace(b"\n", b""))
                    w += b"\\" + bytes([c])
                else:
                    inner = b""
                    for _ in range(rng.randrange(0, 5)):
                        c = rng.choice(SPECIAL + LETTERS)
                        if c in b"$`\"\\":
                            inner += b"\\" + bytes([c])
                        else:
                            inner += bytes([c])
                        if rng.random() < 0.15:
                            inner += b"\\" + bytes([rng.choice(b"abn'& ")])
                    w += b'"' + inner + b'"'
            toks.append(w)
        return rng.choice((b" ", b"  ", b"\t")).join(toks) + rng.choice((b"", b" "))
    for _ in range(n["words"]):
        t = rnd_cmdline()
        sh = rng.choice(shells)

        def real(t=t, sh=sh):
            script = b"set -- " + t + b"\nfor a in \"$@\"; do printf '%s' \"$a\" | " + ODX.encode() + b"; echo /; done\n"
            rc, out, err = spawn([sh, "-c", script, "sh"], env=benv([]))
            if rc != 0:
                return "real-failed rc=%d %r" % (rc, err[-200:])
            ws = out.split(b"/\n")[:-1]
            return "ok" + "".join(" L:" + H(od_hex(w)) for w in ws)
        add(("words " + H(t),), real, "words")
    # (c) mini-sed vs sed on the two programs of the script and on label scripts
    progs = []
    for src in (esc_src, g["label"]["sed"]):
        rc, out, _ = spawn(["sh", "-c", "printf '%s' " + src], env=benv([]))
        progs.append(out)
    for _ in range(n["sedin"]):
        prog = rng.choice(progs)
        lines = [rnd_bytes(rng, rng.choice((0, 1, 2, 4, 9)), 0.5).replace(b"\n", b"") for _ in range(rng.randrange(1, 4))]
        if rng.random() < 0.5:
            lines[-1] += b"X"
        inp = b"\n".join(lines) + (b"\n" if rng.random() < 0.85 else b"")
        inp = inp.replace(b"\0", b"z")
        if not inp:
            inp = b"\n"

        def real(prog=prog, inp=inp):
            rc, out, err = spawn(["sed", prog], env=benv([]), inp=inp)
            return "ok " + H(out) if rc == 0 else "none"
        add(("sed %s %s" % (H(prog), H(inp)),), real, "sed")
    # (d) label fallback: the script's own lines
    lb = g["label"]
    label_script = ("i=$1\ni=%s\ncase $i in\n(%s)\ni=$(printf %s \"$i\" | LC_ALL=C sed %s) ||\ni=%s;;\nesac\nsed_script=%s\n"
                    "printf '%%s' \"$sed_script\" | %s\necho /\nLC_ALL=C sed \"$sed_script\" | %s\n"
                    % (lb["suffix"], lb["pats"], lb["fmt"], lb["sed"], lb["fallback"], lb["script"], ODX, ODX))
    for s in strings[: max(60, n["strings"] // 2)]:
        inp = rng.choice((b"line\n", b"a&b\n1:x\n", b"\\&|\n\n", b"x\ny\n"))
        sh = rng.choice(shells)

        def real(s=s, inp=inp, sh=sh):
            rc, out, err = spawn([sh, "-c", label_script, "sh", s], env=benv([]), inp=inp)
            parts = out.split(b"/\n")
            if rc != 0 or len(parts) != 2:
                return "none"
            return "ok %s %s" % (H(od_hex(parts[0])), H(od_hex(parts[1])))
        add(("label %s %s" % (H(s), H(inp)),), real, "label")
    # (e) globs: the guards and pattern lists of the scripts on hostile values
    patlists = [s["guard"] for s in g["sites"]] + [d["site"]["guard"], d["site"]["guard2"], lb["pats"]]
    patlists += [p for p, _ in g["dispatch"]] + [p for p, _ in d["dispatch1"]] + d["compressed"] + [p for p, _ in d["dispatchOne"]]
    sufs = [b"", b".xz", b".lzma", b".lz", b".gz", b"-gz", b".z", b"-Z", b"_z", b".taz", b".tgz", b".bz2", b".tbz", b"-tbz", b".tbz2", b".lzo",
            b".tzo", b"-tzo", b".zst", b".tzst", b"-tzst", b".lz4", b"-lz4", b".txz", b".tlz", b".xz.", b"xz", b"gz", b".GZ", b".tar", b"z", b".t"]
    for _ in range(n["globs"]):
        pl = rng.choice(patlists)
        v = (hostile_string(rng) if rng.random() < 0.6 else rng.choice((b"a", b"ab", b"x-y", b"", b"-"))) + rng.choice(sufs)
        if b"\0" in v:
            continue

        def real(pl=pl, v=v):
            rc, out, err = spawn(["sh", "-c", "case $1 in\n(%s) echo 1;;\n(*) echo 0;;\nesac" % pl, "sh", v], env=benv([]))
            return "ok " + out.decode().strip() if rc == 0 else "none"
        add(("glob %s %s" % (H(pl.encode("latin-1")), H(v)),), real, "glob")
    # (f) decompressor dispatch: the script's own case blocks
    def case_block(arms, var):
        return "\n".join("%s) %s=%s;;" % (p, var, c) for p, c in arms)
    gblock = "xz=XZ\ncase $1 in\n%s\nesac\nprintf '%%s' \"$uncompress\"" % case_block(g["dispatch"], "uncompress")
    dblock1 = "r=\ncase $1 in\n%s\nesac\nprintf '%%s' \"$r\"" % case_block(d["dispatch1"], "r")
    dblock2 = "r=\ncase $1 in\n%s\nesac\nprintf '%%s' \"$r\"" % case_block(d["dispatch2"], "r")
    oneblock = "r=\ncase $1 in\n%s\nesac\nprintf '%%s' \"$r\"" % "\n".join(
        "%s) r=%s;;" % (p, "xz" if c is None else ("'!'" if c == "!" else c)) for p, c in d["dispatchOne"])

    def unq(src):  # value of a script word given as text, with $xz -> XZ (same convention as gblock)
        rc, out, _ = spawn(["sh", "-c", "xz=XZ\nprintf '%s' " + src], env=benv([]))
        return out
    for _ in range(n["names"]):
        which = rng.choice(("grep", "diff1", "diff2", "one"))
        nm = as_filename(hostile_string(rng) if rng.random() < 0.5 else rng.choice((b"a", b"file", b"x.tar"))) + rng.choice(sufs)
        blk = {"grep": gblock, "diff1": dblock1, "diff2": dblock2, "one": oneblock}[which]

        def real(blk=blk, nm=nm):
            rc, out, err = spawn(["sh", "-c", blk, "sh", nm], env=benv([]))
            return "ok " + H(out) if rc == 0 else "none"
        add(("dispatch %s %s" % (which, H(nm)), "unq"), real, "dispatch")
    # (g) exit-status blocks: the script text under the real shells on a grid
    grid = [0, 1, 2, 3, 127, 128, 129, 130, 137, 141, 143, 255]
    # the block uses `exit`: run it in a command substitution and report either the exit status or the new $res
    gs_script = "r=$1; xz_status=$2; res=$3\nout=$(\n%s\necho \"cont $res\"\n)\nst=$?\nif test -n \"$out\"; then echo \"$out\"; else echo \"exit $st\"; fi" % g["fileStatusText"]
    triples = [(r, x, s) for r in grid for x in grid + ["E"] for s in (0, 1, 2, 3, 141)]
    rng.shuffle(triples)
    for (r, x, s) in triples[: (260 if ctx.quick() else len(triples))]:
        sh = rng.choice(shells)

        def real(r=r, x=x, s=s, sh=sh):
            rc, out, err = spawn([sh, "-c", gs_script, "sh", str(r), "" if x == "E" else str(x), str(s)], env=benv([]))
            return out.decode().strip()
        add(("gstatus %d %s %d" % (r, x, s),), real, "status-grep")
    ss_script = "r=$1\n(exit $2) || {\n%s\n}" % g["sedStatusText"].replace("exit $r", "").rstrip() + "\necho \"exit $r\""
    for r in grid:
        for p in grid:
            def real(r=r, p=p):
                rc, out, err = spawn(["sh", "-c", ss_script, "sh", str(r), str(p)], env=benv([]))
                return out.decode().strip()
            add(("sstatus %d %d" % (r, p),), real, "status-sed")
    ds_body = d["statusText"].split("\n", 1)[1]
    ds_script = "cmp_status=$1; xz_status=$2\n(\n%s\n)\necho \"exit $?\"" % ds_body
    for c in (0, 1, 2, 127):
        for nums in ([], [0], [1], [141], [0, 0], [0, 141], [141, 0], [141, 141], [0, 1], [2, 0], [137, 0], [0, 143], [255], [128], [0, 129]):
            def real(c=c, nums=nums):
                rc, out, err = spawn(["sh", "-c", ds_script, "sh", str(c), " ".join(map(str, nums))], env=benv([]))
                return out.decode().strip()
            add(("dstatus %d %s" % (c, ",".join(map(str, nums)) or "-"),), real, "status-diff")
    # (h) the quoting sites and the option splitter, script text under the real shell
    for k, s in enumerate(g["sites"] + [d["site"]]):
        var = s["var"]
        lhs = s.get("lhs", "cmp")
        if k < 4:
            snippet = ("escape=%s\n%s\noperands=; grep=; cmp=\ncase $%s in\n(%s)\n%s=%s$(printf %s \"$%s\" | LC_ALL=C sed \"$escape\");;\n(*)\n%s=%s;;\nesac\n"
                       "printf '%%s' \"$%s\" | %s" % (esc_src, "" if var == "1" else var + "=$1", var, s["guard"], lhs, s["pre"], s["fmt"], var, lhs, s["plain"], lhs, ODX))
        else:
            snippet = ("escape=%s\ncmp=\ncase $1 in\n%s) cmp=%s`printf %s \"$1\" | sed \"$escape\"`;;\n%s) cmp=%s;;\nesac\nprintf '%%s' \"$cmp\" | %s"
                       % (d["escapeSrc"], s["guard"], s["pre"], s["fmt"], s["guard2"], s["plain"], ODX))
        for v in strings[: (40 if ctx.quick() else 400)]:
            if k == 4:
                v = b"-" + v          # xzdiff quotes options only
                if not v[1:]:
                    continue

            def real(snippet=snippet, v=v):
                rc, out, err = spawn(["sh", "-c", snippet, "sh", v], env=benv([]))
                return "ok " + H(od_hex(out)) if rc == 0 else "none"
            add(("site %d %s" % (k, H(v)),), real, "site")
    sp = g["split"]
    split_snip = ("escape=%s\noption=$1\narg2=%s$(LC_ALL=C expr \"X${option}%s\" : '%s' |\nLC_ALL=C sed \"$escape\")\nprintf '%%s' \"$arg2\" | %s"
                  % (esc_src, sp["pre"], sp["sfx"], sp["re"], ODX))
    for v in strings[: (40 if ctx.quick() else 300)]:
        if v[:1].isdigit():
            continue
        opt = b"-i" + v

        def real(opt=opt):
            rc, out, err = spawn(["sh", "-c", split_snip, "sh", opt], env=benv([]))
            return "ok " + H(od_hex(out))
        add(("split " + H(v),), real, "split")
    return ops, unq


def run_k1(ctx, g, d, mexe):
    ops, unq = k1_ops(ctx, g, d, NCASE[ctx.tier])
    # model side (two passes: the second feeds model outputs back in where an op depends on a previous answer)
    first = [o[0][0] for o in ops]
    rc, mout, merr = vlib.run_lines([mexe], first)
    if len(mout) != len(first):
        ctx.obligation_broken("model driver xzm_c20 failed to answer every op", merr)
        return
    second, idx2 = [], []
    for i, (lines, _, tag) in enumerate(ops):
        if len(lines) > 1 and lines[1].startswith("words") and mout[i].startswith("ok "):
            q = mout[i][3:]
            qb = b"" if q == "-" else bytes.fromhex(q)
            second.append("words " + H(b" '" + qb))
            idx2.append(i)
    rc, mout2, merr = vlib.run_lines([mexe], second) if second else (0, [], "")
    m2 = dict(zip(idx2, mout2))
    def guarded(o):
        try:
            return o[1]()
        except Exception as ex:               # truncated output of a killed helper etc.: retried once, then reported as such
            try:
                return o[1]()
            except Exception as ex2:
                return "real-side-error %r" % (ex2,)
    reals = vlib.par_map(guarded, ops)
    cache = {}
    mism = 0
    for i, ((lines, _, tag), real) in enumerate(zip(ops, reals)):
        model = mout[i]
        if tag == "escape+eval":
            s = lines[0].split()[1]
            model = "%s | argc=1 roundtrip=%s" % (mout[i], s) if m2.get(i) == "ok L:" + s else "%s | model words: %s" % (mout[i], m2.get(i))
        elif tag == "dispatch" and model.startswith("ok ") and model != "ok -":
            src = bytes.fromhex(model[3:]).decode("latin-1")
            if src not in cache:
                cache[src] = unq(src)
            model = "ok " + H(cache[src])
        elif tag == "dispatch" and model == "ok -":
            model = "ok -"
        ctx.case(("k1", lines[0]), nontrivial=True, sample={"op": lines[0][:120], "model": model[:120], "real": real[:120]} if i % 997 == 0 else None)
        if model != real:
            mism += 1
            if mism <= 5:
                ctx.obligation_broken("correspondence C20/K1 (%s): the model and the real sh/sed disagree on a script fragment" % tag,
                                      json.dumps({"op": lines[0], "model": model, "real": real}))
    ctx.cov["correspondence"]["model_vs_real_sh_sed"] = {"ops": len(ops), "mismatches": mism}


# ---------------------------------------------------------------------------------------------------------
# K2 / S: the built scripts against grep/diff/cmp on the decompressed files (independent of Lean)
# ---------------------------------------------------------------------------------------------------------

class World:
    """Scratch area with the built scripts, the compressors and cached compressed blobs."""

    def __init__(self, ctx):
        self.ctx = ctx
        top = os.path.join(vlib.CACHE, "c20-work")
        self.root = os.path.join(top, "%d-%s-%d" % (os.getpid(), ctx.tier, ctx.seed))
        shutil.rmtree(self.root, ignore_errors=True)
        if os.path.isdir(top):                      # leftovers of runs that were killed
            import time as _t
            for x in os.listdir(top):
                px = os.path.join(top, x)
                try:
                    if _t.time() - os.path.getmtime(px) > 3 * 3600:
                        shutil.rmtree(px, ignore_errors=True)
                except OSError:
                    pass
        os.makedirs(self.root)
        self.bd = vlib.build_dir("rel")
        self.bin = os.path.join(self.root, "bin")
        self.binnl = os.path.join(self.root, "bin-nolabel")
        os.makedirs(self.bin)
        os.makedirs(self.binnl)
        os.makedirs(os.path.join(self.root, "tmp"))
        os.symlink(os.path.join(self.bd, "xz"), os.path.join(self.bin, "xz"))
        for s, links in (("xzgrep", ("xzegrep", "xzfgrep")), ("xzdiff", ("xzcmp",)), ("xzless", ()), ("xzmore", ())):
            shutil.copy(os.path.join(self.bd, s), os.path.join(self.bin, s))
            os.chmod(os.path.join(self.bin, s), 0o755)
            for l in links:
                os.symlink(s, os.path.join(self.bin, l))
        with open(os.path.join(self.binnl, "grep"), "w") as f:
            f.write("#!/bin/sh\n# grep without --label (forces xzgrep's sed fallback); the argument of -e/-f is not an option\nskip=0\n"
                    "for a; do\n  if test $skip -eq 1; then skip=0; continue; fi\n  case $a in\n    -e|-f) skip=1;;\n    --label|--label=*) "
                    "echo 'grep: unrecognized option --label' >&2; exit 2;;\n  esac\ndone\nexec /usr/bin/grep \"$@\"\n")
        os.chmod(os.path.join(self.binnl, "grep"), 0o755)
        self.blobs = {}
        self.tools = {"gz": shutil.which("gzip"), "bz2": shutil.which("bzip2")}
        self.shells = ["sh"] + (["bash"] if shutil.which("bash") else [])
        self.lz = []
        for f in ("good-1-v1.lz", "good-2-v1-v1.lz", "good-1-v0.lz"):
            p = os.path.join(vlib.REPO, "tests/files", f)
            if os.path.exists(p):
                blob = open(p, "rb").read()
                rc, out, _ = spawn([os.path.join(self.bin, "xz"), "-dc"], inp=blob)
                if rc == 0:
                    self.lz.append((out, blob))

    def env(self, label=True):
        return benv([self.bin] + ([] if label else [self.binnl]), tmp=os.path.join(self.root, "tmp"))

    def compress(self, data, fmt):
        key = (hashlib.sha1(data).digest(), fmt)
        if key not in self.blobs:
            xz = os.path.join(self.bin, "xz")
            if fmt == "raw":
                out = data
            elif fmt in ("xz", "txz"):
                out = spawn([xz, "-c", "-0"], inp=data)[1]
            elif fmt in ("lzma", "tlz"):
                out = spawn([xz, "-c", "-0", "--format=lzma"], inp=data)[1]
            elif fmt == "gz":
                out = spawn(["gzip", "-c"], inp=data)[1]
            elif fmt == "bz2":
                out = spawn(["bzip2", "-c"], inp=data)[1]
            else:
                raise ValueError(fmt)
            self.blobs[key] = out
        return self.blobs[key]

    def cleanup(self):
        shutil.rmtree(self.root, ignore_errors=True)
        try:
            os.rmdir(os.path.dirname(self.root))
        except OSError:
            pass


VOCAB = [b"hello world", b"Hello", b"World!", b"foo bar", b"it's here", b"a'", b"x y z", b"needle", b"NEEDLE in caps", b"", b"-x dash", b"a&b|c\\d",
         b"tab\there", b"$(touch canary)", b"semi;colon", b"aaa", b"abc", b"xyz", b"o", b"line with trailing space ", b"1:2:3", b"--"]
SUFFIX = {"xz": b".xz", "lzma": b".lzma", "lz": b".lz", "gz": b".gz", "bz2": b".bz2", "txz": b".txz", "tlz": b".tlz", "raw": b""}


def rnd_content(rng, world):
    n = rng.choice((0, 1, 2, 3, 5, 8))
    lines = [rng.choice(VOCAB) for _ in range(n)]
    data = b"\n".join(lines) + (b"\n" if lines and rng.random() < 0.9 else b"")
    return data


def make_file(rng, world, tame=False):
    fmts = ["xz", "xz", "xz", "lzma", "raw", "txz", "tlz"] + [f for f in ("gz", "bz2") if world.tools[f]] + (["lz"] if world.lz else [])
    fmt = rng.choice(fmts)
    if fmt == "lz":
        plain, blob = rng.choice(world.lz)
    else:
        plain = rnd_content(rng, world)
        blob = None
    base = rng.choice((b"a", b"f1", b"data", b"x.tar", b"b.c")) if tame else as_filename(hostile_string(rng))
    name = as_filename(base)[:150] + SUFFIX[fmt]
    return {"name": name, "fmt": fmt, "plain": plain, "blob": blob, "state": "ok"}


PATTERNS = [b"hello", b"Hello", b"o", b"a", b"^x", b"d$", b"NOMATCH", b"it's", b"a'", b"'", b"needle", b"x y", b"a&b", b"\\\\d", b"$(touch canary)",
            b";", b"foo\nxyz", b"World", b"1:2", b"a.c", b"", b"c\\\\d\n'"]


def gen_grep_case(rng, world, idx, focus=None):
    prog = rng.choice(("xzgrep",) * 6 + ("xzegrep", "xzfgrep"))
    label = rng.random() < 0.55
    shell = rng.choice(world.shells)
    nfiles = rng.choice((0, 1, 1, 2, 2, 3, 4))
    tame = rng.random() < 0.2
    files, seen = [], set()
    for _ in range(nfiles):
        f = make_file(rng, world, tame)
        while f["name"] in seen or f["name"] == CANARY:
            f["name"] = b"n%d" % rng.randrange(1000) + f["name"][:150]
        seen.add(f["name"])
        files.append(f)
    case = {"kind": "grep", "idx": idx, "prog": prog, "label": label, "shell": shell, "files": files, "stdin": None, "cmp_stdout": True,
            "status_only": False, "perfile": False}
    opts = []
    # at most one of the "mode" options
    mode = rng.choice((None,) * 5 + (b"-l", b"-L", b"-c", b"-q"))
    if mode:
        opts.append(mode)
    for o in (b"-i", b"-n", b"-v", b"-w", b"-x", b"-o", b"-s", b"-h", b"-H"):
        if rng.random() < 0.13:
            opts.append(o)
    if b"-h" in opts and b"-H" in opts:
        opts.remove(b"-H")
    if b"-o" in opts and b"-w" in opts and b"-x" in opts:
        opts.remove(b"-x")        # GNU grep 3.8 prints a spurious unlabelled empty line for -o -w -x (foreign quirk, not xzgrep's)
    ctxopt = None
    if rng.random() < 0.14 and not mode and b"-o" not in opts and b"-v" not in opts:
        ctxopt = rng.choice(([b"-A1"], [b"-B", b"1"], [b"-C1"], [b"-A", b"2"], [b"-2"], [b"--context=1"]))
        opts += ctxopt
    if rng.random() < 0.1:
        opts += [b"-m", b"1"] if rng.random() < 0.5 else [b"-m1"]
    # combine some single-letter options into one word (exercises the option splitter)
    case["flag_v"] = b"-v" in opts
    case["flag_h"] = b"-h" in opts
    case["flag_H"] = b"-H" in opts
    singles = [o for o in opts if len(o) == 2 and o[1:2] in b"invwxoshHlLcq"]
    if len(singles) >= 2 and rng.random() < 0.5:
        for o in singles:
            opts.remove(o)
        opts.insert(0, b"-" + b"".join(o[1:] for o in singles))
    # pattern(s)
    pats = [rng.choice(PATTERNS) if rng.random() < 0.8 else hostile_string(rng).replace(b"\0", b"")]
    if prog == "xzegrep" and rng.random() < 0.5:
        pats = [rng.choice((b"hello|World", b"a(b|')c?", b"x+|o$"))]
    if rng.random() < 0.15:
        pats.append(rng.choice(PATTERNS))
    how = rng.choice(("operand",) * 4 + ("-e", "-e", "-eP", "--regexp=", "-f"))
    args = list(opts)
    patfile = None
    if len(pats) > 1 and how == "operand":
        how = "-e"
    if focus == "trailing-quote":
        pats = [rng.choice((b"a'", b"'", b"x y'", b"o'"))]
        how = rng.choice(("-eP", "--regexp="))
    if how == "operand":
        if pats[0].startswith(b"-"):
            args += [b"-e", pats[0]]
        else:
            args.append(pats[0])
    elif how == "-e":
        for p in pats:
            args += [b"-e", p]
    elif how == "-eP":
        for p in pats:
            args += [b"-e" + p] if p else [b"-e", p]
    elif how == "--regexp=":
        for p in pats:
            args.append(b"--regexp=" + p)
    else:
        patfile = b"\n".join(pats) + b"\n"
        args += [b"-f", b"@PATFILE@"]
    # operands
    names = [f["name"] for f in files]
    dashdash = any(nm.startswith(b"-") for nm in names) or rng.random() < 0.15
    if dashdash and how == "operand" and not pats[0].startswith(b"-"):
        # the pattern operand must stay before `--`
        pass
    if dashdash:
        args.append(b"--")
    case["dashdash"] = dashdash
    if dashdash:
        pre_args = args[:-1]
    else:
        pre_args = list(args)
    args += names
    # options after operands now and then (GNU permutation)
    if not dashdash and rng.random() < 0.1 and nfiles:
        extra = rng.choice((b"-i", b"-n"))
        args.append(extra)
        pre_args.append(extra)
    case["pre_args"] = pre_args
    case["args"] = args
    case["patfile"] = patfile
    if nfiles == 0:
        st = make_file(rng, world, True)
        while st["fmt"] in ("gz", "bz2"):       # stdin has no suffix: only what xz itself decodes (or passes through)
            st = make_file(rng, world, True)
        case["stdin"] = st
        # documented difference: xzgrep -l/-L name stdin "-", grep says "(standard input)"
        if mode in (b"-l", b"-L"):
            case["cmp_stdout"] = False
    # error injection
    if nfiles and rng.random() < 0.12 and not ctxopt:
        f = rng.choice(files)
        f["state"] = rng.choice(("missing", "corrupt")) if f["fmt"] in ("xz", "lzma", "txz", "tlz") else "missing"
        case["status_only"] = (f["state"] == "corrupt") or bool(mode in (b"-c", b"-L", b"-q")) or b"-s" in opts or b"-v" in opts
        # grep may stop reading early (-q, -l/-L use -q, -m, -v with a pattern that matches every line): a truncated file's
        # decompressor then dies of SIGPIPE (exempted by design) or reports its error first - both are legitimate
        early = mode in (b"-l", b"-L", b"-q") or any(a.startswith(b"-m") for a in args) or case["flag_v"]
        if mode == b"-q" or (f["state"] == "corrupt" and early):
            case["skip_status"] = True
    # documented differences that the comparison must respect
    if ctxopt and (nfiles > 1 or (nfiles == 1 and case["flag_H"])):
        case["perfile"] = True
        if not label:
            case["label"] = True       # sed fallback labels context lines with name: instead of name-
    if nfiles == 0 and not case["label"] and case["flag_H"]:
        case["label"] = True           # stdin is labelled "-" by the fallback, "(standard input)" by grep
    return case


def write_tree(world, case, cdir, pdir):
    os.makedirs(cdir)
    os.makedirs(pdir)
    for f in case.get("files", []):
        if f["state"] == "missing":
            continue
        blob = f["blob"] if f["blob"] is not None else world.compress(f["plain"], f["fmt"])
        if f["state"] == "corrupt":
            blob = blob[:-5]                    # header intact, end of the stream missing
        with open(os.path.join(cdir.encode(), f["name"]), "wb") as fh:
            fh.write(blob)
        with open(os.path.join(pdir.encode(), f.get("plain_name", f["name"])), "wb") as fh:
            fh.write(f["plain"])
    for extra in case.get("extra_files", []):
        for dd in (cdir, pdir):
            with open(os.path.join(dd.encode(), extra["name"]), "wb") as fh:
                fh.write(extra["data"])


def canary_seen(*dirs):
    for dd in dirs:
        for root, ds, fs in os.walk(dd.encode() if isinstance(dd, str) else dd):
            for x in ds + fs:
                if x == CANARY:
                    return os.path.join(root, x)
    return None


def subst_patfile(args, path):
    return [path.encode() if a == b"@PATFILE@" else a for a in args]


def run_grep_case(world, case):
    base = os.path.join(world.root, "g%d" % case["idx"])
    cdir, pdir = os.path.join(base, "c"), os.path.join(base, "p")
    write_tree(world, case, cdir, pdir)
    pf = os.path.join(base, "patfile")
    if case.get("patfile") is not None:
        with open(pf, "wb") as fh:
            fh.write(case["patfile"])
    args = subst_patfile(case["args"], pf)
    script = os.path.join(world.bin, case["prog"])
    argv = ([script] if case["shell"] == "sh" else [case["shell"], script]) + args
    stdin = b""
    if case["stdin"] is not None:
        st = case["stdin"]
        stdin = st["blob"] if st["blob"] is not None else world.compress(st["plain"], st["fmt"])
    rc, out, err = spawn(argv, cwd=cdir, env=world.env(case["label"]), inp=stdin)
    # oracle: the real grep on the decompressed files, same names
    g = ["grep"] + {"xzgrep": [], "xzegrep": ["-E"], "xzfgrep": ["-F"]}[case["prog"]]
    oenv = benv([])
    plain_in = case["stdin"]["plain"] if case["stdin"] is not None else b""
    if case["perfile"]:
        # context options: grep is run per file (xzgrep cannot print the `--` separator between files)
        pre = subst_patfile(case["pre_args"], pf)
        eout, anym, anye = b"", False, False
        named = not case.get("flag_h") and (len(case["files"]) > 1 or case.get("flag_H"))
        for f in case["files"]:
            r1, o1, e1 = spawn(g + pre + ([b"-H", b"--label=" + f["name"]] if named else []), cwd=pdir, env=oenv, inp=f["plain"])
            eout += o1
            anym |= r1 == 0
            anye |= r1 >= 2
        erc = 2 if anye else (0 if anym else 1)
    else:
        erc, eout, eerr = spawn(g + args, cwd=pdir, env=oenv, inp=plain_in)
    bad = []
    can = canary_seen(base)
    if can:
        bad.append("canary file created: a name or pattern was executed")
    has_err = any(f["state"] != "ok" for f in case["files"])
    if has_err:
        if rc != 2 and not case.get("skip_status"):
            bad.append("exit status %d, expected 2 (a file is missing or undecodable)" % rc)
        if not case["status_only"] and out != eout:
            bad.append("stdout differs from grep's")
    else:
        if rc != erc:
            bad.append("exit status %d, grep gives %d" % (rc, erc))
        if case["cmp_stdout"] and out != eout:
            bad.append("stdout differs from grep's")
    res = {"rc": rc, "stdout": out, "stderr": err[-600:], "oracle_rc": erc, "oracle_stdout": eout, "bad": bad}
    shutil.rmtree(base, ignore_errors=True)
    return res


DIFF_SUF = {"xz": [b".xz", b"-xz", b".txz"], "lzma": [b".lzma", b".tlz"], "gz": [b".gz", b".tgz", b"-gz", b".z", b"_z"], "bz2": [b".bz2", b".tbz2", b".tbz"],
            "raw": [b"", b".txt", b".c"], "lz": [b".lz"]}
STRIPPED = {b".xz": b"", b"-xz": b"", b".txz": b".tar", b".lzma": b"", b".tlz": b".tar", b".gz": b"", b".tgz": b".tar", b"-gz": b"", b".z": b"", b"_z": None,
            b".bz2": b"", b".tbz2": b".tar", b".tbz": b".tar", b".lz": b""}


def gen_diff_case(rng, world, idx):
    prog = rng.choice(("xzdiff", "xzdiff", "xzcmp"))
    shell = rng.choice(world.shells)
    mode = rng.choice(("two",) * 6 + ("one", "one", "stdin"))
    fmts = ["xz", "xz", "lzma", "raw", "raw"] + [f for f in ("gz", "bz2") if world.tools[f]] + (["lz"] if world.lz else [])
    tame = rng.random() < 0.25

    def mk(fmt, content=None):
        if fmt == "lz":
            plain, blob = rng.choice(world.lz)
        else:
            plain, blob = (content if content is not None else rnd_content(rng, world)), None
        base = rng.choice((b"a", b"left", b"x.tar")) if tame else as_filename(hostile_string(rng))
        suf = rng.choice(DIFF_SUF[fmt])
        return {"name": as_filename(base)[:150] + suf, "fmt": fmt, "plain": plain, "blob": blob, "state": "ok", "suf": suf, "base": base}
    a = mk(rng.choice(fmts))
    same = rng.random() < 0.4
    case = {"kind": "diff", "idx": idx, "prog": prog, "shell": shell, "mode": mode, "extra_files": []}
    opts = []
    if prog == "xzdiff":
        for o in (b"-b", b"-i", b"-w", b"-q", b"-u", b"-s", b"--brief"):
            if rng.random() < 0.1:
                opts.append(o)
        if rng.random() < 0.05:
            opts.append(b"-I" + rng.choice((b"foo", b"it's", b"a'", b"x y")))
    else:
        for o in (b"-s", b"-l", b"-b"):
            if rng.random() < 0.15:
                opts.append(o)
    if mode == "one":
        fmt = rng.choice([f for f in fmts if f not in ("raw", "lz")])
        a = mk(fmt)
        while STRIPPED.get(a["suf"]) is None:
            a = mk(fmt)
        a["base"] = as_filename(a["base"])[:100]
        a["name"] = a["base"] + a["suf"]
        other_name = a["base"] + STRIPPED[a["suf"]]
        other_plain = a["plain"] if same else rnd_content(rng, world)
        case["files"] = [a]
        case["extra_files"] = [{"name": other_name, "data": other_plain}]
        case["plains"] = [a["plain"], other_plain]
        names = [a["name"]]
    else:
        b = mk(rng.choice(fmts), a["plain"] if same and a["fmt"] != "lz" else None)
        if same and b["fmt"] == "lz":
            same = False
        while b["name"] == a["name"]:
            b["name"] = b"n%d" % rng.randrange(100) + b["name"][:150]
        case["files"] = [a, b]
        case["plains"] = [a["plain"], b["plain"]]
        names = [a["name"], b["name"]]
        if mode == "stdin":
            if a["fmt"] in ("gz", "bz2"):
                a = mk(rng.choice(("xz", "lzma", "raw")), a["plain"])
                case["plains"][0] = a["plain"]
            case["files"] = [b]
            case["stdin_blob"] = a
            names = [b"-", b["name"]]
    for f in case["files"]:
        f["plain_name"] = f["name"]
    if rng.random() < 0.1 and mode != "stdin":
        f = rng.choice(case["files"])
        f["state"] = rng.choice(("missing", "corrupt")) if f["fmt"] in ("xz", "lzma") else "missing"
    dd = any(n.startswith(b"-") and n != b"-" for n in names) or rng.random() < 0.2
    case["args"] = opts + ([b"--"] if dd else []) + names
    case["opts"] = opts
    return case


def run_diff_case(world, case):
    base = os.path.join(world.root, "d%d" % case["idx"])
    cdir, pdir = os.path.join(base, "c"), os.path.join(base, "p")
    write_tree(world, case, cdir, pdir)
    script = os.path.join(world.bin, case["prog"])
    argv = ([script] if case["shell"] == "sh" else [case["shell"], script]) + case["args"]
    stdin = b""
    if case.get("stdin_blob"):
        st = case["stdin_blob"]
        stdin = st["blob"] if st["blob"] is not None else world.compress(st["plain"], st["fmt"])
    rc, out, err = spawn(argv, cwd=cdir, env=world.env(True), inp=stdin)
    # oracle on two plain files with neutral names
    with open(os.path.join(base, "A"), "wb") as fh:
        fh.write(case["plains"][0])
    with open(os.path.join(base, "B"), "wb") as fh:
        fh.write(case["plains"][1])
    tool = "diff" if case["prog"] == "xzdiff" else "cmp"
    erc, eout, eerr = spawn([tool] + case["opts"] + ["--", "A", "B"], cwd=base, env=benv([]))
    bad = []
    if canary_seen(base):
        bad.append("canary file created: a name or option was executed")
    has_err = any(f["state"] != "ok" for f in case["files"])
    key = None
    if case["mode"] == "one" and case["files"][0]["base"].endswith(b"\n"):
        key = "C20:xzdiff-one-operand-stem-ends-with-newline"
    names_in_output = any(o in (b"-q", b"-u", b"-s", b"--brief") for o in case["opts"]) or tool == "cmp"
    if has_err:
        if rc != 2:
            bad.append("exit status %d, expected 2 (a file is missing or undecodable)" % rc)
    else:
        if rc != erc:
            bad.append("exit status %d, %s gives %d" % (rc, tool, erc))
        if tool == "diff" and not names_in_output and out != eout:
            bad.append("stdout differs from diff's")
        # cmp -l pads the byte offset to a width that depends on whether the input is a pipe: compare modulo leading blanks
        norm = lambda b: [ln.lstrip() for ln in b.split(b"\n")]
        if tool == "cmp" and b"-l" in case["opts"] and b"-b" not in case["opts"] and norm(out) != norm(eout):
            bad.append("stdout differs from cmp -l")
    res = {"rc": rc, "stdout": out, "stderr": err[-600:], "oracle_rc": erc, "oracle_stdout": eout, "bad": bad, "key": key}
    shutil.rmtree(base, ignore_errors=True)
    return res


def gen_pager_case(rng, world, idx):
    f = make_file(rng, world, tame=rng.random() < 0.2)
    while f["fmt"] in ("gz", "bz2"):          # xzless/xzmore only know what xz decodes
        f = make_file(rng, world)
    return {"kind": "pager", "idx": idx, "prog": rng.choice(("xzless", "xzmore")), "shell": rng.choice(world.shells), "files": [f]}


def run_pager_case(world, case):
    base = os.path.join(world.root, "p%d" % case["idx"])
    cdir, pdir = os.path.join(base, "c"), os.path.join(base, "p")
    write_tree(world, case, cdir, pdir)
    f = case["files"][0]
    script = os.path.join(world.bin, case["prog"])
    name = f["name"]
    args = ([b"--", name] if case["prog"] == "xzless" else [b"./" + name if name.startswith(b"-") else name])
    argv = ([script] if case["shell"] == "sh" else [case["shell"], script]) + args
    env = world.env(True)
    env["TERM"] = "dumb"
    rc, out, err = spawn(argv, cwd=cdir, env=env, inp=b"")
    shown = args[-1]
    exp = f["plain"] if case["prog"] == "xzless" else b"------> " + shown + b" <------\n" + f["plain"]
    bad = []
    if canary_seen(base):
        bad.append("canary file created: a name was executed")
    if out != exp:
        bad.append("output differs from the decompressed contents")
    res = {"rc": rc, "stdout": out, "stderr": err[-600:], "oracle_rc": 0, "oracle_stdout": exp, "bad": bad}
    shutil.rmtree(base, ignore_errors=True)
    return res


def fixed_cases(world):
    """Scenarios that are always run: the repaired trailing-quote defect (findings/C20-option-trailing-quote) and classic injections."""
    out = []
    f1 = {"name": b"f.txt.xz", "fmt": "xz", "plain": b"hello a'\nworld\nit's\n", "blob": None, "state": "ok"}
    f2 = {"name": b"$(touch canary).xz", "fmt": "xz", "plain": b"a'\n", "blob": None, "state": "ok"}
    k = 0
    for shell in world.shells:
        for label in (True, False):
            for args in ([b"-ea'"], [b"--regexp=a'"], [b"-e", b"a'"], [b"-ia'"], [b"-ea'", b"-;touch canary;", b"-eb'"], [b"--regexp='", b"-n"],
                         [b"-ea'", b"-e", b"x\ntouch canary\n"], [b"-e'", b"-e'"], [b"-A1", b"-ea'"], [b"-H", b"-ea'"], [b"-l", b"-ea'"], [b"-ea';touch canary;'"]):
                for files in ([f1], [f1, f2]):
                    out.append({"kind": "grep", "idx": 900000 + k, "prog": "xzgrep", "label": label, "shell": shell, "files": [dict(f) for f in files],
                                "stdin": None, "cmp_stdout": b"-A1" not in args or len(files) == 1, "status_only": False,
                                "perfile": False, "args": args + [f["name"] for f in files], "patfile": None, "fixed": "trailing-quote"})
                    k += 1
    return out


def jsonable(case, res):
    def cv(x):
        if isinstance(x, bytes):
            return {"hex": x.hex(), "text": x.decode("latin-1")}
        if isinstance(x, dict):
            return {k: cv(v) for k, v in x.items()}
        if isinstance(x, (list, tuple)):
            return [cv(v) for v in x]
        return x
    return {"case": cv(case), "observed": cv({k: v for k, v in res.items()})}


def unjson(x):
    if isinstance(x, dict):
        if set(x.keys()) == {"hex", "text"}:
            return bytes.fromhex(x["hex"])
        return {k: unjson(v) for k, v in x.items()}
    if isinstance(x, list):
        return [unjson(v) for v in x]
    return x


RUNNERS = {"grep": run_grep_case, "diff": run_diff_case, "pager": run_pager_case}


def run_case(world, c):
    """One scenario; a timeout (machine under load?) is retried once with a long limit before it counts as a hang;
    an exception of the machinery is recorded, never turned into a verdict."""
    try:
        r = RUNNERS[c["kind"]](world, c)
        if r["stderr"].endswith(b"[timeout]") or r["rc"] == 124:
            global TIMEOUT
            old, TIMEOUT = TIMEOUT, 600
            try:
                r = RUNNERS[c["kind"]](world, c)
            finally:
                TIMEOUT = old
            r["retried"] = True
        return r
    except Exception as ex:                     # noqa: machinery error
        import traceback
        return {"rc": -1, "stdout": b"", "stderr": b"", "oracle_rc": -1, "oracle_stdout": b"", "bad": [], "machinery": traceback.format_exc()[-1500:]}


def run_k2(ctx, world, scale=1.0, focus=False):
    rng = ctx.rng
    n = NCASE[ctx.tier]
    cases = fixed_cases(world)
    ng, nd, npg = int(n["grep"] * scale), int(n["diff"] * scale), int(n["pager"] * scale)
    base = 1000000 if focus else 0
    for i in range(ng):
        cases.append(gen_grep_case(rng, world, base + i, focus="trailing-quote" if (focus and i % 3 == 0) or i % 41 == 0 else None))
    for i in range(nd):
        cases.append(gen_diff_case(rng, world, base + i))
    for i in range(npg):
        cases.append(gen_pager_case(rng, world, base + i))
    results = vlib.par_map(lambda c: run_case(world, c), cases, workers=vlib.NCPU)
    nviol = 0
    for c, r in zip(cases, results):
        if r.get("machinery"):
            ctx.count("machinery-errors (case skipped, not a verdict)")
            if "machinery_errors" not in ctx.cov:
                ctx.cov["machinery_errors"] = []
            if len(ctx.cov["machinery_errors"]) < 3:
                ctx.cov["machinery_errors"].append(r["machinery"])
                ctx.log("machinery error in a K2 case (skipped): " + r["machinery"].strip().split("\n")[-1])
            continue
        if r.get("retried"):
            ctx.count("timeouts-retried")
        hostile = any(ch in f["name"] for f in c.get("files", []) for ch in (b"'", b"\n", b"\\", b"&", b"|", b";", b"$", b"`", b" "))
        ctx.case((c["kind"], c["prog"], c["shell"], c.get("label"), [f["name"] for f in c.get("files", [])], c.get("args")), nontrivial=True,
                 sample={"kind": c["kind"], "argv": [a.decode("latin-1") for a in c.get("args", [])][:8], "rc": r["rc"]} if c["idx"] % 211 == 0 else None)
        ctx.count("%s:%s" % (c["kind"], c["prog"]))
        ctx.count("shell:" + c["shell"])
        if c["kind"] == "grep":
            ctx.count("grep:label" if c["label"] else "grep:sed-fallback")
            ctx.count("grep:files=%d" % len(c["files"]))
            ctx.count("grep:rc=%d" % r["rc"])
            for f in c["files"]:
                ctx.count("fmt:" + f["fmt"])
                if f["state"] != "ok":
                    ctx.count("grep:file-" + f["state"])
        elif c["kind"] == "diff":
            ctx.count("diff:mode=" + c["mode"])
            ctx.count("diff:rc=%d" % r["rc"])
        if hostile:
            ctx.count("hostile-name-cases")
        if r["bad"] and r.get("key") and ctx.known_match(r["key"]) is not None:
            ctx.violation("known", {}, True, key=r["key"])
            ctx.count("known-finding-hits")
            continue
        if r["bad"]:
            nviol += 1
            if nviol <= 4:
                rep = jsonable(c, r)
                rep["kind"] = "; ".join(r["bad"])
                rep["how_to_replay"] = "./check C20 --replay <this file>   (rebuilds the files in a scratch directory and re-runs the built script and the oracle)"
                ctx.violation("script-%s-%s" % (c["kind"], c.get("fixed", "gen")), rep, True, key=r.get("key"))
    return len(cases), nviol


# ---------------------------------------------------------------------------------------------------------
# the check
# ---------------------------------------------------------------------------------------------------------

def run(ctx):
    ctx.cov["rule"] = ("K1: op lines for the model driver (escape+eval round trip, word reader, sed, label script, globs, dispatch, status grids, quoting sites) "
                       "built from the seeded PRNG and the hostile-string pool; each answered by the real dash/bash/sed running the script's own text. "
                       "K2: generated invocations of the built xzgrep/xzegrep/xzfgrep/xzdiff/xzcmp/xzless/xzmore (hostile file names, patterns, option sets, "
                       "0..4 files, .xz/.lzma/.lz/.txz/.tlz/.gz/.bz2/uncompressed, missing and truncated files, dash and bash, grep with and without --label) "
                       "compared with grep/diff/cmp on the decompressed files; distinct by full argv + names + shell + label mode; all are non-trivial")
    ctx.assumptions += [
        "Lean 4 kernel; Model/Shell.lean covers only the sh/sed/glob subset these scripts use (checked against dash, bash and GNU sed on every run)",
        "tools/c20gen.py cuts the script text faithfully and renders the status blocks into the statement language (re-run under the real sh on a grid)",
        "GNU grep 3.8 / diffutils / dash / bash / sed of this image are the reference; SIGPIPE = 13 (kill -l 141 = PIPE)",
        "documented differences respected by the comparison: context options are compared per file (xzgrep runs grep once per file, no `--` separator between "
        "files) and only with --label; with a missing/undecodable file only the exit status (2) is compared for -c/-L/-v/-s and for truncated files; "
        "-q with an unreadable file is not compared (GNU grep -q exits 0 on a match even after an error)",
        "xzless/xzmore: the LESSOPEN quoting is less(1)'s; exercised with hostile names, not modelled",
    ]
    ctx.cov["correspondence"] = {}
    # G
    gen_ok, g, d = True, None, None
    try:
        text, g, d = c20gen.render(vlib.REPO)
        vlib.write_if_changed(vlib.module_path("XzVerif.Gen.C20"), text)
    except (c20gen.GenError, OSError, KeyError, ValueError) as ex:
        gen_ok = False
        ctx.obligation_broken("stage G: the quoting / sed / case / status code of xzgrep.in, xzdiff.in no longer has the shape Gen/C20.lean is cut from", repr(ex))
    # P
    ctx.log("G done")
    p_ok = ctx.lean_stage(["XzVerif.Props.C20"], exes=["xzm_c20"]) if gen_ok else False
    ctx.log("P done (ok=%s)" % p_ok)
    # B
    okb, log, bd = vlib.c_build("rel")
    if not okb or not all(os.path.exists(os.path.join(bd, s)) for s in ("xz", "xzgrep", "xzdiff", "xzless", "xzmore")):
        ctx.obligation_broken("stage B: /repo does not build (xz and the scripts)", log)
        return "proof"
    world = World(ctx)
    try:
        # K1
        ctx.log("B done")
        if gen_ok and os.path.exists(vlib.model_exe("xzm_c20")) and p_ok:
            run_k1(ctx, g, d, vlib.model_exe("xzm_c20"))
        ctx.log("K1 done")
        # K2 (always; it does not depend on Lean)
        n, nv = run_k2(ctx, world)
        ctx.cov["correspondence"]["scripts_vs_grep_diff_cmp"] = {"invocations": n, "failing": nv}
        ctx.log("K2 done: %d invocations, %d failing" % (n, nv))
        # S: something on the proof/model side broke and the ordinary run found nothing: search harder with the same oracle
        if ctx.broken and not ctx.violations:
            n2, nv2 = run_k2(ctx, world, scale=(4.0 if ctx.quick() else 1.5), focus=True)
            ctx.cov["search"] = {"extra_invocations": n2, "failing": nv2}
    finally:
        world.cleanup()
    return "proof"


def replay(ctx, path):
    import replaylib
    r = replaylib.load(ctx, path)
    if "case" not in r:
        return replaylib.obligations("C20", run, r, path)
    okb, log, bd = vlib.c_build("rel")
    if not okb:
        print("build failed")
        return 2
    world = World(ctx)
    try:
        case = unjson(r["case"])
        res = RUNNERS[case["kind"]](world, case)
        print("argv:", [a.decode("latin-1") for a in case.get("args", [])])
        print("files:", [(f["name"].decode("latin-1"), f["fmt"], f["state"]) for f in case.get("files", [])])
        print("script rc=%d stdout=%r" % (res["rc"], res["stdout"][:300]))
        print("oracle rc=%d stdout=%r" % (res["oracle_rc"], res["oracle_stdout"][:300]))
        print("stderr:", res["stderr"][-300:])
        if res["bad"]:
            print("; ".join(res["bad"]))
            return replaylib.failed(ctx, "C20", r, path)
        print("replay passes")
        return 0
    finally:
        world.cleanup()
