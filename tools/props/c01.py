"""C01 — compression is lossless for every input and every accepted configuration."""
import json, os, re, shutil, subprocess, time
import vlib

META = {
    "category": "proof",
    "text": "Lean theorem rc_roundtrip: for every operation list (adaptive probability bits in any contexts + direct bits) the bytes of the C-style range encoder (rc_shift_low cache/cache_size carry logic, normalisation, 5-byte flush) decode, with the decoder cores of the model decoder, to exactly the encoded bits, first byte 0x00, code = 0 at the end, any trailing bytes untouched (three-layer proof: exact number V(st), V(shift_low st) = 256*V(st) under the interval invariant, decoder coupling invariant). Symbol coder and LZMA2 chunker are executable models. Tie: (a) the REAL encoders (easy/stream/buffer/alone/raw/MicroLZMA/MT, chains with delta+BCJ, preset dictionaries, random slicing, flushes, match-finder offset bias so that normalize() fires) round-trip through the REAL decoders; (b) with the symbol-trace hook the parser's decisions are checked against the data by the model (Describes) and the model's symbol coder + range coder + LZMA2 chunker must reproduce the C bytes EXACTLY; the model decoder decodes the same payloads; the real rc_encode/rc_shift_low/rc_encode_dummy are run against the model on random operation strings; constants, state machine, dist slots, literal contexts, probability update and rc_shift_low boundary states are regenerated from the source and bridged by decide. The encoder-side LZMA2 chunk-closing limits (uncompressed target, compressed limit) are parameters of the chunker model, cut out of the source and evaluated by the compiler on every run; the chunker theorems hold for all limits and a bridge checks that today's values are inside the format's range, so a retune regenerates instead of breaking the tie.",
    "note": "Trusted: Lean kernel + propext/Classical.choice/Quot.sound; the probe that prints Gen/C01.lean; the harness; the C compiler. Not proved: that the C parser (match finders + optimum) always emits a valid description of the data (checked per run on every traced case, and by the round trip); symbol-level and LZMA2-level round-trip theorems are stated in Props/C01.lean as far as proved. The container layers (.xz/.lzma headers, checks, filters) are covered relationally here and by C02/C15. END TO END (Props/C01EndToEnd.lean, namespace XzVerif.C01E2E): the payload contract of C02's container theorems is discharged for the concrete LZMA2/LZMA1 + delta/BCJ models (payload_contract_std_on, uncomp_contract_std, xz_roundtrip_std / _buffer / _mt, alone_roundtrip_std: encoder model then decoder model returns the input, every supported Check); the parser remains abstract under its contract (the executable chunker accepts its trace = the Describes check), which the H2 hook checks per run. ALL INPUTS (Props/C01EndToEndAll.lean): that contract is PROVED for every input for two concrete parsers — all literals, and a run parser that emits matches — (chunker_total, literalParser_accepts, runParser_accepts), so xz_roundtrip_std_literal / _run / *_stateless and c02_hypotheses_discharged_literal have no parser hypothesis; liblzma's own parser stays a per-run check.",
    "technique": "Lean 4 proof over an executable model + regenerated tables + differential correspondence (exact bytes via symbol trace, relational round trip)",
}

HARNESS = ["c01_main.c", "c01_rc.c"]
TU = "src/liblzma/lzma/lzma_encoder.c"
GENS = ["zero", "rnd", "run", "text", "per", "bin", "far", "mix", "inc"]
MFS = ["hc3", "hc4", "bt2", "bt3", "bt4"]
BCJS = ["x86", "powerpc", "ia64", "arm", "armthumb", "arm64", "sparc", "riscv"]
BCJ_ALIGN = {"x86": 1, "powerpc": 4, "ia64": 16, "arm": 4, "armthumb": 2, "arm64": 4, "sparc": 4, "riscv": 2}
CHECKS = [0, 1, 4, 10]
LCLP = [(lc, lp) for lc in range(5) for lp in range(5) if lc + lp <= 4]
NICES = [2, 3, 4, 5, 8, 16, 32, 64, 128, 272, 273]
DEPTHS = [0, 0, 1, 2, 4, 16, 50]
CHUNK = 65536
UNCOMP_MAX = 2097152


# ------------------------------------------------------------------------------------------------
# generators
# ------------------------------------------------------------------------------------------------

def small_size(rng):
    r = rng.random()
    if r < 0.25:
        return rng.choice([0, 1, 2, 3, 4, 5, 15, 16, 17, 255, 256, 257, 4095, 4096, 4097, 8191, 8192, 8193])
    if r < 0.45:
        return rng.randrange(0, 300)
    if r < 0.8:
        return rng.randrange(300, 20000)
    return rng.randrange(20000, 66000)


def lz_opts(rng, size, fast_only=False):
    """Random valid lzma options as key=value list (always explicit dict/lc/lp/pb)."""
    lc, lp = rng.choice(LCLP)
    if rng.random() < 0.35:
        lc, lp = 3, 0
    pb = rng.choice([0, 1, 2, 2, 3, 4])
    d = rng.random()
    if d < 0.3:
        dict_ = 4096
    elif d < 0.45:
        dict_ = rng.choice([4097, 5000, 6144, 8192, 12288, 65536, 65537])
    elif d < 0.6:
        dict_ = max(4096, size + rng.choice([-4097, -4096, -1, 0, 1, 4096]))
    elif d < 0.8:
        dict_ = rng.choice([1 << 16, 1 << 18, 1 << 20])
    else:
        dict_ = max(4096, rng.randrange(1, max(2, size)))
    mode = 1 if fast_only or rng.random() < 0.5 else 2
    mf = rng.choice(MFS)
    nice = rng.choice(NICES)
    depth = rng.choice(DEPTHS)
    if size > 100000:
        depth = rng.choice([0, 1, 2, 4])
        if mode == 2:
            nice = min(nice, 64)
    ks = ["dict=%d" % dict_, "lc=%d" % lc, "lp=%d" % lp, "pb=%d" % pb, "mode=%d" % mode, "mf=%s" % mf, "nice=%d" % nice,
          "depth=%d" % depth]
    return ks, dict(dict=dict_, lc=lc, lp=lp, pb=pb, mode=mode, mf=mf, nice=nice, depth=depth)


def gen_spec(rng, size, kind=None):
    return "gen=%s,%d,%d" % (kind or rng.choice(GENS), rng.randrange(1, 1 << 30), size)


def pd_spec(rng, dict_):
    n = rng.choice([1, 2, 100, 1000, dict_ // 2, dict_ - 1, dict_, dict_ + 1, 2 * dict_ + 3])
    n = max(1, min(n, 300000))
    return "pd=%s,%d,%d" % (rng.choice(["text", "far", "bin", "rnd", "per"]), rng.randrange(1, 1 << 30), n), n


def chain(rng, last, maxn=4):
    n = rng.choice([1, 1, 2, 2, 3, 4])
    n = min(n, maxn)
    fs = []
    for _ in range(n - 1):
        if rng.random() < 0.4:
            fs.append("delta:%d" % rng.choice([1, 2, 3, 4, 16, 255, 256]))
        else:
            b = rng.choice(BCJS)
            if rng.random() < 0.3:
                fs.append("%s:%d" % (b, BCJ_ALIGN[b] * rng.randrange(0, 5000)))
            else:
                fs.append(b)
    return "chain=" + "+".join(fs + [last])


def bias_key(rng, h1, size, pdn=0):
    if not h1 or rng.random() > 0.35:
        return []
    total = size + pdn
    r = rng.random()
    if r < 0.2:
        k = rng.choice([1, 2, 3, 4, 5, 273, 4096, 4097])
    elif r < 0.9:
        k = rng.randrange(1, max(2, total))
    else:
        k = total + rng.randrange(0, 3)
    return ["bias=%d" % max(1, k)]


def slice_key(rng, p=0.5):
    return ["slice=%d" % rng.randrange(1, 1 << 30)] if rng.random() < p else []


def gen_rt(ctx, h1):
    """Relational round-trip lines."""
    rng, quick = ctx.rng, ctx.quick()
    L = []

    def add(api, keys):
        L.append("rt %s %s" % (api, " ".join(keys)))

    # -- systematic part --------------------------------------------------------------------------
    for preset in range(10):                                    # presets x checks (easy)
        for ex in ("", "e") if preset in (0, 3, 6, 9) else ("",):
            size = rng.choice([0, 1, 100, 5000, 30000]) if (ex or preset >= 7) else small_size(rng)
            add("easy", ["preset=%d%s" % (preset, ex), "check=%d" % CHECKS[preset % 4], gen_spec(rng, size)] + slice_key(rng, 0.3))
    for (lc, lp) in LCLP:                                        # every lc/lp, every pb
        for last in ("lzma1", "lzma2"):
            size = rng.randrange(1, 4000)
            add("raw", ["chain=" + last, "dict=4096", "lc=%d" % lc, "lp=%d" % lp, "pb=%d" % rng.randrange(5), "mode=%d" % rng.choice([1, 2]),
                        "mf=%s" % rng.choice(MFS), gen_spec(rng, size, rng.choice(["text", "far", "bin", "mix"]))] + bias_key(rng, h1, size))
    for pb in range(5):
        add("alone", ["dict=4096", "lc=%d" % rng.randrange(4), "lp=0", "pb=%d" % pb, gen_spec(rng, rng.randrange(1, 5000), "far")])
    for mf in MFS:                                               # every mf x mode x some nice/depth
        for mode in (1, 2):
            for nice in rng.sample(NICES, 3 if quick else 6):
                size = rng.randrange(100, 30000)
                add("rawbuf", ["chain=lzma2", "dict=%d" % rng.choice([4096, 65536]), "mode=%d" % mode, "mf=%s" % mf, "nice=%d" % nice,
                               "depth=%d" % rng.choice(DEPTHS), gen_spec(rng, size)] + bias_key(rng, h1, size))
    for b in BCJS:                                               # every BCJ, delta distances
        size = small_size(rng) + 64
        add("sbuf", ["chain=%s+lzma2" % b, "preset=%d" % rng.randrange(4), "check=%d" % rng.choice(CHECKS), gen_spec(rng, size, "bin")])
    for dist in (1, 2, 3, 4, 16, 256):
        add("sbuf", ["chain=delta:%d+lzma2" % dist, "preset=1", gen_spec(rng, small_size(rng), "per")])
    for lim in (6, 7, 8, 9, 10, 16, 64, 100, 1000, 4096):      # MicroLZMA limits
        ks, o = lz_opts(rng, 5000)
        add("micro", ks + ["limit=%d" % lim, gen_spec(rng, rng.choice([0, 1, 2, 5000]))])
    for size in (CHUNK - 1, CHUNK, CHUNK + 1, 61439, 61440, 61441):   # around LZMA2_CHUNK_MAX and the size rule
        for kind in ("rnd", "text"):
            add("raw", ["chain=lzma2", "preset=%d" % rng.randrange(3), "dict=65536", gen_spec(rng, size, kind)] + slice_key(rng, 0.3))
    for th in (1, 2, 3, 4):                                      # MT
        size = rng.randrange(1000, 200000)
        add("mt", ["threads=%d" % th, "block=%d" % rng.choice([4096, 20000, 65536, 0]), "preset=%d" % rng.randrange(3),
                   "check=%d" % rng.choice(CHECKS), gen_spec(rng, size)] + slice_key(rng, 0.6) + (["flush=%d" % rng.randrange(1, 999)] if th % 2 else []))
    # a few big ones: window moves (dict 4096 => buffer ~ 0.53 MiB), LZMA2_UNCOMPRESSED_MAX, long incompressible runs
    bigs = [("raw", ["chain=lzma2", "preset=0", "dict=4096", "mf=hc3", "depth=1", gen_spec(rng, 1300000 + rng.randrange(5000), "mix")]),
            ("raw", ["chain=lzma2", "preset=0", "dict=4096", gen_spec(rng, UNCOMP_MAX + rng.choice([-1, 0, 1, 273]), "zero")]),
            ("raw", ["chain=lzma1", "preset=0", "dict=8192", "mf=bt2", "depth=2", gen_spec(rng, 700000, "far")]),
            ("easy", ["preset=1", gen_spec(rng, 1000000, "inc")])]
    for api, ks in bigs:
        add(api, ks + bias_key(rng, h1, 600000))
    # incompressible data with frequent short matches (bt2, normal mode, big dictionary): LZMA2 falls back to uncompressed
    # chunks while the match finder has read ahead (mf->read_ahead != 0 at the chunk end)
    for _ in range(3 if quick else 30):
        add(rng.choice(["raw", "rawbuf", "sbuf"]), ["chain=lzma2", "dict=%d" % rng.choice([65536, 1 << 20]), "mode=2", "mf=%s" % rng.choice(["bt2", "bt2", "bt3"]),
                    "nice=%d" % rng.choice([8, 16, 32]), "depth=%d" % rng.choice([0, 4]), "pb=%d" % rng.randrange(5),
                    gen_spec(rng, rng.randrange(250000, 450000), rng.choice(["rnd", "rnd", "inc"]))] + slice_key(rng, 0.3))
    # -- handle reuse: stream 1 finished through a small output window, then the SAME lzma_stream re-initialised ---------
    # (per-stream encoder state such as "flush bytes still pending" must not survive the re-initialisation)
    kinds = [("alone", []), ("raw", ["chain=lzma1"]), ("raw", ["chain=lzma1", "eopm=1"]), ("raw", ["chain=lzma1", "eopm=0"]),
             ("raw", ["chain=lzma2"]), ("raw", ["chain=delta:1+lzma2"]), ("stream", ["chain=lzma2"]), ("easy", []), ("mt", ["threads=2", "block=8192", "chain=lzma2"])]
    for (api1, k1) in kinds:
        for osl in (0, 4096, 7, 3, 1):
            # second stream: same kind (same or different lc/lp/pb, dict) or another kind on the same handle
            api2, k2 = (api1, k1) if rng.random() < 0.7 else rng.choice(kinds)
            size1 = rng.randrange(1, 3000) if osl <= 7 and osl else rng.randrange(1, 30000)
            over = []
            if rng.random() < 0.5:
                lc, lp = rng.choice(LCLP)
                over = ["2.lc=%d" % lc, "2.lp=%d" % lp, "2.pb=%d" % rng.randrange(5), "2.dict=%d" % rng.choice([4096, 8192, 65536])]
            keys = ["preset=%d" % rng.randrange(3), "dict=%d" % rng.choice([4096, 65536]), "lc=%d" % rng.randrange(4), "lp=0", "pb=%d" % rng.randrange(5),
                    "check=%d" % rng.choice(CHECKS), "oslice=%d" % osl, "oslice2=%d" % rng.choice([0, 0, 0, 4096, 5, 1]),
                    gen_spec(rng, size1, rng.choice(["text", "far", "bin", "mix", "rnd", "per"])),
                    gen_spec(rng, rng.randrange(0, 20000), rng.choice(["text", "far", "mix"])).replace("gen=", "gen2=")]
            keys += [k for k in k1 if not k.startswith("chain=")] + [k for k in k1 if k.startswith("chain=")]
            keys += ["2." + k for k in k2 if k not in k1] + over
            L.append("reuse %s %s %s" % (api1, api2, " ".join(keys)))
    for _ in range(20 if quick else 400):
        (api1, k1), (api2, k2) = rng.choice(kinds), rng.choice(kinds)
        ks, o = lz_opts(rng, 5000)
        keys = ks + ["check=%d" % rng.choice(CHECKS), "oslice=%d" % rng.choice([0, 4096, 64, 7, 5, 3, 2, 1]), "oslice2=%d" % rng.choice([0, 0, 4096, 7, 1]),
                     gen_spec(rng, rng.randrange(0, 6000)), gen_spec(rng, rng.randrange(0, 20000)).replace("gen=", "gen2=")]
        keys += k1 + ["2." + k for k in k2 if k not in k1]
        L.append("reuse %s %s %s" % (api1, api2, " ".join(keys)))
    # -- the uncompressed fallback of the single-call / threaded Block encoders, by size class ----------------------------
    # incompressible Blocks whose size is an exact multiple of LZMA2_CHUNK_MAX (and its neighbours); the Block Header's
    # Compressed Size / the Index Unpadded Size must be the real sizes
    for k in (1, 2, 3, 13, 16):
        for d in (-1, 0, 1):
            add("blockuncomp", ["check=%d" % rng.choice(CHECKS), gen_spec(rng, max(0, k * CHUNK + d), rng.choice(["rnd", "text", "zero"]))])
    add("blockuncomp", [gen_spec(rng, 0, "zero")])
    for k in ((13, 16) if quick else (13, 14, 16, 17, 32, 40)):
        add("blockbuf", ["preset=0", "check=%d" % rng.choice(CHECKS), gen_spec(rng, k * CHUNK, "rnd")])
        add(rng.choice(["easy", "sbuf"]) if quick else "easy", ["preset=0", "check=%d" % rng.choice(CHECKS), gen_spec(rng, k * CHUNK, "rnd")])
        if not quick:
            add("sbuf", ["chain=%s" % rng.choice(["lzma2", "delta:1+lzma2", "x86+lzma2"]), "preset=0", gen_spec(rng, k * CHUNK + rng.choice([-1, 0, 0, 1]), "rnd")])
    for _ in range(4 if quick else 40):
        add("blockbuf", [chain(rng, "lzma2", 3), "preset=%d" % rng.randrange(3), "check=%d" % rng.choice(CHECKS), gen_spec(rng, small_size(rng))])
    if not quick:
        # threaded encoder: an incompressible Block that does not fit the worker's buffer through the normal LZMA2 path makes
        # the worker fall back to lzma_block_uncomp_encode (needs Blocks of about 17 MiB and more)
        add("mt", ["threads=2", "block=%d" % (384 * CHUNK), "preset=0", "check=1", gen_spec(rng, 384 * CHUNK, "rnd")])
        add("mt", ["threads=1", "block=0", "preset=6", "check=4", gen_spec(rng, 320 * CHUNK + rng.choice([0, 1]), "rnd")])
    # -- random part ------------------------------------------------------------------------------
    n_random = 560 if quick else 4200
    for _ in range(n_random):
        api = rng.choice(["easy", "sbuf", "stream", "alone", "raw", "raw", "rawbuf", "micro", "mt"])
        size = small_size(rng)
        if not quick and rng.random() < 0.06:
            size = rng.choice([CHUNK, 2 * CHUNK, 300000, 600000, 1 << 20, UNCOMP_MAX, 2 * UNCOMP_MAX]) + rng.randrange(-300, 300)
            if rng.random() < 0.15:
                size = rng.randrange(3 << 20, 8 << 20)
        big = size > 200000
        ks, o = lz_opts(rng, size, fast_only=big and rng.random() < 0.7)
        if big:
            ks = [k for k in ks if not k.startswith("nice=")] + ["nice=%d" % rng.choice([8, 32, 64])]
        gen = gen_spec(rng, size)
        pdk, pdn = [], 0
        if api == "easy":
            keys = ["preset=%d%s" % (rng.randrange(10) if size < 40000 else rng.randrange(4), "e" if size < 8000 and rng.random() < 0.15 else ""),
                    "check=%d" % rng.choice(CHECKS), gen] + slice_key(rng, 0.3)
        elif api == "sbuf":
            keys = [chain(rng, "lzma2"), "check=%d" % rng.choice(CHECKS), gen] + ks
        elif api == "stream":
            keys = [chain(rng, "lzma2"), "check=%d" % rng.choice(CHECKS), gen] + ks + slice_key(rng, 0.7) + (
                ["flush=%d" % rng.randrange(1, 1 << 20)] if rng.random() < 0.4 else [])
        elif api == "alone":
            keys = [gen] + ks + slice_key(rng)
        elif api in ("raw", "rawbuf"):
            last = rng.choice(["lzma1", "lzma2", "lzma2"])
            if rng.random() < 0.3:
                pdk, pdn = pd_spec(rng, o["dict"])
                pdk = [pdk]
            keys = [chain(rng, last), gen] + ks + pdk
            if last == "lzma1" and rng.random() < 0.3:
                keys.append("eopm=%d" % rng.randrange(2))
            if api == "raw":
                keys += slice_key(rng) + (["flush=%d" % rng.randrange(1, 1 << 20)] if last == "lzma2" and rng.random() < 0.3 else [])
        elif api == "micro":
            r = rng.random()
            lim = rng.randrange(6, 40) if r < 0.3 else rng.randrange(6, max(7, size)) if r < 0.8 else size + size // 3 + 128 + rng.randrange(64)
            keys = [gen, "limit=%d" % lim] + ks
        else:
            keys = ["threads=%d" % rng.randrange(1, 5), "block=%d" % rng.choice([0, 4096, 5000, 65536, 1 << 20]),
                    "check=%d" % rng.choice(CHECKS), gen] + slice_key(rng, 0.6)
            keys += ["preset=%d" % rng.randrange(4)] if rng.random() < 0.5 else [chain(rng, "lzma2", 3)] + ks
            if rng.random() < 0.3:
                keys.append("flush=%d" % rng.randrange(1, 1 << 20))
            if rng.random() < 0.2:
                keys.append("timeout=%d" % rng.choice([1, 5, 50]))
        if api not in ("easy", "mt"):
            keys += bias_key(rng, h1, size, pdn)
        add(api, keys)
    return L


def gen_trace(ctx, h1, work):
    """Exact-bytes cases: (harness line, [model lines]) with hook H2."""
    rng, quick = ctx.rng, ctx.quick()
    out = []
    idx = [0]

    def add(kind, size, genkind=None, force=None, pd=False, flush=False, limit=None, slice_p=0.4):
        ks, o = lz_opts(rng, size, fast_only=size > 150000)
        if force:
            for k, v in force.items():
                o[k] = v
            ks = ["%s=%s" % (k, o[k]) for k in ("dict", "lc", "lp", "pb", "mode", "mf", "nice", "depth")]
        idx[0] += 1
        prefix = os.path.join(work, "t%05d" % idx[0])
        keys = [gen_spec(rng, size, genkind)] + ks
        pdn = 0
        if pd:
            pdk, pdn = pd_spec(rng, o["dict"])
            keys.append(pdk)
        keys += slice_key(rng, slice_p) + bias_key(rng, h1, size, pdn)
        model = []
        if kind == "lzma2":
            if flush:
                keys.append("flush=%d" % rng.randrange(1, 1 << 20))
            model.append("lzma2 %d %d %d %d %s" % (o["lc"], o["lp"], o["pb"], o["dict"], prefix))
            model.append("dec2 %d %s" % (o["dict"], prefix))
        elif kind == "lzma1":
            eopm = 1
            if rng.random() < 0.25:
                eopm = rng.randrange(2)
                keys.append("eopm=%d" % eopm)
            model.append("lzma1 %d %d %d %d %d 0 0 %s" % (o["lc"], o["lp"], o["pb"], o["dict"], eopm, prefix))
            if eopm == 1:
                model.append("dec1 %d %d %d %d %s" % (o["lc"], o["lp"], o["pb"], o["dict"], prefix))
                if size <= 12000 and pdn <= 12000:
                    # the list-level specification functions of the theorems (quadratic; small cases only)
                    model.append("spec1 %d %d %d %d %s" % (o["lc"], o["lp"], o["pb"], o["dict"], prefix))
        else:
            keys.append("limit=%d" % limit)
            keys = [k for k in keys if not k.startswith("slice=")]
            model.append("lzma1 %d %d %d %d 0 %d 1 %s" % (o["lc"], o["lp"], o["pb"], o["dict"], limit, prefix))
        out.append(("trace %s %s dump=%s" % (kind, " ".join(keys), prefix), model, prefix))

    # systematic: every lc/lp x pb sample, every mf x mode, sizes around the LZMA2 limits
    for (lc, lp) in LCLP:
        add(rng.choice(["lzma1", "lzma2"]), rng.randrange(1, 6000), rng.choice(["text", "far", "bin", "mix"]),
            force=dict(lc=lc, lp=lp, pb=rng.randrange(5)))
    for mf in MFS:
        for mode in (1, 2):
            add("lzma2", rng.randrange(100, 40000), None, force=dict(mf=mf, mode=mode))
    for size in (0, 1, 2, 3, 61439, 61440, CHUNK - 1, CHUNK, CHUNK + 1, 2 * CHUNK + 1):
        add("lzma2", size, rng.choice(["rnd", "inc", "text"]), force=dict(dict=rng.choice([4096, 65536])))
        add("lzma1", min(size, 70000), rng.choice(["rnd", "text", "far"]))
    for lim in (6, 7, 8, 10, 16, 64, 100, 1000, 4096, 30000):
        add("micro", rng.choice([0, 1, 2, 500, 20000]), rng.choice(["text", "far", "rnd", "zero"]), limit=lim)
    for _ in range(6 if quick else 30):
        add("lzma2", rng.randrange(100, 50000), rng.choice(["text", "far", "mix"]), pd=True)
        add("lzma1", rng.randrange(100, 50000), rng.choice(["text", "far", "mix"]), pd=True)
        add("lzma2", rng.randrange(1000, 200000), rng.choice(["inc", "mix", "text", "rnd"]), flush=True)
    # LZMA2_UNCOMPRESSED_MAX: highly compressible data of about 2 MiB (fast settings)
    for size in ([UNCOMP_MAX - 273, UNCOMP_MAX + 1] if quick else
                 [UNCOMP_MAX - 274, UNCOMP_MAX - 273, UNCOMP_MAX - 272, UNCOMP_MAX - 1, UNCOMP_MAX, UNCOMP_MAX + 1, 2 * UNCOMP_MAX + 5]):
        add("lzma2", size, rng.choice(["zero", "per", "run"]), force=dict(dict=4096, mode=1, mf="hc3", depth=1, nice=rng.choice([32, 273])),
            slice_p=0.2)
    # uncompressed chunks followed by LZMA chunks, window moves (dict 4096: the buffer is about 0.53 MiB)
    for _ in range(3 if quick else 25):
        add("lzma2", rng.randrange(150000, 700000 if quick else 1500000), rng.choice(["inc", "mix", "rnd"]),
            force=dict(dict=rng.choice([4096, 8192, 65536]), mode=rng.choice([1, 2]), nice=32, depth=rng.choice([0, 1, 4])))
    # incompressible data with frequent short matches: uncompressed chunks while mf->read_ahead != 0 (position lag afterwards)
    for _ in range(3 if quick else 30):
        add("lzma2", rng.randrange(250000, 450000), rng.choice(["rnd", "rnd", "inc"]),
            force=dict(dict=rng.choice([65536, 1 << 20]), mode=2, mf=rng.choice(["bt2", "bt2", "bt3"]), nice=rng.choice([8, 16, 32]),
                       depth=rng.choice([0, 4]), pb=rng.randrange(5), lp=rng.randrange(3), lc=rng.randrange(3)))
    # random
    for _ in range(300 if quick else 2200):
        r = rng.random()
        size = small_size(rng)
        if not quick and rng.random() < 0.05:
            size = rng.choice([300000, 1 << 20, UNCOMP_MAX, 3 << 20]) + rng.randrange(-500, 500)
        if r < 0.5:
            add("lzma2", size, pd=rng.random() < 0.15, flush=rng.random() < 0.2)
        elif r < 0.8:
            add("lzma1", size, pd=rng.random() < 0.15)
        else:
            rr = rng.random()
            lim = rng.randrange(6, 40) if rr < 0.3 else rng.randrange(6, max(7, size)) if rr < 0.85 else size + size // 3 + 200
            add("micro", size, limit=lim)
    return out


def gen_rc(ctx):
    rng = ctx.rng
    alpha = ["01abcABCpP", "1A", "1", "aA", "0a", "01", "abcdefghijklmnopABCDEFGHIJKLMNOP"]

    def ops(n):
        m = rng.randrange(len(alpha) + 1)
        if m == len(alpha):
            return "".join(rng.choice("aA") if rng.random() < 0.9 else rng.choice("01") for _ in range(n))
        return "".join(rng.choice(alpha[m]) for _ in range(n))

    L = ["rc -"]
    for n in range(1, 40):
        L.append("rc " + ops(n))
    for _ in range(1500 if ctx.quick() else 20000):
        L.append("rc " + ops(rng.randrange(1, 600 if rng.random() < 0.9 else 6000)))
    for _ in range(500 if ctx.quick() else 6000):
        L.append("rcdummy %s %s %d" % (ops(rng.randrange(0, 400)) or "-", ops(rng.randrange(0, 48)) or "-", rng.randrange(0, 80)))
    return L


# ------------------------------------------------------------------------------------------------
# running
# ------------------------------------------------------------------------------------------------

def cut_chunk_limits():
    """The two encoder-side chunk-closing limit EXPRESSIONS, cut out of the working tree (they are tuning knobs: the model
    takes them as parameters, so a retune regenerates Gen/C01.lean instead of breaking the exact-bytes tie)."""
    src2 = open(os.path.join(vlib.REPO, "src/liblzma/lzma/lzma2_encoder.c")).read()
    src1 = open(os.path.join(vlib.REPO, "src/liblzma/lzma/lzma_encoder.c")).read()
    m2 = re.findall(r"const\s+uint32_t\s+left\s*=\s*(.+?)\s*-\s*coder->uncompressed_size\s*;", src2, re.S)
    m1 = re.findall(r"rc_pending\(\s*&coder->rc\s*\)\s*>=\s*(.+?)\)\)\s*break\s*;", src1, re.S)
    if len(m2) != 1 or len(m1) != 1:
        return None, "chunk limit expressions not found exactly once (lzma2_encoder.c `left = X - coder->uncompressed_size`: %d, lzma_encoder.c `rc_pending(&coder->rc) >= Y)) break;`: %d)" % (len(m2), len(m1))
    norm = lambda t: " ".join(re.sub(r"/\*.*?\*/|//[^\n]*", " ", t, flags=re.S).split())
    return (norm(m2[0]), norm(m1[0])), ""


def gen_stage():
    exprs, why = cut_chunk_limits()
    if exprs is None:
        return False, why
    gdir = os.path.join(vlib.CACHE, "gen", "c01inc")
    os.makedirs(gdir, exist_ok=True)
    q = lambda t: '"' + t.replace("\\", "\\\\").replace('"', '\\"') + '"'
    vlib.write_if_changed(os.path.join(gdir, "c01_exprs.h"),
                          "#define C01_TARGET_EXPR (%s)\n#define C01_TARGET_TEXT %s\n#define C01_COMPLIMIT_EXPR (%s)\n#define C01_COMPLIMIT_TEXT %s\n"
                          % (exprs[0], q(exprs[0]), exprs[1], q(exprs[1])))
    return vlib.gen_probe("gen_c01", "gen_c01.c", "XzVerif.Gen.C01", variant="asan", tu=TU,
                          extra=["-I" + gdir, "-ffunction-sections", "-fdata-sections", "-Wl,--gc-sections"])


def lean_stage_retry(ctx, mods, exes):
    """ctx.lean_stage; the axiom audit runs outside the lake lock, so a concurrent check of another property that is rebuilding
    an imported module (the end-to-end theorems import Props of C02/C15) can make it fail with `object file ... does not
    exist`. That is machinery noise, not a verdict: wait and repeat (the build itself is repeated under the lock)."""
    ok = False
    for attempt in range(4):
        nb = len(ctx.broken)
        ok = ctx.lean_stage(mods, exes=exes)
        new = ctx.broken[nb:]
        transient = bool(new) and all(b["name"].startswith("axiom audit missing") and "does not exist" in b["detail"] for b in new)
        if ok or not transient or attempt == 3:
            return ok
        del ctx.broken[nb:]
        ctx.log("axiom audit hit a module that another check was rebuilding; repeating the Lean stage")
        time.sleep(15)
    return ok


def hooks_present(bd):
    rc, out = vlib.sh("nm %s 2>/dev/null | grep -c 'lzma_verif_mf_offset_init\\|lzma_verif_sym_cb'" % os.path.join(bd, "liblzma.a"))
    names = vlib.sh("nm %s 2>/dev/null" % os.path.join(bd, "liblzma.a"))[1]
    return (" lzma_verif_mf_offset_init" in names, " lzma_verif_sym_cb" in names)


def build_harness(h1, h2):
    extra = (["-DC01_HAVE_H1"] if h1 else []) + (["-DC01_HAVE_H2"] if h2 else [])
    return vlib.harness_build("c01", HARNESS, extra=extra, tu=TU)


def run_par(exe, lines, timeout=3000):
    """Run op lines in parallel chunks (interleaved so that big cases spread); returns list of outputs or None entries."""
    n = vlib.NCPU
    parts = [lines[i::n] for i in range(n)]
    res = vlib.par_map(lambda ls: vlib.run_lines([exe], ls, timeout=timeout) if ls else (0, [], ""), parts)
    out = [None] * len(lines)
    errs = []
    for pi, ((rc, o, err), ls) in enumerate(zip(res, parts)):
        for j, ln in enumerate(ls):
            if j < len(o):
                out[pi + j * n] = o[j]
        if rc != 0 or len(o) != len(ls):
            errs.append((pi, rc, err, ls[len(o)] if len(o) < len(ls) else None))
    return out, errs


def classify(line):
    t = line.split()
    d = {"api": t[1] if t[0] != "reuse" else "reuse:%s>%s" % (t[1], t[2])}
    for k in t[2:]:
        if k.startswith("gen="):
            kind, _, size = k[4:].split(",")
            size = int(size)
            d["kind"] = kind
            d["size"] = "0" if size == 0 else "<=16" if size <= 16 else "<=4Ki" if size <= 4096 else "<=64Ki" if size <= 65536 else "<=1Mi" if size <= (1 << 20) else ">1Mi"
        elif k.split("=")[0] in ("bias", "slice", "flush", "pd", "mf", "mode", "chain"):
            d[k.split("=")[0]] = k.split("=")[1] if k.split("=")[0] in ("mf", "mode") else "yes"
    return d


def count_line(ctx, prefix, line):
    d = classify(line)
    ctx.count("%s api=%s" % (prefix, d["api"]))
    ctx.count("%s size %s" % (prefix, d.get("size", "?")))
    ctx.count("%s gen=%s" % (prefix, d.get("kind", "?")))
    for k in ("bias", "slice", "flush", "pd"):
        if k in d:
            ctx.count("%s with %s" % (prefix, k))
    if "mf" in d:
        ctx.count("%s mf=%s" % (prefix, d["mf"]))


def search_roundtrip(ctx, exe, seed_lines, h1):
    """Stage S: direct oracle (real encoder -> real decoder) on configurations derived from the suspicious ones."""
    rng = ctx.rng
    lines = []
    for ln in seed_lines[:6]:
        t = ln.split()
        keys = [k for k in t[2:] if not k.startswith("dump=")]
        base = [k for k in keys if k.split("=")[0] in ("dict", "lc", "lp", "pb", "mode", "mf", "nice", "depth", "pd", "bias")]
        gens = [k for k in keys if k.startswith("gen=")]
        for api, extra in (("raw", ["chain=lzma2"]), ("raw", ["chain=lzma1"]), ("rawbuf", ["chain=lzma2"]), ("alone", []), ("sbuf", ["chain=lzma2"])):
            if api == "alone":
                lines.append("rt alone " + " ".join([k for k in base if not k.startswith("pd=")] + gens))
            else:
                lines.append("rt %s %s" % (api, " ".join(extra + base + gens)))
            for _ in range(6):
                size = small_size(rng) * rng.choice([1, 1, 4, 16])
                lines.append("rt %s %s" % (api if api != "alone" else "raw", " ".join((extra or ["chain=lzma2"]) + base + [gen_spec(rng, size)])))
    lines += gen_rt(ctx, h1)[:400]
    out, errs = run_par(exe, lines)
    found = 0
    for ln, o in zip(lines, out):
        if o is not None and o.startswith("FAIL"):
            ctx.violation("roundtrip-search", {"kind": "real encoder -> real decoder does not reproduce the input (search stage)", "op": ln,
                                               "impl": o, "how_to_replay": "echo '<op>' | .cache/harness-asan/c01"}, True)
            found += 1
            if found >= 3:
                break
    for (pi, rc, err, ln) in errs:
        if ln:
            ctx.violation("harness-abort-search", {"kind": "implementation aborted (sanitizer/assert/crash)", "op": ln, "stderr": err}, True)
            found += 1
    ctx.cov["search"] = {"roundtrip_ops": len(lines), "failing": found}


def run(ctx):
    ctx.cov["rule"] = ("op lines from the seeded PRNG. rc/rcdummy: random operation strings (direct bits, 16 adaptive contexts, carry-prone runs) "
                       "through the real range encoder and the model. rt <api>: real encoder -> real decoder over presets 0-9(e), checks, chains of 1-4 "
                       "filters, lc/lp/pb, mf, mode, nice_len, depth, dict sizes 4 KiB..1 MiB and around the input size, preset dictionaries, random slicing, "
                       "flushes, MicroLZMA limits, MT threads/block sizes, match-finder offset bias (normalize fires mid-data), inputs empty/1 byte/runs/random/"
                       "text/periodic/binary/far-matches/mixtures/incompressible+compressible, sizes around LZMA2_CHUNK_MAX, LZMA2_UNCOMPRESSED_MAX, dict and "
                       "window size. trace: raw LZMA1/LZMA2/MicroLZMA with the symbol-trace hook; the model checks the trace against the data and must "
                       "reproduce the bytes exactly; the model decoder decodes them. non-trivial = non-empty input; distinct by full line")
    ctx.assumptions += [
        "Lean 4 kernel; propext, Classical.choice, Quot.sound",
        "the C compiler; harness/c01_*.c feed the stated configuration to liblzma and compare honestly; gen_c01.c prints what the headers define",
        "the parser (match finders, optimum_fast/normal) is not modelled: its output is checked per traced case (Describes) and by the round trip",
        "MT encoder: round trip only (no trace; the callback is not thread safe)",
    ]
    t0 = time.time()
    # B first (G needs the build's flags)
    okb, log, bd = vlib.c_build("asan", targets=["liblzma"])
    if not okb:
        ctx.obligation_broken("stage B: /repo does not build", log)
        return "proof"
    h1, h2 = hooks_present(bd)
    ctx.cov["hooks"] = {"H1_mf_offset": h1, "H2_symtrace": h2}
    # G
    ok, log = gen_stage()
    if not ok:
        ctx.obligation_broken("stage G: Gen/C01.lean cannot be regenerated from src/liblzma/{lzma,rangecoder}", log)
    # P
    # G (scalar kernels translated from the clang AST): Props/C01Bound.lean is about `lzma2_bound` as the source computes it today
    # (the uncompressed fallback of the Block encoders stores that value as the Compressed Size); kernels bridged for other
    # properties are regenerated along with it but only logged here
    import kernels_stage
    kernels_stage.run_stage(ctx)
    p_ok = lean_stage_retry(ctx, ["XzVerif.Props.C01", "XzVerif.Props.C01Bound", "XzVerif.Props.C01EndToEnd", "XzVerif.Props.C01EndToEndEx",
                                  "XzVerif.Props.C01EndToEndEx2", "XzVerif.Props.C01EndToEndAll"], ["xzm_c01"]) if ok else False
    okh, log, exe = build_harness(h1, h2)
    if not okh:
        ctx.obligation_broken("stage B: C01 harness does not compile against /repo", log)
        return "proof"
    ctx.log("build+lean stages done in %.0fs (hooks H1=%s H2=%s, lean ok=%s)" % (time.time() - t0, h1, h2, p_ok))
    mexe = vlib.model_exe("xzm_c01")
    model_ok = os.path.exists(mexe) and ok
    suspicious = []

    # K1: range coder alone
    rc_lines = gen_rc(ctx)
    c_out, errs = run_par(exe, rc_lines)
    for (pi, rc, err, ln) in errs:
        ctx.violation("harness-abort", {"kind": "implementation aborted (sanitizer/assert/crash)", "op": ln, "stderr": err}, True)
    mism = 0
    if model_ok:
        m_out, merrs = run_par(mexe, rc_lines)
        if merrs:
            ctx.obligation_broken("model driver xzm_c01 failed on range-coder ops", str(merrs)[:2000])
        for ln, a, b in zip(rc_lines, c_out, m_out):
            ctx.case(ln, nontrivial=(ln != "rc -"), sample=None)
            if a != b and a is not None and b is not None:
                mism += 1
                if mism <= 3:
                    ctx.obligation_broken("correspondence C01/rc: real range encoder and model disagree",
                                          json.dumps({"op": ln[:400], "impl": a[:200], "model": b[:200]}))
                    suspicious.append("rt raw chain=lzma2 preset=1 gen=mix,%d,%d" % (ctx.rng.randrange(1 << 20), 50000))
    ctx.count("rc ops", len(rc_lines))
    ctx.log("K1 range coder: %d ops, %d mismatches" % (len(rc_lines), mism))

    # K2: relational round trips
    t1 = time.time()
    rt_lines = gen_rt(ctx, h1)
    rt_out, errs = run_par(exe, rt_lines)
    fails = 0
    for (pi, rc, err, ln) in errs[:4]:
        ctx.violation("harness-abort", {"kind": "implementation aborted (sanitizer/assert/crash) during a round trip", "op": ln, "stderr": err}, True)
    for i, (ln, o) in enumerate(zip(rt_lines, rt_out)):
        count_line(ctx, "rt", ln)
        ctx.case(ln, nontrivial=(",0 " not in ln + " "), sample={"op": ln[:200], "impl": o} if i % 97 == 0 else None)
        if o is None:
            continue
        if o.startswith("FAIL"):
            fails += 1
            if fails <= 5:
                ctx.violation("roundtrip", {"kind": "real encoder -> real decoder does not reproduce the input", "op": ln, "impl": o,
                                            "how_to_replay": "echo '<op>' | .cache/harness-asan/c01"}, True)
        elif not o.startswith("ok"):
            ctx.count("rt generator-rejected/" + o.split()[0])
            if o.startswith("rejected") and " micro " not in ln:
                ctx.obligation_broken("generator produced a configuration liblzma rejects (machinery defect or changed validation)", ln + " -> " + o)
    ctx.log("K2 round trips: %d ops, %d failures, %.0fs" % (len(rt_lines), fails, time.time() - t1))

    # K3: exact bytes through the symbol trace (hook H2); without the hook: the same configurations through `rt raw|micro`
    # with dumped payloads, decoded by the model decoder only
    tr_total = tr_mism = 0
    t2 = time.time()
    wroot = os.path.join(vlib.CACHE, "c01-work")
    os.makedirs(wroot, exist_ok=True)
    for d in os.listdir(wroot):                 # leftovers of interrupted runs
        dp = os.path.join(wroot, d)
        try:
            if time.time() - os.path.getmtime(dp) > 6 * 3600:
                shutil.rmtree(dp, ignore_errors=True)
        except OSError:
            pass
    work = os.path.join(wroot, "seed%d-%s-%d" % (ctx.seed, ctx.tier, os.getpid()))
    shutil.rmtree(work, ignore_errors=True)
    os.makedirs(work, exist_ok=True)
    cases = gen_trace(ctx, h1, work)
    if not h2:
        conv = []
        for (ln, models, prefix) in cases:
            t = ln.split()
            if t[1] == "micro":
                conv.append(("rt micro " + " ".join(t[2:]), [], prefix))
            else:
                conv.append(("rt raw chain=%s %s" % (t[1], " ".join(t[2:])), [m for m in models if m.startswith("dec")], prefix))
        cases = conv
        ctx.log("hook H2 (lzma_verif_sym_cb) is not in the build: exact-bytes tie skipped, model decoder only")
    tr_lines = [c[0] for c in cases]
    tr_out, errs = run_par(exe, tr_lines)
    for (pi, rc, err, ln) in errs[:4]:
        ctx.violation("harness-abort", {"kind": "implementation aborted (sanitizer/assert/crash) during a traced encode", "op": ln, "stderr": err}, True)
    mlines, mowner = [], []
    for ci, ((ln, models, prefix), o) in enumerate(zip(cases, tr_out)):
        count_line(ctx, "trace", ln)
        ctx.case(ln, nontrivial=(",0 " not in ln + " "), sample={"op": ln[:200], "impl": o} if ci % 61 == 0 else None)
        if o is None:
            continue
        if o.startswith("FAIL"):
            fails += 1
            if fails <= 5:
                ctx.violation("roundtrip-traced", {"kind": "real encoder -> real decoder does not reproduce the input", "op": ln, "impl": o}, True)
        elif o.startswith("ok"):
            for m in models:
                mlines.append(m)
                mowner.append(ci)
        elif not (o.startswith("rejected") and " micro " in ln):
            ctx.obligation_broken("trace op not answered with ok", ln + " -> " + o)
    if model_ok and mlines:
        m_out, merrs = run_par(mexe, mlines, timeout=2400 if ctx.quick() else 7200)
        hard = [e for e in merrs if e[1] != 124]
        if hard:
            ctx.obligation_broken("model driver xzm_c01 failed on trace ops", str(hard)[:2000])
        if len(hard) != len(merrs):
            # a timeout of the (slow, list/array based) model under machine load is not a disagreement: the unanswered ops are
            # counted and reported, nothing is concluded from them
            ctx.count("model ops not answered (driver timeout)", sum(1 for o in m_out if o is None))
            ctx.log("model driver timed out on %d ops (machine load); they are not counted as checked" % sum(1 for o in m_out if o is None))
        for m, o, ci in zip(mlines, m_out, mowner):
            if o is None and not hard:
                continue
            tr_total += 1
            ctx.count("model " + m.split()[0])
            if o is None or not o.startswith("ok"):
                tr_mism += 1
                if tr_mism <= 4:
                    keep = os.path.join(ctx.replay_path("trace-files") + ".d")
                    os.makedirs(keep, exist_ok=True)
                    for ext in ("in", "out", "trace", "pd"):
                        src = cases[ci][2] + "." + ext
                        if os.path.exists(src) and os.path.getsize(src) < (4 << 20):
                            shutil.copy(src, keep)
                    what = ("the parser's symbol trace is not a valid description of the data" if (o or "").startswith("DESCRIBES")
                            else "model decoder does not reproduce the input" if m.startswith("dec") else
                            "specification encoder/decoder (the functions of the theorems) disagree with the C bytes" if m.startswith("spec") else
                            "model symbol coder/range coder/LZMA2 chunker does not reproduce the C bytes")
                    ctx.obligation_broken("correspondence C01/trace: " + what,
                                          json.dumps({"op": cases[ci][0], "model_op": m, "model": o, "files": keep}))
                    suspicious.append(cases[ci][0])
    ctx.log("K3 exact bytes: %d traced encodes, %d model checks, %d disagreements, %.0fs" % (len(cases), tr_total, tr_mism, time.time() - t2))
    shutil.rmtree(work, ignore_errors=True)
    ctx.cov["correspondence"] = {"rc_ops": len(rc_lines), "rc_mismatches": mism, "roundtrip_ops": len(rt_lines), "roundtrip_failures": fails,
                                 "traced_model_checks": tr_total, "traced_disagreements": tr_mism, "model_ran": bool(model_ok)}
    # S
    if ctx.broken and not any(f for _, f in ctx.violations):
        search_roundtrip(ctx, exe, suspicious, h1)
    return "proof"


def replay(ctx, path):
    import replaylib
    r = replaylib.load(ctx, path)
    if not r.get("op"):
        return replaylib.obligations("C01", run, r, path)
    okb, log, bd = vlib.c_build("asan", targets=["liblzma"])
    h1, h2 = hooks_present(bd)
    okh, log, exe = build_harness(h1, h2)
    op = r.get("op")
    if not op:
        print("replay file names proof obligations / correspondences that no longer check:")
        print(json.dumps(r.get("no_longer_checks", r), indent=1)[:3000])
        print("VIOLATION property=C01 replay=%s no-failing-input-found" % path)
        return 1
    op = re.sub(r" dump=\S+", "", op)
    if op.startswith("trace "):
        op = "rt raw chain=%s %s" % (op.split()[1] if op.split()[1] != "micro" else "lzma1", " ".join(op.split()[2:])) if op.split()[1] != "micro" else "rt micro " + " ".join(op.split()[2:])
    rc, out, err = vlib.run_lines([exe], [op])
    print("op:", op[:300])
    print("impl:", out, err[-1500:] if rc != 0 else "")
    if rc != 0 or not out or not out[0].startswith("ok"):
        print("VIOLATION property=C01 replay=%s" % path)
        return 1
    print("replay passes")
    return 0
