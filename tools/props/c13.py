"""C13 — the Index and file-info APIs describe files exactly; random access is correct."""
import json, os
import vlib
import kernels_stage
import c13ref as R

META = {
    "category": "proof",
    "text": "Lean theorems over two executable models of src/liblzma/common/index.c: an abstract list-of-records spec (Index = List StreamRec) and a concrete model with Stream/group trees, cumulative sums, number bases, the Check mask, the count-driven tree append, cat/dup and the iterator: the concrete model refines the spec for every history of append/stream_flags/stream_padding/cat/dup, failing operations leave the index unchanged, the sequential tree append keeps the in-order sequence and (for every count < 2^32) the exact spine shape with height <= floor(log2 count)+1, the concrete locate (tree descent + binary search) and the concrete iterator (all modes, ITER_METHOD_* indirection, also across an append/cat between two next calls) equal the spec's locate/iterate, locate returns the unique non-empty Block containing the offset, the Index field codec round-trips, and the backward parser of file_info.c returns exactly the cat of the Streams' indexes (flags and padding set) on every well-formed multi-Stream file built from the container encoders; scalar kernels and constants are regenerated from the source and bridged by `decide`. Tie: random op histories (values near every limit, group boundaries 512+-1, stream-tree rotation counts 2^k+-1, empty Blocks, malformed Index fields, generated multi-Stream files for lzma_file_info_decoder with many read sizes) run against the real lzma_index_* API, the Lean model driver and an independent Python list-of-records reference; all getters and full iterations must agree. Real multi-Stream/multi-Block files made by the repo's xz: every Block located through the file-info index is decoded on its own (by Python's lzma module) and must equal its range of the data, and the model's Block decoder (RandomAccess.blockAt over the model of the real raw decoder) started at the same offsets must return the same ranges; `xz --list --robot -vv` must show the same figures. random_access (theorem): for every file given as Streams of declarative Blocks, the whole-file decoder yields the Blocks' data in order and, for every Block the file-info index lists (and every locate target), the Block decoder started at the listed compressed offset returns exactly the listed range of that data.",
    "note": "Trusted: Lean kernel + propext/Classical.choice/Quot.sound; the probe harness/gen_c13.c; the harness; the C compiler; memory safety of the C code only as observed by ASan/UBSan/asserts. LZMA_BACKWARD_SIZE_MAX rules are proved in the model and bridged as constants but cannot be reached by a run (needs ~10^9 Records). random_access is proved over the container decoder model of C05 (Model/XzDecode.lean) for files described Block by Block (declarative Blocks, any payload decoder with PayloadLocal; output capacity threaded explicitly); its Block-at-offset function is also run on the real files (model_blockat). Not proved: the chunked/seeking state machine of file_info.c (only whole-file semantics in Lean), parent links of the tree (not in the functional model).",
    "technique": "Lean 4 proof over an executable model + regenerated constants/kernels + differential correspondence + Python reference oracle",
}

HARNESS = ["c13_main.c"]
TU = "src/liblzma/common/index.c"
VM, UM = R.VLI_MAX, R.UNPADDED_MAX
VLI_EDGES = [127, 128, 16383, 16384, 2097151, 2097152, 268435455, 268435456, (1 << 35) - 1, 1 << 35, (1 << 42) - 1, 1 << 42,
             (1 << 49) - 1, 1 << 49, (1 << 56) - 1, 1 << 56]


# ---------------------------------------------------------------------------------------------
# history generator (steered by the Python reference, which is advanced op by op)
# ---------------------------------------------------------------------------------------------

class Hist:
    """One op history. `ops` are the lines, `exp` the reference's expected output lines (None = not predicted)."""

    def __init__(self, ctx, kind, finfo_expect):
        self.ctx, self.kind = ctx, kind
        self.ref = R.Ref()
        self.ref.finfo_expect = finfo_expect
        self.ops, self.exp = [], []
        self.do("reset")
        # half of the histories run all their stream-based ops (encodes/decodes/finfo) on ONE long-lived lzma_stream that is
        # re-initialised without lzma_end() after success, mid-stream abandon or error of the previous op
        self.do("reuse %d" % (1 if ctx.rng.random() < 0.5 else 0))

    def do(self, line):
        e = self.ref.op(line)
        self.ops.append(line)
        self.exp.append(e)
        self.ctx.count("op:" + line.split()[0])
        if e is not None and e.split()[0] in ("9", "11", "8", "5", "6", "10", "7"):
            self.ctx.count("ret:" + e.split()[0] + ":" + line.split()[0])
        return e

    def live(self):
        return [k for k in range(8) if self.ref.idx[k] is not None]


def pick_u(rng, ix=None):
    r = rng.random()
    if r < 0.45:
        return rng.randrange(5, 300)
    if r < 0.55:
        return rng.choice([5, 6, 7, 8, 9])
    if r < 0.70:
        return max(5, rng.choice(VLI_EDGES) + rng.randrange(-1, 2))
    if r < 0.78:
        return rng.choice([UM, UM - 4, UM - 1, UM + 1, VM, UM // 2, (UM // 2) + 4, 1 << 62])
    if r < 0.83:
        return rng.choice([0, 1, 4, R.U64 - 1, 1 << 63])
    if ix is not None and r < 0.95:
        # around the largest Unpadded Size that still fits into the file / Stream
        s = ix[-1]
        room = min(UM - s.bsize, VM - R.file_size(ix) - 8)
        return max(0, room + rng.randrange(-12, 8))
    return rng.randrange(5, 1 << rng.randrange(4, 63))


def pick_c(rng, ix=None):
    r = rng.random()
    if r < 0.15:
        return 0
    if r < 0.50:
        return rng.randrange(1, 100000)
    if r < 0.62:
        return rng.choice(VLI_EDGES) + rng.randrange(-1, 2)
    if r < 0.70:
        return rng.choice([VM, VM - 1, VM + 1, 1 << 62, (1 << 62) - 1, VM // 2, R.U64 - 1])
    if ix is not None and r < 0.92:
        room = VM - max(R.uncompressed_size(ix), 0)
        if rng.random() < 0.3:
            room = VM - ix[-1].usize
        return max(0, room + rng.randrange(-2, 3))
    return rng.randrange(0, 1 << rng.randrange(1, 64))


def pick_padding(rng, ix):
    r = rng.random()
    if r < 0.35:
        return 4 * rng.randrange(0, 8)
    if r < 0.45:
        return rng.choice([1, 2, 3, 5, 7, VM, VM - 1, VM - 2, R.U64 - 4, 1 << 63])
    if r < 0.60:
        return rng.choice([VM - 3, 1 << 62, 1 << 61, 8192, 8196])
    room = (VM - (R.file_size(ix) - ix[-1].padding)) & ~3
    return max(0, room + 4 * rng.randrange(-3, 3))


def pick_flags(rng):
    r = rng.random()
    ver = 0 if r < 0.9 else rng.choice([1, 2, 0xFFFFFFFF])
    chk = rng.choice([0, 1, 4, 10]) if rng.random() < 0.7 else rng.randrange(0, 18)
    q = rng.random()
    if q < 0.4:
        bsz = R.VLI_UNKNOWN
    elif q < 0.8:
        bsz = 4 * rng.randrange(1, 1000)
    else:
        bsz = rng.choice([0, 2, 4, 6, R.BACKWARD_MAX, R.BACKWARD_MAX + 4, R.BACKWARD_MAX - 4, VM])
    return "%d %d %d" % (ver, bsz, chk)


def locate_targets(rng, ix, n=6):
    """Offsets at and around every kind of boundary of the index."""
    tot = R.uncompressed_size(ix)
    cands = [0, tot, tot - 1, tot + 1, VM, R.U64 - 1]
    off = 0
    bounds = []
    for s in ix:
        bounds.append(off)
        o = off
        for _, c in s.blocks[:2000]:
            o += c
            bounds.append(o)
        off += s.usize
    for _ in range(n):
        if bounds:
            b = rng.choice(bounds)
            cands.append(b + rng.choice([-1, 0, 0, 1]))
        if tot > 0:
            cands.append(rng.randrange(tot))
    rng.shuffle(cands)
    return [max(0, c) for c in cands[:n]]


def dump(h, k, rng, full=True):
    h.do("sum %d" % k)
    ix = h.ref.idx[k]
    if ix is None:
        return
    modes = [0, 1, 2, 3] if full else [rng.choice([0, 1, 2, 3])]
    for m in modes:
        h.do("iter %d %d" % (k, m))
    for t in locate_targets(rng, ix, 4 if full else 2):
        h.do("locate %d %d" % (k, t))


def h_random(ctx, rng, fe, nops):
    h = Hist(ctx, "random", fe)
    for k in range(rng.randrange(1, 4)):
        h.do("init %d" % k)
    for _ in range(nops):
        live = h.live()
        r = rng.random()
        if not live or r < 0.06:
            h.do("init %d" % rng.randrange(8))
            continue
        k = rng.choice(live)
        ix = h.ref.idx[k]
        if r < 0.50:
            if rng.random() < 0.8:
                # mostly valid small Blocks so that the histories grow
                if rng.random() < 0.7:
                    h.do("append %d %d %d" % (k, rng.randrange(5, 200), rng.choice([0, 0, 1, rng.randrange(1, 5000)])))
                else:
                    h.do("append %d %d %d" % (k, pick_u(rng, ix), pick_c(rng, ix)))
            else:
                h.do("appendn %d %d %d %d" % (k, rng.randrange(1, 40), rng.randrange(5, 100), rng.randrange(0, 50)))
        elif r < 0.58:
            h.do("flags %d %s" % (k, pick_flags(rng)))
        elif r < 0.66:
            h.do("padding %d %d" % (k, pick_padding(rng, ix)))
        elif r < 0.78:
            s = rng.randrange(8)
            if h.ref.idx[s] is None and rng.random() < 0.7:
                h.do("init %d" % s)
                if rng.random() < 0.7:
                    h.do("append %d %d %d" % (s, rng.randrange(5, 200), pick_c(rng, None) if rng.random() < 0.3 else rng.randrange(0, 300)))
                if rng.random() < 0.5:
                    h.do("flags %d 0 %d %d" % (s, R.VLI_UNKNOWN, rng.choice([0, 1, 4, 10, rng.randrange(16)])))
            h.do("cat %d %d" % (k, s))
        elif r < 0.84:
            h.do("dup %d %d" % (rng.randrange(8), k))
        elif r < 0.88:
            h.do("encode %d %d" % (k, rng.choice([0, 0, 0, 1, 5, -1, -4, -1000])))
        elif r < 0.90:
            h.do("encodes %d %d" % (k, rng.choice([1, 2, 3, 5, 64])))
        elif r < 0.93:
            enc = R.index_encode(ix)
            if len(enc) < 60000:
                h.do("decode %d %d %s" % (rng.randrange(8), rng.choice([1 << 30, 1 << 40, R.U64 - 1]), enc.hex()))
        else:
            dump(h, k, rng, full=rng.random() < 0.3)
    for k in h.live():
        dump(h, k, rng)
    return h


def h_groups(ctx, rng, fe, big):
    """Group boundary INDEX_GROUP_SIZE +-1, decode's prealloc, dup's single group, cat's shrinking of the last group."""
    h = Hist(ctx, "groups", fe)
    g = R.K["indexGroupSize"]
    h.do("init 0")
    n0 = rng.choice([g - 2, g - 1, g, g + 1, 2 * g - 1, 2 * g, 2 * g + 1]) if not big else rng.choice([3, 4, 5, 7, 8, 9, 15, 16, 17, 31, 32, 33]) * g + rng.choice([-1, 0, 1])
    done = 0
    while done < n0:
        n = min(n0 - done, rng.choice([1, 2, 3, 100, g - 1, g, g + 1, 3 * g]))
        if rng.random() < 0.5:
            h.do("appendn 0 %d %d %d" % (n, rng.randrange(5, 60), rng.choice([0, 1, 7, 1000])))
            done += n
        else:
            h.do("append 0 %d %d" % (rng.randrange(5, 60), rng.choice([0, 0, 3, 99])))
            done += 1
    dump(h, 0, rng)
    # locate exactly around the group boundaries
    ix = h.ref.idx[0]
    o, marks = 0, []
    for i, (_, c) in enumerate(ix[0].blocks):
        if (i % g) in (0, 1, g - 1):
            marks += [o - 1, o, o + c - 1, o + c]
        o += c
    for t in rng.sample(marks, min(len(marks), 12)):
        h.do("locate 0 %d" % max(0, t))
    h.do("dup 1 0")
    h.do("appendn 1 %d 9 4" % rng.choice([1, 2, g - 1, g, g + 1]))
    dump(h, 1, rng, full=False)
    h.do("encode 0 0")
    enc = R.index_encode(ix)
    h.do("decode 2 %d %s" % (1 << 40, enc.hex()))
    h.do("appendn 2 %d 11 0" % rng.choice([1, g, g + 1]))
    dump(h, 2, rng, full=False)
    h.do("decodes 3 %d %d %s" % (1 << 40, rng.choice([1, 2, 7, 4096]), enc.hex()))
    h.do("iter 3 2")
    # cat shrinks the half-filled last group of 0; appending afterwards starts a new group in the NEW last Stream
    h.do("init 4")
    h.do("appendn 4 %d 13 5" % rng.choice([0, 1, 3, g, g + 1]))
    h.do("flags 4 0 %d 4" % R.VLI_UNKNOWN)
    h.do("iinit 0 0")
    for _ in range(rng.randrange(0, 4)):
        h.do("inext 0 %d" % rng.choice([2, 3, 0]))
    h.do("cat 0 4")
    h.do("appendn 0 %d 17 2" % rng.choice([1, 2, g + 1]))
    for _ in range(6):
        h.do("inext 0 %d" % rng.choice([2, 3, 0, 1]))
    dump(h, 0, rng, full=not big)
    return h


def h_cats(ctx, rng, fe, k):
    """k Streams joined by small cats (stream-tree rotations at counts 2^j+-1), some sources with several Streams."""
    h = Hist(ctx, "cats", fe)
    h.do("init 0")
    if rng.random() < 0.7:
        h.do("append 0 %d %d" % (rng.randrange(5, 50), rng.randrange(0, 9)))
    streams = 1
    while streams < k:
        m = 1 if rng.random() < 0.8 else min(k - streams, rng.choice([2, 3, 4, 5, 8]))
        # build a source index with m Streams in slot 1 (through slot 2)
        h.do("init 1")
        for j in range(m):
            tgt = 1 if j == 0 else 2
            if j > 0:
                h.do("init 2")
            q = rng.random()
            if q < 0.25:
                pass                                   # Stream without Blocks
            elif q < 0.8:
                h.do("append %d %d %d" % (tgt, rng.randrange(5, 40), rng.choice([0, 1, 2, 100])))
            else:
                h.do("appendn %d %d %d %d" % (tgt, rng.randrange(2, 6), rng.randrange(5, 40), rng.choice([0, 3])))
            if rng.random() < 0.4:
                h.do("flags %d 0 %d %d" % (tgt, R.VLI_UNKNOWN, rng.choice([0, 1, 4, 10])))
            if rng.random() < 0.3:
                h.do("padding %d %d" % (tgt, 4 * rng.randrange(0, 5)))
            if j > 0:
                h.do("cat 1 2")
        h.do("cat 0 1")
        streams += m
        if rng.random() < 0.02:
            h.do("iter 0 1")
    dump(h, 0, rng)
    h.do("dup 3 0")
    dump(h, 3, rng, full=False)
    return h


def h_limits(ctx, rng, fe):
    """Histories aimed at LZMA_VLI_MAX / UNPADDED_SIZE_MAX / file-size limits; every failing op is followed by a dump."""
    h = Hist(ctx, "limits", fe)
    h.do("init 0")
    if rng.random() < 0.35:
        # a refused lzma_index_stream_padding() must leave the earlier NON-ZERO padding in place
        for _ in range(rng.randrange(0, 3)):
            h.do("append 0 %d %d" % (rng.randrange(5, 100), rng.randrange(0, 1000)))
        h.do("padding 0 %d" % (4 * rng.randrange(1, 3000)))
        h.do("padding 0 %d" % rng.choice([VM & ~3, (VM & ~3) - 4 * rng.randrange(0, 12), 1 << 62]))
        h.do("sum 0")
        h.do("iter 0 1")
        h.do("init 1")
        h.do("append 1 9 9")
        h.do("cat 0 1")
        h.do("iter 0 0")
    for _ in range(rng.randrange(4, 30)):
        live = h.live()
        k = rng.choice(live)
        ix = h.ref.idx[k]
        r = rng.random()
        if r < 0.45:
            e = h.do("append %d %d %d" % (k, pick_u(rng, ix), pick_c(rng, ix)))
        elif r < 0.65:
            e = h.do("padding %d %d" % (k, pick_padding(rng, ix)))
        elif r < 0.75:
            e = h.do("flags %d %s" % (k, pick_flags(rng)))
        elif r < 0.95:
            s = rng.choice([1, 2, 3])
            h.do("init %d" % s)
            for _ in range(rng.randrange(0, 3)):
                h.do("append %d %d %d" % (s, pick_u(rng, h.ref.idx[s]), pick_c(rng, h.ref.idx[s])))
            if rng.random() < 0.5:
                h.do("padding %d %d" % (s, pick_padding(rng, h.ref.idx[s])))
            e = h.do("cat %d %d" % (k, s))
        else:
            e = h.do("dup %d %d" % (rng.randrange(4, 8), k))
        if e and not e.startswith("0 ") and rng.random() < 0.5:
            dump(h, k, rng, full=False)
    for k in h.live():
        dump(h, k, rng, full=rng.random() < 0.5)
    h.do("memusage %d %d" % (rng.choice([0, 1, 2, 1000, 0xFFFFFFFF, 1 << 32, VM]), pick_c(rng)))
    return h


def mutate(rng, data):
    b = bytearray(data)
    r = rng.random()
    if r < 0.35 and b:
        i = rng.randrange(len(b))
        b[i] ^= 1 << rng.randrange(8)
    elif r < 0.5 and b:
        i = rng.randrange(len(b))
        b[i] = rng.choice([0, 0x80, 0xFF, 0x7F, 1])
    elif r < 0.65:
        b = b[:rng.randrange(len(b) + 1)]
    elif r < 0.75:
        b += bytes(rng.getrandbits(8) for _ in range(rng.randrange(1, 6)))
    elif r < 0.85 and len(b) > 1:
        i = rng.randrange(len(b))
        del b[i]
    else:
        i = rng.randrange(len(b) + 1)
        b.insert(i, rng.choice([0, 0x80, 0xFF, rng.getrandbits(8)]))
    return bytes(b)


def raw_index(rng, recs, count=None, fix_crc=True, pad=None):
    """Hand-assembled Index field for arbitrary (also impossible) Records."""
    import zlib
    body = bytearray([0]) + R.vli_bytes(len(recs) if count is None else count)
    for u, c in recs:
        body += R.vli_bytes(u) + R.vli_bytes(c)
    body += b"\0" * (((4 - len(body)) & 3) if pad is None else pad)
    crc = zlib.crc32(bytes(body)) & 0xFFFFFFFF
    if not fix_crc:
        crc ^= 1 << rng.randrange(32)
    return bytes(body) + crc.to_bytes(4, "little")


def h_codec(ctx, rng, fe):
    h = Hist(ctx, "codec", fe)
    h.do("init 0")
    for _ in range(rng.randrange(0, 12)):
        h.do("append 0 %d %d" % (rng.choice([rng.randrange(5, 300), max(5, rng.choice(VLI_EDGES) + rng.randrange(-1, 2))]),
                                 rng.choice([0, rng.randrange(100000), rng.choice(VLI_EDGES) + rng.randrange(-1, 2)])))
    if rng.random() < 0.3:
        h.do("init 1")
        h.do("append 1 8 8")
        h.do("cat 0 1")
    h.do("encode 0 %d" % rng.choice([0, 0, 3, -1]))
    h.do("encodes 0 %d" % rng.choice([1, 2, 3, 4, 7, 1000]))
    enc = R.index_encode(h.ref.idx[0])
    lims = [0, 1, 407, 408, 8695, 8696, 8697, 1 << 20, 1 << 40, R.U64 - 1]
    h.do("decode 1 %d %s" % (rng.choice(lims), enc.hex()))
    dump(h, 1, rng, full=False)
    h.do("decodes 2 %d %d %s" % (rng.choice(lims), rng.choice([1, 2, 3, 5, 100]), enc.hex()))
    dump(h, 2, rng, full=False)
    for _ in range(rng.randrange(3, 10)):
        r = rng.random()
        if r < 0.5:
            data = mutate(rng, enc)
            if rng.random() < 0.3:
                data = mutate(rng, data)
        elif r < 0.8:
            # syntactically fine Index fields whose Records break a limit (or not)
            recs = [(pick_u(rng), pick_c(rng)) for _ in range(rng.randrange(0, 5))]
            recs = [(min(max(u, rng.choice([0, 5, 5, 5])), VM), min(c, VM)) for u, c in recs]
            data = raw_index(rng, recs, fix_crc=rng.random() < 0.9,
                             count=None if rng.random() < 0.8 else rng.choice([0, len(recs) + 1, 1 << 40, 1 << 62, VM, 1 << 25, 1 << 24, (1 << 24) + 513]),
                             pad=None if rng.random() < 0.9 else rng.randrange(0, 5))
        else:
            data = bytes(rng.getrandbits(8) if rng.random() < 0.6 else 0 for _ in range(rng.randrange(0, 24)))
        ml = rng.choice([1 << 30, 1 << 30, R.U64 - 1, 8696, 408, 0])
        if rng.random() < 0.5:
            h.do("decode 3 %d %s" % (ml, R.hexs(data)))
        else:
            h.do("decodes 3 %d %d %s" % (ml, rng.choice([1, 2, 3, 64]), R.hexs(data)))
        if h.ref.idx[3] is not None:
            dump(h, 3, rng, full=False)
    return h


def h_iters(ctx, rng, fe):
    """Persistent iterators with mixed modes, interleaved with append/cat on the same index, locate then next."""
    h = Hist(ctx, "iters", fe)
    h.do("init 0")
    h.do("init 1")
    for _ in range(rng.randrange(10, 60)):
        r = rng.random()
        k = rng.choice(h.live() or [0])
        if h.ref.idx[k] is None:
            h.do("init %d" % k)
        if r < 0.25:
            h.do("append %d %d %d" % (k, rng.randrange(5, 100), rng.choice([0, 0, 1, 5, 1000])))
        elif r < 0.30:
            s = rng.choice([2, 3])
            h.do("init %d" % s)
            for _ in range(rng.choice([0, 0, 1, 2, 3])):
                h.do("append %d %d %d" % (s, rng.randrange(5, 100), rng.choice([0, 2, 50])))
            h.do("cat %d %d" % (k, s))
        elif r < 0.40:
            h.do("iinit %d %d" % (rng.randrange(4), k))
        elif r < 0.85:
            h.do("inext %d %d" % (rng.randrange(4), rng.choice([0, 1, 2, 2, 3, 3, 4, 7])))
        elif r < 0.93:
            ix = h.ref.idx[k]
            t = rng.randrange(4)
            it = h.ref.iters[t]
            if it is not None and h.ref.idx[it[0]] is not None:
                ix = h.ref.idx[it[0]]
            h.do("ilocate %d %d" % (t, locate_targets(rng, ix, 1)[0]))
        elif r < 0.96:
            h.do("irewind %d" % rng.randrange(4))
        else:
            h.do("cat 0 1") if rng.random() < 0.5 else h.do("dup 1 0")
    for k in h.live():
        dump(h, k, rng, full=False)
    return h


def gen_file_index(rng, nstreams, bigpad):
    ix = []
    for _ in range(nstreams):
        s = R.Stream()
        s.flags = (0, 0, rng.choice([0, 1, 4, 10, rng.randrange(16)]))
        for _ in range(rng.choice([0, 1, 1, 2, 3, rng.randrange(0, 40)])):
            s.add(rng.randrange(5, 120), rng.choice([0, rng.randrange(1, 1 << 20), rng.randrange(1, 1 << 40)]))
        s.padding = 4 * rng.choice([0, 0, 0, 1, 2, 5])
        if bigpad and rng.random() < 0.3:
            s.padding = 4 * rng.choice([2045, 2046, 2047, 2048, 2049, 2050, 4096, 4097, 5000])
        ix.append(s)
    for s in ix:
        s.flags = (0, R.index_size(len(s.blocks), s.lsize), s.flags[2])
    return ix


def sized_stream(rng, span, padding):
    """A Stream (one junk Block + possibly a few small ones) that occupies exactly `span` bytes, followed by `padding`."""
    s = R.Stream()
    s.flags = (0, 0, rng.choice([0, 1, 4, 10]))
    for _ in range(rng.randrange(0, 3)):
        s.add(rng.randrange(5, 40), rng.randrange(0, 100))
    # one more Block fills the rest: span = 24 + bsize + index_size
    for u in range(max(5, span - s.csize() - 40), span):
        t = s.copy()
        t.add(u, rng.randrange(0, 1000))
        if t.csize() == span:
            t.padding = padding
            return t
    return None


def gen_window_file(rng):
    """Layouts around the 8 KiB temp window of file_info.c: the window that ends at EOF (or at the start of the last Stream)
    begins inside / at the edges of the Stream Padding of the previous Stream."""
    pad = 4 * rng.choice([1, 2, 3, 4, 8])
    tail_pad = 4 * rng.choice([0, 0, 1, 2])
    k = rng.choice([1, 1, 2])
    target = k * 8192 + 12 * (k - 1) - tail_pad + 4 * rng.randrange(-(pad // 4) - 2, 3)
    b = sized_stream(rng, target, tail_pad)
    if b is None or target < 64:
        return None
    a = gen_file_index(rng, rng.choice([1, 2]), False)
    a[-1].padding = pad
    ix = a + [b]
    if rng.random() < 0.3:
        ix += gen_file_index(rng, 1, False)
    for s in ix:
        s.flags = (0, R.index_size(len(s.blocks), s.lsize), s.flags[2])
    return ix


def h_finfo(ctx, rng, fe, thorough):
    h = Hist(ctx, "finfo", fe)
    ix = None
    if rng.random() < 0.3:
        ix = gen_window_file(rng)
        if ix is not None:
            ctx.count("finfo:window-aligned-layout")
    if ix is None:
        ix = gen_file_index(rng, rng.choice([1, 1, 2, 3, 4, rng.randrange(1, 9)]), bigpad=rng.random() < (0.5 if thorough else 0.25))
    data = R.build_file(ix, rng)
    hx = data.hex()
    chunks = [len(data) + 5, 1, rng.choice([2, 3, 5, 7, 12, 13]), rng.choice([64, 100, 1000, 4096, 8191, 8192, 8193])]
    if len(data) > 30000:
        chunks = [len(data), rng.choice([511, 4096, 8192]), rng.choice([7000, 8193, 20000])]
    first = None
    for ci, ch in enumerate(chunks):
        seed = 0 if ci < 2 or rng.random() < 0.5 else rng.randrange(1, 1 << 30)
        line = "finfo %d %d %d %d %s" % (ci % 4, 1 << 40, ch, seed, hx)
        fe[line] = ix
        h.do(line)
        if first is None:
            first = ci % 4
            dump(h, first, rng, full=rng.random() < 0.5)
    # the ACTION protocol: "action = eof ? LZMA_FINISH : LZMA_RUN" (eof known from the size / from a short read) must give
    # the whole-buffer result for every read size, also when LZMA_SEEK_NEEDED follows the read that reached the end of the file
    if len(data) <= 30000:
        sizes = [1, 7, 64, 4096, len(data), len(data) + 3, rng.choice([2, 3, 12, 13, 100, 8192, 8193])]
    else:
        sizes = [rng.choice([7, 64]), 4096, len(data), rng.choice([8192, 8193, 20000])]
    for ch in sizes:
        for opn in (("finfof", "finfog") if rng.random() < 0.7 else (rng.choice(["finfof", "finfog"]),)):
            line = "%s %d %d %d %d %s" % (opn, rng.randrange(4), 1 << 40, ch, 0 if rng.random() < 0.7 else rng.randrange(1, 1 << 30), hx)
            fe[line] = ix
            h.do(line)
            ctx.count("finfo:finish-at-eof chunk%s" % ("<file" if ch < len(data) else ">=file"))
    # stale per-file state: an abandoned or failed decoding that had already counted Stream Padding, then another file on the
    # SAME lzma_stream (only meaningful in the `reuse 1` half of the histories; harmless otherwise)
    if rng.random() < 0.6:
        ix3 = [x.copy() for x in ix]
        ix3[-1].padding = 4 * rng.choice([1, 2, 3, 2047, 2048, 2049, 2050, 4100])
        d3 = R.build_file(ix3, rng)
        kind = rng.random()
        if kind < 0.4:
            # abandoned at the second seek request (big padding: the first 8 KiB window was all padding)
            h.do("finfoa 6 %d %d 0 %s" % (1 << 40, rng.choice([1, 7, 64, 4096]), d3.hex()))
        elif kind < 0.8:
            # fails after the padding was counted: Stream Footer magic / CRC32 / Backward Size damaged
            bad = bytearray(d3)
            fpos = len(d3) - ix3[-1].padding - 1 - rng.randrange(12)
            bad[fpos] ^= 1 << rng.randrange(8)
            h.do("%s 6 %d %d 0 %s" % (rng.choice(["finfo", "finfof"]), 1 << 40, rng.choice([1, 7, 64, 4096, len(bad)]), bytes(bad).hex()))
        else:
            # memory limit error in the middle
            h.do("finfo 6 %d %d 0 %s" % (rng.choice([1, 408, 500]), rng.choice([7, 64, len(d3)]), d3.hex()))
        ctx.count("finfo:second-file-after-abandoned-or-failed-decode")
        for opn, ch in ((rng.choice(["finfo", "finfof", "finfog"]), rng.choice([1, 7, 64, 4096, len(data)])),
                        ("finfo", len(data))):
            line = "%s 7 %d %d 0 %s" % (opn, 1 << 40, ch, hx)
            fe[line] = ix
            h.do(line)
            h.do("iter 7 1")
    # memory limit
    line = "finfo 4 %d %d 0 %s" % (rng.choice([0, 407, 408, 500, 8696, 8992, 9000, 20000]), rng.choice([1, 50, len(data)]), hx)
    h.do(line)
    # Stream Padding that is not a multiple of four between two Streams although the file size is (DATA_ERROR)
    if len(ix) >= 2 and rng.random() < 0.5:
        a, b = rng.choice([(1, 3), (2, 2), (3, 1), (6, 2), (2, 6), (5, 7)])
        ix2 = [x.copy() for x in ix]
        ix2[-1].padding, ix2[-2].padding = a, b
        bad = R.build_file(ix2, rng)
        for ch in (len(bad) + 1, rng.choice([1, 3, 17, 4096])):
            line = "finfo 5 %d %d 0 %s" % (1 << 40, ch, R.hexs(bad))
            fe[line] = "invalid"
            h.do(line)
    # malformed variants of the same file: the Lean model predicts them, the reference only checks the sanity conditions
    for _ in range(rng.randrange(1, 5)):
        bad = bytearray(data)
        r = rng.random()
        if r < 0.3:
            i = rng.randrange(len(bad))
            bad[i] ^= 1 << rng.randrange(8)
        elif r < 0.5:
            # hit a header/footer/index byte more likely: the last bytes of the file
            i = len(bad) - 1 - rng.randrange(min(len(bad), 40))
            bad[i] = rng.choice([0, bad[i] ^ 0x10, 0xFF])
        elif r < 0.65:
            del bad[rng.randrange(len(bad)):]
        elif r < 0.8:
            bad += bytes(rng.choice([0, 0, 0, 1]) for _ in range(rng.choice([1, 2, 3, 4, 8, 12])))
        elif r < 0.9:
            i = 4 * rng.randrange(len(bad) // 4 + 1)
            bad[i:i] = b"\0" * rng.choice([4, 8, 1, 2])
        else:
            bad = bytearray(bytes(rng.choice([0, 0, 0xFD, 0x59, 0x5A, rng.getrandbits(8)]) for _ in range(rng.randrange(0, 64))))
        for ch in (len(bad) + 1, rng.choice([1, 3, 17, 4096])):
            h.do("finfo 5 %d %d 0 %s" % (1 << 40, ch, R.hexs(bytes(bad))))
    return h


def h_hash(ctx, rng, fe):
    h = Hist(ctx, "hash", fe)
    h.do("hinit")
    recs = []
    for _ in range(rng.randrange(0, 8)):
        u = rng.choice([rng.randrange(5, 300), pick_u(rng)])
        c = rng.choice([rng.randrange(0, 100000), pick_c(rng)])
        e = h.do("happend %d %d" % (u, c))
        if e.startswith("0 "):
            recs.append((u, c))
        elif e.startswith("9 "):
            # the hash is unusable after LZMA_DATA_ERROR: start again
            h.do("hinit")
            recs = []
    h.do("hsize")
    data = raw_index(rng, recs)
    r = rng.random()
    if r < 0.5:
        pass
    elif r < 0.8:
        data = mutate(rng, data)
    else:
        recs2 = list(recs)
        if recs2 and rng.random() < 0.7:
            i = rng.randrange(len(recs2))
            u, c = recs2[i]
            recs2[i] = rng.choice([(u + 1, c), (u, c + 1), (u + 4, c), (max(5, u - 1), c)])
            if rng.random() < 0.3 and len(recs2) > 1:
                recs2[0], recs2[-1] = recs2[-1], recs2[0]
        else:
            recs2.append((5, 0))
        data = raw_index(rng, recs2)
    ch = rng.choice([1, 2, 3, 1000])
    pos = 0
    while pos < len(data):
        piece = data[pos:pos + ch]
        e = h.do("hdecode %d %s" % (rng.choice([1, 2, 1000]), piece.hex()))
        pos += len(piece)
        if e is None or not e.startswith("0 "):
            break
    if rng.random() < 0.3:
        h.do("happend 5 5")     # PROG_ERROR once decoding has started
    return h


def h_corpus(ctx, fe):
    """Minimised histories of past findings (corpus/C13-*.json), replayed first on every run."""
    import glob
    out = []
    for path in sorted(glob.glob(os.path.join(vlib.ROOT, "corpus", "C13-*.json"))):
        try:
            ops = json.load(open(path))["ops"]
        except Exception:
            continue
        h = Hist(ctx, "corpus", fe)
        for l in ops[1:] if ops and ops[0] == "reset" else ops:
            if not l.startswith("reuse"):
                h.do(l)
        out.append(h)
    return out


def gen_histories(ctx, fe):
    rng = ctx.rng
    q = ctx.quick()
    hs = h_corpus(ctx, fe)
    for _ in range(60 if q else 400):
        hs.append(h_random(ctx, rng, fe, rng.randrange(10, 80 if q else 200)))
    for _ in range(6 if q else 30):
        hs.append(h_groups(ctx, rng, fe, big=False))
    if not q:
        for _ in range(4):
            hs.append(h_groups(ctx, rng, fe, big=True))
    ks = [1, 2, 3, 4, 5, 7, 8, 9, 15, 16, 17, 31, 32, 33, 63, 64, 65, 127, 128, 129]
    if not q:
        ks += [255, 256, 257, 511, 512, 513, 1023, 1024, 1025, 2047, 2048, 2049]
    for k in ks:
        hs.append(h_cats(ctx, rng, fe, k))
    for _ in range(150 if q else 1500):
        hs.append(h_limits(ctx, rng, fe))
    for _ in range(80 if q else 800):
        hs.append(h_codec(ctx, rng, fe))
    for _ in range(60 if q else 600):
        hs.append(h_iters(ctx, rng, fe))
    for _ in range(40 if q else 400):
        hs.append(h_finfo(ctx, rng, fe, not q))
    for _ in range(40 if q else 400):
        hs.append(h_hash(ctx, rng, fe))
    return hs


# ---------------------------------------------------------------------------------------------
# judging
# ---------------------------------------------------------------------------------------------

def judge_unpredicted(op, out):
    """Sanity conditions for ops the reference does not predict (malformed files): returns an error text or None."""
    t = op.split()
    if t[0] in ("finfo", "finfof", "finfog"):
        o = out.split()
        if len(o) < 3:
            return "malformed harness answer"
        if o[1] != "0":
            return "lzma_file_info_decoder asked to seek beyond the end of the file"
        if o[0] == "1":
            n = 0 if t[5] == "-" else len(t[5]) // 2
            if o[2] != "S" or int(o[8]) != n:
                return "file-info succeeded but lzma_index_file_size differs from the real file size %d" % n
    return None


def run_hist(exe, ops, timeout=60):
    rc, out, err = vlib.run_lines([exe], ops, timeout=timeout)
    return rc, [R.strip_note(x) for x in out], err


def first_bad(ops, exp, out):
    """Index of the first op whose implementation answer contradicts the reference, or None."""
    for i, op in enumerate(ops):
        if i >= len(out):
            return i
        if exp[i] is None:
            if judge_unpredicted(op, out[i]) is not None:
                return i
        elif exp[i] == "!notok":
            if out[i].startswith("1 ") or judge_unpredicted(op, out[i]) is not None:
                return i
        elif exp[i] != out[i]:
            return i
    return None


def reference_lines(ops, fe):
    ref = R.Ref()
    ref.finfo_expect = fe
    return [ref.op(l) for l in ops]


def failing(exe, ops, fe, timeout=60):
    """Does the implementation contradict the reference (or abort/hang) on this history? Returns (bool, detail dict)."""
    exp = reference_lines(ops, fe)
    rc, out, err = run_hist(exe, ops, timeout)
    if rc != 0 or len(out) != len(ops):
        return True, {"kind": "implementation hangs (no answer within %d s)" % timeout if rc == 124 else
                      "implementation aborted (sanitizer/assert/crash)", "stderr": err[-1500:], "answered": len(out)}
    i = first_bad(ops, exp, out)
    if i is None:
        return False, {}
    why = judge_unpredicted(ops[i], out[i]) if exp[i] is None else ("an invalid file (Stream Padding not a multiple of 4) was accepted" if exp[i] == "!notok" else None)
    return True, {"kind": why or "implementation differs from the list-of-records reference", "first_bad_op": i, "op": ops[i][:300],
                  "impl": out[i][:600], "reference": (exp[i] or "")[:600]}


def shrink(exe, ops, fe, budget=250, timeout=60):
    """Delta debugging on the op list (keeps 'reset' first)."""
    cur = list(ops)
    n = 2
    while len(cur) > 2 and budget > 0:
        size = max(1, len(cur) // n)
        reduced = False
        for start in range(1, len(cur), size):
            cand = cur[:start] + cur[start + size:]
            budget -= 1
            if budget <= 0:
                break
            if len(cand) >= 1 and failing(exe, cand, fe, timeout)[0]:
                cur = cand
                n = max(2, n - 1)
                reduced = True
                break
        if not reduced:
            if size == 1:
                break
            n = min(len(cur), n * 2)
    return cur


def fe_dump(ops, fe):
    """The file-info expectations of the finfo ops of a history, in JSON-able form (for the replay file)."""
    out = []
    for j, l in enumerate(ops):
        e = fe.get(l)
        if e == "invalid":
            out.append([j, "invalid"])
        elif e is not None:
            out.append([j, [[list(s.flags) if s.flags else None, s.padding, [list(b) for b in s.blocks]] for s in e]])
    return out


def fe_load(ops, dumped):
    fe = {}
    for j, e in dumped or []:
        if e == "invalid":
            fe[ops[j]] = "invalid"
        else:
            ix = []
            for flags, padding, blocks in e:
                s = R.Stream()
                s.flags = tuple(flags) if flags else None
                s.padding = padding
                for u, c in blocks:
                    s.add(u, c)
                ix.append(s)
            fe[ops[j]] = ix
    return fe


def classify(detail, ops):
    op = detail.get("op", "")
    if detail.get("kind", "").startswith("implementation aborted"):
        return "abort"
    if detail.get("kind", "").startswith("implementation hangs"):
        return "hang"
    return "mismatch-" + (op.split()[0] if op else "unknown")


# ---------------------------------------------------------------------------------------------
# real .xz files: file-info index vs the data (random access) and vs `xz --list --robot -vv`
# ---------------------------------------------------------------------------------------------

CHECK_NAMES = {0: "None", 1: "CRC32", 4: "CRC64", 10: "SHA-256"}


def parse_items(line):
    """Items of an `iter` answer -> list of (stream tuple, flags text, block tuple or None)."""
    out = []
    if line in ("empty", "null"):
        return out
    for it in line.split(" | "):
        sp, _, bp = it.partition(";b:")
        f = sp[2:].split(",")
        out.append((tuple(int(x) for x in f[:7]), f[7], tuple(int(x) for x in bp.split(",")) if bp else None))
    return out


def make_real_file(rng, xz, quick):
    """A multi-Stream, multi-Block .xz file made by the repo's own xz, plus the data it holds."""
    import subprocess
    data, out = b"", b""
    for _ in range(rng.choice([1, 1, 2, 3, 4])):
        n = rng.choice([0, 1, 100, 5000, rng.randrange(1, 40000 if quick else 200000)])
        kind = rng.random()
        if kind < 0.4:
            piece = bytes(rng.getrandbits(8) for _ in range(n))
        elif kind < 0.8:
            words = [bytes(rng.getrandbits(8) for _ in range(rng.randrange(1, 9))) for _ in range(20)]
            piece = b"".join(rng.choice(words) for _ in range(n // 4 + 1))[:n]
        else:
            piece = bytes([rng.getrandbits(8)]) * n
        chk = rng.choice(["none", "crc32", "crc64", "sha256"])
        cmd = [xz, "-c", "-T1", "-%d" % rng.choice([0, 1, 6]), "-C", chk]
        if rng.random() < 0.8:
            cmd.append("--block-size=%d" % rng.choice([1, 100, 4096, 5000, 65536]))
        if rng.random() < 0.3:
            cmd.append("--block-list=%s" % ",".join(str(rng.randrange(1, 3000)) for _ in range(rng.randrange(1, 5))))
        p = subprocess.run(cmd, input=piece, stdout=subprocess.PIPE, stderr=subprocess.PIPE, timeout=600)
        if p.returncode != 0:
            raise RuntimeError("xz failed: " + p.stderr.decode()[:300])
        data += piece
        out += p.stdout + b"\0" * (4 * rng.choice([0, 0, 1, 3, 2048, 2049]))
    return out, data


def judge_real_file(exe, xz, filebytes, data, chunk, seed, workdir, collect=None):
    """Runs the file-info decoder of the implementation on a real file and checks its index against the data
    (every Block decoded on its own by Python's lzma module = the system liblzma, an independent build) and
    against `xz --list --robot -vv`. Returns an error text or None. `collect` (a list) receives
    (check, compressed_file_offset, uncompressed_file_offset, uncompressed_size, total_size) of every Block."""
    import lzma, subprocess
    ops = ["reset", "finfo 0 %d %d %d %s" % (1 << 40, chunk, seed, R.hexs(filebytes)), "sum 0", "iter 0 1", "iter 0 2"]
    rc, out, err = run_hist(exe, ops, timeout=900)
    if rc == 124:
        return "TIMEOUT"
    if rc != 0 or len(out) != len(ops):
        return "implementation aborted: " + err[-500:]
    if not out[1].startswith("1 0 S"):
        return "lzma_file_info_decoder failed on a valid file: " + out[1][:100]
    ssum = out[2].split()
    if int(ssum[6]) != len(filebytes) or int(ssum[7]) != len(data):
        return "file size / uncompressed size of the index (%s, %s) differ from the real ones (%d, %d)" % (ssum[6], ssum[7], len(filebytes), len(data))
    streams = parse_items(out[3])
    blocks = parse_items(out[4])
    if int(ssum[1]) != len(streams) or int(ssum[2]) != len(blocks):
        return "iteration does not return every Stream/Block once"
    # random access: every Block decodes, on its own, to exactly its range of the data
    for st, fl, b in blocks:
        nif, cfo, ufo, nis, cso, uso, usz, unp, tot = b
        chk = int(fl.split("/")[2])
        mini = R.stream_header(chk) + filebytes[cfo:cfo + tot]
        s1 = R.Stream()
        s1.add(unp, usz)
        idx = R.index_encode([s1])
        mini += idx + R.stream_footer(chk, len(idx))
        try:
            got = lzma.decompress(mini, format=lzma.FORMAT_XZ)
        except Exception as ex:
            return "Block %d at compressed offset %d (unpadded %d) does not decode: %s" % (nif, cfo, unp, ex)
        if got != data[ufo:ufo + usz]:
            return "Block %d decodes to other bytes than data[%d:%d]" % (nif, ufo, ufo + usz)
        if collect is not None:
            collect.append((chk, cfo, ufo, usz, tot))
    # xz --list
    path = os.path.join(workdir, "real-%d.xz" % os.getpid())
    with open(path, "wb") as f:
        f.write(filebytes)
    try:
        p = subprocess.run([xz, "--list", "--robot", "-vv", path], stdout=subprocess.PIPE, stderr=subprocess.PIPE, timeout=600)
    except subprocess.TimeoutExpired:
        os.unlink(path)
        return "TIMEOUT"
    os.unlink(path)
    if p.returncode != 0:
        return "xz --list failed: " + p.stderr.decode()[:300]
    ls, lb = [], []
    for ln in p.stdout.decode().split("\n"):
        t = ln.split("\t")
        if t[0] == "stream":
            ls.append(t)
        elif t[0] == "block":
            lb.append(t)
    if len(ls) != len(streams) or len(lb) != len(blocks):
        return "xz --list shows %d Streams / %d Blocks, the index %d / %d" % (len(ls), len(lb), len(streams), len(blocks))
    for t, (st, fl, _) in zip(ls, streams):
        want = [str(st[0]), str(st[1]), str(st[2]), str(st[3]), str(st[4]), str(st[5]), CHECK_NAMES.get(int(fl.split("/")[2]), "?"), str(st[6])]
        have = [t[1], t[2], t[3], t[4], t[5], t[6], t[8], t[9]]
        if want != have:
            return "xz --list stream line %s differs from the index %s" % (have, want)
    for t, (st, fl, b) in zip(lb, blocks):
        want = [str(st[0]), str(b[3]), str(b[0]), str(b[1]), str(b[2]), str(b[8]), str(b[6]), CHECK_NAMES.get(int(fl.split("/")[2]), "?")]
        have = [t[1], t[2], t[3], t[4], t[5], t[6], t[7], t[9]]
        if want != have:
            return "xz --list block line %s differs from the index %s" % (have, want)
    return None


# ---------------------------------------------------------------------------------------------
# `xz --list` in all its formats versus the library index and the real layout, on sets of files that combine
# multi-Block Streams with non-zero Stream Padding (streams x blocks-per-stream x padding in {0,4,8,12})
# ---------------------------------------------------------------------------------------------

def make_list_file(rng, xz):
    """Returns (file bytes, layout) with layout = [(blocks, stream_size, uncompressed_size, check_id, padding), ...]."""
    import subprocess
    out, layout = b"", []
    nstreams = rng.choice([1, 2, 2, 3, 4])
    for k in range(nstreams):
        nblocks = rng.choice([1, 1, 2, 3, 4, 5])
        bs = rng.choice([64, 500, 2000])
        n = (nblocks - 1) * bs + rng.randrange(1, bs + 1)
        if rng.random() < 0.08:
            n, nblocks = 0, 0                          # a Stream without Blocks
        piece = bytes(rng.getrandbits(8) if rng.random() < 0.5 else 65 for _ in range(n))
        chk = rng.choice([0, 1, 4, 10])
        cmd = [xz, "-c", "-T1", "-0", "-C", {0: "none", 1: "crc32", 4: "crc64", 10: "sha256"}[chk], "--block-size=%d" % bs]
        p = subprocess.run(cmd, input=piece, stdout=subprocess.PIPE, stderr=subprocess.PIPE, timeout=600)
        if p.returncode != 0:
            raise RuntimeError("xz failed: " + p.stderr.decode()[:300])
        pad = 4 * rng.choice([0, 1, 2, 3])
        out += p.stdout + b"\0" * pad
        layout.append((nblocks, len(p.stdout), n, chk, pad))
    return out, layout


def xz_ratio(c, u):
    if u == 0:
        return "---"
    r = float(c) / float(u)
    return "---" if r > 9.999 else "%.3f" % r


def check_list_names(mask, sep):
    names = {0: "None", 1: "CRC32", 4: "CRC64", 10: "SHA-256"}
    if mask == 0:
        mask = 1
    return sep.join(names.get(i, "Unknown-%d" % i) for i in range(16) if mask & (1 << i))


def human_bytes(text):
    """Exact byte count of xz's human size text: '20.0 KiB (20516 B)' or '380 B'."""
    import re
    m = re.search(r"\(([0-9][0-9,.'   ]*) B\)", text) or re.match(r"^\s*([0-9][0-9,.'   ]*) B\s*$", text)
    if not m:
        return None
    return int(re.sub(r"[^0-9]", "", m.group(1)))


def judge_list_set(exe, xz, files, workdir):
    """files = [(bytes, layout)]. Every figure of `xz -l` (robot -l/-lv/-lvv, human -l/-lv/-lvv; file, stream, block, totals
    lines) must equal what lzma_file_info_decoder + the iterator give, which must equal the real layout."""
    import subprocess
    lib = []        # per file: dict of figures from the library
    for fb, layout in files:
        ops = ["reset", "finfo 0 %d %d 0 %s" % (1 << 40, len(fb) + 1, R.hexs(fb)), "sum 0", "iter 0 1", "iter 0 2"]
        rc, out, err = run_hist(exe, ops, timeout=900)
        if rc == 124:
            return "TIMEOUT"
        if rc != 0 or len(out) != len(ops):
            return "implementation aborted: " + err[-500:]
        if not out[1].startswith("1 0 S"):
            return "lzma_file_info_decoder failed on a valid file: " + out[1][:100]
        ssum = out[2].split()
        streams, blocks = parse_items(out[3]), parse_items(out[4])
        # library vs the real layout
        if len(streams) != len(layout):
            return "the index has %d Streams, the file %d" % (len(streams), len(layout))
        off, uoff = 0, 0
        for (st, fl, _), (nb, csz, usz, chk, pad) in zip(streams, layout):
            want = (nb, off, uoff, csz, usz, pad, chk)
            have = (st[1], st[2], st[3], st[4], st[5], st[6], int(fl.split("/")[2]))
            if want != have:
                return "Stream %d of the index (blocks, offsets, sizes, padding, check) = %s, the real file has %s" % (st[0], have, want)
            off += csz + pad
            uoff += usz
        if int(ssum[6]) != len(fb):
            return "lzma_index_file_size %s differs from the real size %d" % (ssum[6], len(fb))
        lib.append({"streams": streams, "blocks": blocks, "nstreams": int(ssum[1]), "nblocks": int(ssum[2]), "csize": int(ssum[6]),
                    "usize": int(ssum[7]), "checks": int(ssum[8]), "padding": sum(l[4] for l in layout)})
    paths = []
    for k, (fb, _) in enumerate(files):
        pth = os.path.join(workdir, "l%d.xz" % k)
        with open(pth, "wb") as f:
            f.write(fb)
        paths.append(pth)

    def run(args):
        e = dict(os.environ)
        e["LC_ALL"] = "C"
        p = subprocess.run([xz] + args + paths, stdout=subprocess.PIPE, stderr=subprocess.PIPE, timeout=600, env=e)
        return p.returncode, p.stdout.decode("utf-8", "replace"), p.stderr.decode("utf-8", "replace")

    tot = {"nstreams": sum(x["nstreams"] for x in lib), "nblocks": sum(x["nblocks"] for x in lib), "csize": sum(x["csize"] for x in lib),
           "usize": sum(x["usize"] for x in lib), "padding": sum(x["padding"] for x in lib), "checks": 0}
    for x in lib:
        tot["checks"] |= x["checks"]
    try:
        # ---- robot formats
        for lvl in ("-l", "-lv", "-lvv"):
            rc, so, se = run(["--robot", lvl])
            if rc != 0:
                return "xz --robot %s failed: %s" % (lvl, se[:300])
            recs = [ln.split("\t") for ln in so.split("\n") if ln]
            fi = -1
            per = []
            for t in recs:
                if t[0] == "name":
                    fi += 1
                    per.append({"file": None, "stream": [], "block": []})
                elif t[0] in ("file",):
                    per[fi]["file"] = t
                elif t[0] in ("stream", "block"):
                    per[fi][t[0]].append(t)
            if len(per) != len(lib):
                return "xz --robot %s lists %d files instead of %d" % (lvl, len(per), len(lib))
            for k, (pr, x) in enumerate(zip(per, lib)):
                want = ["file", str(x["nstreams"]), str(x["nblocks"]), str(x["csize"]), str(x["usize"]), xz_ratio(x["csize"], x["usize"]),
                        check_list_names(x["checks"], ","), str(x["padding"])]
                if pr["file"] != want:
                    return "xz --robot %s, file %d: file line %s, index/real layout say %s" % (lvl, k, pr["file"], want)
                if lvl != "-l":
                    if len(pr["stream"]) != len(x["streams"]):
                        return "xz --robot %s, file %d: %d stream lines for %d Streams" % (lvl, k, len(pr["stream"]), len(x["streams"]))
                    for t, (st, fl, _) in zip(pr["stream"], x["streams"]):
                        want = ["stream", str(st[0]), str(st[1]), str(st[2]), str(st[3]), str(st[4]), str(st[5]), xz_ratio(st[4], st[5]),
                                check_list_names(1 << int(fl.split("/")[2]), ","), str(st[6])]
                        if t != want:
                            return "xz --robot %s, file %d: stream line %s, index says %s" % (lvl, k, t, want)
                    if sum(int(t[9]) for t in pr["stream"]) != int(pr["file"][7]):
                        return "xz --robot %s, file %d: Stream Padding of the file line is not the sum of the stream lines" % (lvl, k)
                    if len(pr["block"]) != len(x["blocks"]):
                        return "xz --robot %s, file %d: %d block lines for %d Blocks" % (lvl, k, len(pr["block"]), len(x["blocks"]))
                    for t, (st, fl, b) in zip(pr["block"], x["blocks"]):
                        want = ["block", str(st[0]), str(b[3]), str(b[0]), str(b[1]), str(b[2]), str(b[8]), str(b[6]), xz_ratio(b[8], b[6]),
                                check_list_names(1 << int(fl.split("/")[2]), ",")]
                        if t[:10] != want:
                            return "xz --robot %s, file %d: block line %s, index says %s" % (lvl, k, t[:10], want)
            tl = [t for t in recs if t[0] == "totals"]
            want = ["totals", str(tot["nstreams"]), str(tot["nblocks"]), str(tot["csize"]), str(tot["usize"]), xz_ratio(tot["csize"], tot["usize"]),
                    check_list_names(tot["checks"], ","), str(tot["padding"]), str(len(lib))]
            if len(tl) != 1 or tl[0][:9] != want:
                return "xz --robot %s: totals line %s, sums over the files say %s" % (lvl, tl[0][:9] if tl else None, want)
        # ---- human formats
        for lvl in ("-lv", "-lvv"):
            rc, so, se = run([lvl])
            if rc != 0:
                return "xz %s failed: %s" % (lvl, se[:300])
            sections = [sec for sec in so.split("\n\n") if sec.strip()]
            if len(sections) != len(lib) + (1 if len(lib) > 1 else 0):
                return "xz %s: %d sections for %d files" % (lvl, len(sections), len(lib))
            for k, sec in enumerate(sections):
                lines = sec.strip("\n").split("\n")
                x = lib[k] if k < len(lib) else tot
                kv = {}
                mode, srows, brows = None, [], []
                for ln in lines[1:]:
                    if ln.startswith("  Streams:") and ln.strip() == "Streams:":
                        mode = "s"
                        continue
                    if ln.strip() == "Blocks:":
                        mode = "b"
                        continue
                    if ln.startswith("    "):
                        f = ln.split()
                        if f and f[0].isdigit():
                            (srows if mode == "s" else brows).append(f)
                        continue
                    mode = None
                    if ":" in ln:
                        a, _, b = ln.partition(":")
                        kv[a.strip()] = b.strip()
                want = {"Streams": str(x["nstreams"]), "Blocks": str(x["nblocks"]), "Ratio": xz_ratio(x["csize"], x["usize"]),
                        "Check": check_list_names(x["checks"], ", ")}
                for key, w in want.items():
                    if kv.get(key) != w:
                        return "xz %s, section %d: '%s: %s', index says %s" % (lvl, k, key, kv.get(key), w)
                for key, w in (("Compressed size", x["csize"]), ("Uncompressed size", x["usize"]), ("Stream Padding", x["padding"])):
                    if key not in kv or human_bytes(kv[key]) != w:
                        return "xz %s, section %d: '%s: %s', index/real layout say %d B" % (lvl, k, key, kv.get(key), w)
                if k == len(lib):
                    if kv.get("Number of files") != str(len(lib)):
                        return "xz %s: totals 'Number of files: %s'" % (lvl, kv.get("Number of files"))
                    continue
                if len(srows) != len(x["streams"]):
                    return "xz %s, file %d: %d rows in the Streams table for %d Streams" % (lvl, k, len(srows), len(x["streams"]))
                for f, (st, fl, _) in zip(srows, x["streams"]):
                    w = [str(st[0]), str(st[1]), str(st[2]), str(st[3]), str(st[4]), str(st[5]), xz_ratio(st[4], st[5]),
                         check_list_names(1 << int(fl.split("/")[2]), ","), str(st[6])]
                    if f != w:
                        return "xz %s, file %d: Streams table row %s, index says %s" % (lvl, k, f, w)
                if len(brows) != len(x["blocks"]):
                    return "xz %s, file %d: %d rows in the Blocks table for %d Blocks" % (lvl, k, len(brows), len(x["blocks"]))
                for f, (st, fl, b) in zip(brows, x["blocks"]):
                    w = [str(st[0]), str(b[3]), str(b[1]), str(b[2]), str(b[8]), str(b[6]), xz_ratio(b[8], b[6]),
                         check_list_names(1 << int(fl.split("/")[2]), ",")]
                    if f[:8] != w:
                        return "xz %s, file %d: Blocks table row %s, index says %s" % (lvl, k, f[:8], w)
        # ---- basic format: Streams and Blocks columns, totals row
        rc, so, se = run(["-l"])
        if rc != 0:
            return "xz -l failed: " + se[:300]
        rows = [ln.split() for ln in so.split("\n") if ln.strip() and ln.split()[0].isdigit()]
        wantrows = [[str(x["nstreams"]), str(x["nblocks"])] for x in lib]
        if len(lib) > 1:
            wantrows.append([str(tot["nstreams"]), str(tot["nblocks"])])
        if [r[:2] for r in rows] != wantrows:
            return "xz -l: Streams/Blocks columns %s, index says %s" % ([r[:2] for r in rows], wantrows)
        for r, x in zip(rows, lib + [tot]):
            if r[-2] != check_list_names(x["checks"], ",") and not (r is rows[-1] and len(lib) > 1):
                return "xz -l: Check column %s, index says %s" % (r[-2], check_list_names(x["checks"], ","))
    finally:
        for pth in paths:
            try:
                os.unlink(pth)
            except OSError:
                pass
    return None


def list_sets_stage(ctx, exe, xz, workdir):
    rng = ctx.rng
    n = 10 if ctx.quick() else 60
    sets = []
    for _ in range(n):
        try:
            sets.append([make_list_file(rng, xz) for _ in range(rng.choice([1, 2, 2, 3]))])
        except Exception as ex:
            ctx.count("list-set:could-not-build-file")
            ctx.log("list-set stage: " + str(ex)[:200])

    def one(kc):
        k, fs = kc
        d = os.path.join(workdir, "list-%d-%d" % (os.getpid(), k))
        os.makedirs(d, exist_ok=True)
        try:
            return judge_list_set(exe, xz, fs, d)
        finally:
            try:
                os.rmdir(d)
            except OSError:
                pass

    res = vlib.par_map(one, list(enumerate(sets)))
    bad = 0
    for fs, r in zip(sets, res):
        ctx.case(("listset", tuple(tuple(l) for _, lay in fs for l in lay)), nontrivial=True, sample=None)
        for _, lay in fs:
            for nb, _, _, _, pad in lay:
                ctx.count("list-set:stream blocks%s padding%s" % (">1" if nb > 1 else "<=1", ">0" if pad else "=0"))
        if r == "TIMEOUT":
            ctx.count("list-set:timeout-skipped")
            continue
        if r is not None:
            bad += 1
            if bad <= 2:
                ctx.violation("xz-list", {"kind": r, "listset_hex": [fb.hex() for fb, _ in fs], "listset_layout": [lay for _, lay in fs],
                                          "how_to_replay": "./check C13 --replay <this file>"}, True)
    ctx.cov["correspondence"]["list_sets"] = {
        "invocations": len(sets), "files": sum(len(fs) for fs in sets), "failing": bad,
        "checked": "xz --robot -l/-lv/-lvv and xz -l/-lv/-lvv (file, stream, block, totals figures incl. Stream Padding) vs "
                   "lzma_file_info_decoder + iterator vs the real layout; streams x blocks-per-stream x padding in {0,4,8,12}"}


def model_blockat(mexe, filebytes, data, blocks, k):
    """Model side of random access on a real file: returns (number of Blocks, error text or None)."""
    ents = []
    for n, (chk, cfo, ufo, usz, tot) in enumerate(blocks):
        # output space: exactly the Block's size / what the front-to-back decoder has / plenty
        cap = [usz, (1 << 62) - ufo, 1 << 62][(n + k) % 3]
        ents.append("%d,%d,%d,%d" % (chk, cfo, cap, tot))
    rc, out, err = vlib.run_lines([mexe], ["blockat %s %s" % (";".join(ents), R.hexs(filebytes))], timeout=900)
    if rc == 124:
        return 0, None
    if rc != 0 or len(out) != 1:
        return len(blocks), "model driver failed: " + err[-300:]
    ans = out[0].split(" | ")
    if len(ans) != len(blocks):
        return len(blocks), "model driver answered %d entries for %d Blocks: %s" % (len(ans), len(blocks), out[0][:200])
    for a, (chk, cfo, ufo, usz, tot) in zip(ans, blocks):
        f = a.split(" ")
        want_hex = data[ufo:ufo + usz].hex() or "-"
        if len(f) != 4 or f[0] != "1" or int(f[1]) != tot or (f[3] or "-") != want_hex:
            return len(blocks), "Block at %d (check %d, data[%d:%d], total size %d): model answers %s" % (cfo, chk, ufo, ufo + usz, tot, a[:200])
    return len(blocks), None


def real_files_stage(ctx, exe):
    okr, log, bd = vlib.c_build("rel", targets=["xz"])
    xz = os.path.join(bd, "xz")
    if not okr or not os.path.exists(xz):
        ctx.obligation_broken("stage B: the xz tool does not build (needed for the real-file part of C13)", log)
        return
    workdir = os.path.join(vlib.CACHE, "c13-scratch")
    os.makedirs(workdir, exist_ok=True)
    rng = ctx.rng
    n = 8 if ctx.quick() else 60
    cases = []
    for _ in range(n):
        try:
            fb, data = make_real_file(rng, xz, ctx.quick())
        except Exception as ex:          # xz timed out / could not run: machinery, not a verdict
            ctx.count("real-file:could-not-build-file")
            ctx.log("real-file stage: " + str(ex)[:200])
            continue
        cases.append((fb, data, rng.choice([len(fb) + 1, 1 if len(fb) < 3000 else 7, 13, 4096, 8192, 8193, 70000]),
                      rng.choice([0, 0, rng.randrange(1, 1 << 30)])))

    mexe = vlib.model_exe("xzm_c13")
    have_model = os.path.exists(mexe)

    # one private directory per case: the temporary file name only depends on the pid
    def one(kc):
        k, c = kc
        d = os.path.join(workdir, "real-%d-%d" % (os.getpid(), k))
        os.makedirs(d, exist_ok=True)
        blocks = []
        try:
            r = judge_real_file(exe, xz, c[0], c[1], c[2], c[3], d, collect=blocks)
        finally:
            try:
                os.rmdir(d)
            except OSError:
                pass
        # tie of Props/C13 `random_access`: the MODEL's Block decoder at the offsets of the real index
        # (RandomAccess.blockAt with the model of the real raw decoder and checks) must return exactly the Block's range
        m = None
        if r is None and have_model and blocks:
            m = model_blockat(mexe, c[0], c[1], blocks, k)
        return r, m

    res2 = vlib.par_map(one, list(enumerate(cases)))
    res = [r for r, _ in res2]
    nmb, nmbad = 0, 0
    for c, (_, m) in zip(cases, res2):
        if m is None:
            continue
        nmb += m[0]
        if m[1] is not None:
            nmbad += 1
            if nmbad <= 2:
                ctx.obligation_broken("correspondence C13: the model's Block decoder at an offset of the real index (RandomAccess.blockAt, "
                                      "Props/C13 random_access) differs from the data of the real file", (m[1] + " file=" + c[0].hex())[:2900])
    ctx.cov["correspondence"]["model_blockat"] = {"blocks": nmb, "files_mismatching": nmbad, "model_ran": have_model}
    bad = 0
    for c, r in zip(cases, res):
        ctx.case(("realfile", len(c[0]), len(c[1]), c[2], c[3], c[0][:64].hex()), nontrivial=True, sample=None)
        ctx.count("real-file:streams-bytes<1k" if len(c[0]) < 1000 else "real-file:bytes>=1k")
        if r == "TIMEOUT":
            ctx.count("real-file:timeout-skipped")
            continue
        if r is not None:
            bad += 1
            if bad <= 2:
                ctx.violation("real-file", {"kind": r, "realfile_hex": c[0].hex(), "data_hex": c[1].hex(), "chunk": c[2], "seed_reads": c[3],
                                            "how_to_replay": "./check C13 --replay <this file>"}, True)
    ctx.cov["correspondence"]["real_files"] = {"files": len(cases), "failing": bad,
                                               "checked": "file-info index vs data (each Block decoded alone by Python lzma) and vs xz --list --robot -vv"}
    list_sets_stage(ctx, exe, xz, workdir)


def build_all(ctx):
    okb, log, _ = vlib.c_build("asan", targets=["liblzma"])
    if not okb:
        ctx.obligation_broken("stage B: /repo does not build", log)
        return None
    okh, log, exe = vlib.harness_build("c13", HARNESS, tu=TU)
    if not okh:
        ctx.obligation_broken("stage B: C13 harness does not compile against /repo", log)
        return None
    return exe


def run(ctx):
    ctx.cov["rule"] = ("op histories for harness/c13_main.c generated from the seeded PRNG and steered by the Python reference: "
                       "random mixes, group-boundary histories (512+-1, multiples), k small cats for k = 2^j+-1, limit-aimed histories "
                       "(values derived from the remaining room to LZMA_VLI_MAX / UNPADDED_SIZE_MAX / file size), Index codec with "
                       "mutated and hand-assembled fields, persistent iterators interleaved with append/cat, generated multi-Stream "
                       "files (+ malformed variants) for the file-info decoder at several read sizes, index_hash; "
                       "a case = one op; non-trivial = every op except reset/end; distinct by history index + op index + line")
    ctx.assumptions += [
        "Lean 4 kernel; the models in Model/IndexSpec.lean and Model/IndexImpl.lean are what the theorems are about; their tie to index.c is "
        "the correspondence below plus the regenerated constants/kernels (Gen/C13.lean, bridged by decide)",
        "the harness feeds the same op lines to the C code, the Lean driver and the Python reference and prints every documented getter and iterator field",
        "allocator: every request above 2^28 bytes fails (harness allocator and model agree); no other allocation failure is explored here (C10)",
        "stream count stays below 2^32 and sizes are 64-bit; the model uses unbounded naturals with the code's own overflow guards",
        "LZMA_BACKWARD_SIZE_MAX cannot be reached by a run (about 10^9 Records); those rules are covered by the model theorems and the bridged constant only",
        "SHA-256 of the (unpadded, uncompressed) pairs in index_hash is treated as injective",
    ]
    # B first: the probe needs the build's flags
    exe = build_all(ctx)
    if exe is None:
        return "proof"
    # G
    gen_path = vlib.module_path("XzVerif.Gen.C13")
    ok, log = vlib.gen_probe("gen_c13", "gen_c13.c", "XzVerif.Gen.C13", variant="asan", tu=TU,
                             extra=["-ffunction-sections", "-fdata-sections", "-Wl,--gc-sections"])
    if not ok:
        ctx.obligation_broken("stage G: Gen/C13.lean cannot be regenerated from src/liblzma/common/index.c", log)
    R.load_constants(gen_path)
    # G (scalar kernels translated from the clang AST: Gen/Kernels.lean + Gen/KernelsGrid.lean; bridged in Props/Kernels.lean)
    kmods = kernels_stage.run_stage(ctx)
    # P
    p_ok = ctx.lean_stage(["XzVerif.Props.C13"] + kmods, exes=["xzm_c13"]) if ok else False
    model_ok = p_ok or os.path.exists(vlib.model_exe("xzm_c13"))
    # K
    fe = {}
    hists = gen_histories(ctx, fe)
    ctx.log("generated %d histories, %d ops" % (len(hists), sum(len(h.ops) for h in hists)))
    order = sorted(range(len(hists)), key=lambda i: -sum(len(x) for x in hists[i].ops))
    # balance the work: longest histories first, round-robin into 2*NCPU bins
    nb = vlib.NCPU * 2
    bins = [[] for _ in range(nb)]
    for j, i in enumerate(order):
        bins[j % nb].append(i)
    bins = [b for b in bins if b]

    bin_timeout = 900 if ctx.quick() else 5400

    def run_bin(args):
        prog, b = args
        lines = [l for i in b for l in hists[i].ops]
        rc, out, err = vlib.run_lines([prog], lines, timeout=bin_timeout)
        return rc, [R.strip_note(x) for x in out], err

    res_c = vlib.par_map(run_bin, [(exe, b) for b in bins])
    mexe = vlib.model_exe("xzm_c13")
    res_m = vlib.par_map(run_bin, [(mexe, b) for b in bins]) if model_ok and os.path.exists(mexe) else None

    c_out = {}
    for (rc, out, err), b in zip(res_c, bins):
        total = sum(len(hists[i].ops) for i in b)
        if rc != 0 or len(out) != total:
            # abort or hang somewhere in this bin: rerun history by history (short timeout; stop after two failures,
            # the remaining histories of the bin are not judged in this run)
            nfail = 0
            for i in b:
                if nfail >= 2:
                    c_out[i] = None
                    continue
                rc1, o1, e1 = run_hist(exe, hists[i].ops, timeout=120 if ctx.quick() else 600)
                if rc1 == 0 and len(o1) == len(hists[i].ops):
                    c_out[i] = o1
                else:
                    c_out[i] = ("HANG" if rc1 == 124 else "ABORT", o1, e1)
                    nfail += 1
        else:
            p = 0
            for i in b:
                c_out[i] = out[p:p + len(hists[i].ops)]
                p += len(hists[i].ops)
    m_out = {}
    if res_m is not None:
        for (rc, out, err), b in zip(res_m, bins):
            total = sum(len(hists[i].ops) for i in b)
            if len(out) != total:
                ctx.obligation_broken("model driver xzm_c13 failed to answer every op", err[-1500:])
                m_out = None
                break
            p = 0
            for i in b:
                m_out[i] = out[p:p + len(hists[i].ops)]
                p += len(hists[i].ops)
    else:
        m_out = None

    nviol, nmodel, nops, nref = 0, 0, 0, 0
    seen_tags = set()
    for i, h in enumerate(hists):
        co = c_out[i]
        for j, op in enumerate(h.ops):
            ctx.case((i, j, op[:200]), nontrivial=not op.startswith(("reset", "end")), sample=None)
        nops += len(h.ops)
        bad, detail = None, None
        if co is None:
            ctx.count("histories-not-judged-after-abort-in-same-bin")
            continue
        if isinstance(co, tuple):
            bad, detail = True, {"kind": "implementation hangs" if co[0] == "HANG" else "implementation aborted (sanitizer/assert/crash)",
                                 "stderr": co[2][-1500:], "answered": len(co[1])}
        else:
            k = first_bad(h.ops, h.exp, co)
            nref += sum(1 for e in h.exp if e is not None and e != "!notok")
            if k is not None:
                why = judge_unpredicted(h.ops[k], co[k]) if h.exp[k] is None else ("an invalid file (Stream Padding not a multiple of 4) was accepted" if h.exp[k] == "!notok" else None)
                bad, detail = True, {"kind": why or "implementation differs from the list-of-records reference", "first_bad_op": k,
                                     "op": h.ops[k][:300], "impl": co[k][:600], "reference": (h.exp[k] or "")[:600]}
        if bad:
            tag = h.kind + "-" + classify(detail, h.ops)
            if tag not in seen_tags and nviol < 6:
                seen_tags.add(tag)
                slow = isinstance(co, tuple) and co[0] == "HANG"
                small = shrink(exe, h.ops, fe, budget=30 if slow else 250, timeout=120 if slow else 120)
                _, d2 = failing(exe, small, fe, 120)
                ctx.violation(tag, {"kind": (d2 or detail).get("kind"), "ops": small, "detail": d2 or detail, "history_kind": h.kind,
                                    "finfo_expect": fe_dump(small, fe),
                                    "how_to_replay": "./check C13 --replay <this file>   (or: printf '%s\\n' <ops> | .cache/harness-asan/c13)"}, True)
            nviol += 1
            continue
        # implementation agrees with the reference: now the Lean model must agree with the implementation
        if m_out is not None:
            mo = m_out[i]
            for j, op in enumerate(h.ops):
                if mo[j] != co[j]:
                    nmodel += 1
                    if nmodel <= 3:
                        ctx.obligation_broken("correspondence C13: the Lean model disagrees with the implementation (which agrees with the Python reference where that predicts)",
                                              json.dumps({"history_kind": h.kind, "op_index": j, "op": op[:300], "impl": co[j][:500], "model": mo[j][:500],
                                                          "ops": h.ops[:j + 1] if j < 60 else ["..."] + h.ops[j - 40:j + 1]})[:2900])
                    break
    if ctx.cov["samples"] == []:
        for i in (0, len(hists) // 2, len(hists) - 1):
            if isinstance(c_out[i], list):
                ctx.cov["samples"].append({"history_kind": hists[i].kind, "ops": [o[:120] for o in hists[i].ops[:6]], "impl": [o[:160] for o in c_out[i][:6]]})
    ctx.cov["correspondence"] = {"histories": len(hists), "ops": nops, "ops_predicted_by_python_reference": nref,
                                 "histories_contradicting_reference": nviol, "model_ran": m_out is not None, "model_mismatching_histories": nmodel,
                                 "quirk_F6b_empty_stream_park_hits": sum(len(h.ref.quirks) for h in hists)}
    ctx.count("quirk-empty-stream-park", sum(len(h.ref.quirks) for h in hists))
    # real files made by the repo's xz: random access and xz --list
    real_files_stage(ctx, exe)
    # S: the Python reference already judged every implementation answer directly (independent of the Lean side);
    # if only the Lean side is broken and no history contradicts the reference, finish() reports no-failing-input-found.
    if ctx.broken and not ctx.violations:
        ctx.cov["search"] = {"ops_checked_against_python_reference": nref, "failing": 0}
    return "proof"


def replay(ctx, path):
    import replaylib
    r = replaylib.load(ctx, path)
    if "ops" not in r and "realfile_hex" not in r:
        return replaylib.obligations("C13", run, r, path)
    exe = build_all(ctx)
    if exe is None:
        print("cannot build")
        return 2
    R.load_constants(vlib.module_path("XzVerif.Gen.C13"))
    if "listset_hex" in r:
        okr, log, bd = vlib.c_build("rel", targets=["xz"])
        workdir = os.path.join(vlib.CACHE, "c13-scratch", "replay")
        os.makedirs(workdir, exist_ok=True)
        files = [(bytes.fromhex(h), [tuple(l) for l in lay]) for h, lay in zip(r["listset_hex"], r["listset_layout"])]
        why = judge_list_set(exe, os.path.join(bd, "xz"), files, workdir)
        if why is not None and why != "TIMEOUT":
            print(why)
            print("VIOLATION property=C13 replay=%s" % path)
            return 1
        print("replay passes")
        return 0
    if "realfile_hex" in r:
        okr, log, bd = vlib.c_build("rel", targets=["xz"])
        workdir = os.path.join(vlib.CACHE, "c13-scratch", "replay")
        os.makedirs(workdir, exist_ok=True)
        why = judge_real_file(exe, os.path.join(bd, "xz"), bytes.fromhex(r["realfile_hex"]), bytes.fromhex(r["data_hex"]),
                              r.get("chunk", 4096), r.get("seed_reads", 0), workdir)
        if why is not None:
            print(why)
            print("VIOLATION property=C13 replay=%s" % path)
            return 1
        print("replay passes")
        return 0
    ops = r["ops"]
    fe = fe_load(ops, r.get("finfo_expect"))
    bad, detail = failing(exe, ops, fe)
    rc, out, err = run_hist(exe, ops)
    exp = reference_lines(ops, fe)
    for i, op in enumerate(ops):
        o = out[i] if i < len(out) else "<no answer>"
        mark = "  " if (exp[i] is None or exp[i] == o) else "!!"
        print("%s %-60s impl: %s" % (mark, op[:60], o[:200]))
        if mark == "!!":
            print("   %-60s ref : %s" % ("", exp[i][:200]))
    if bad:
        print(json.dumps(detail, indent=1)[:3000])
        print("VIOLATION property=C13 replay=%s" % path)
        return 1
    print("replay passes")
    return 0
