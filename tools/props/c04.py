"""C04 — no input can make a decoder or parser misbehave.

Two halves:
  * OBSERVATION ENGINE (direct oracle on the real code, independent of Lean): harness/c04_*.c in the ASan+UBSan+assert
    build is fed valid, mutated, adversarial and random inputs through every decoding/parsing entry point under seeded
    slicing, memlimits and flags. Violation = sanitizer/assert abort, watchdog, leak, undocumented return code, broken
    position accounting, endless LZMA_OK, seek beyond the file, result depending on uninitialised memory.
  * THEOREMS (lean/XzVerif/Props/C04.lean): the arithmetic / termination / return-code logic that is meant to guarantee
    the above, on the executable model, bridged to the source by Gen/C04.lean (constants, sizeof of the probability arrays)
    and by a grid comparison of the index formulas with the real macros.
Memory safety and UB of the compiled C are OBSERVED, not proved: level "proof (partial)".
"""
import json, os, re, time
import vlib
import c04lib as L

META = {
    "category": "proof",
    "text": "Lean theorems on the executable model: EVERY array access of the executable LZMA1/LZMA2 decoder models (probability "
            "array, history, input) is within its array on every input, and every dict_get/dict_get0/dict_put/dict_repeat/dict_write "
            "happens with distance < dict.full and with the C-level index expressions inside the buffer (instrumented variants with "
            "partial accessors, which also test every probability index against the bounds of its OWN C member array (is_match, "
            "is_rep..., dist_slot, pos_special, pos_align, length-decoder members, literal; member_table_matches_code ties the "
            "table to the compiled struct), never report out-of-bounds and return exactly the executable result: "
            "decoder_accesses_in_bounds); no "
            "container/Index/VLI/file-info/index-iterator decoder model ever reaches its out-of-fuel branch with the fuel supplied "
            "(Option-valued instrumented twins f? return some(f ...) whenever the fuel exceeds the stated measure: "
            "decoder_fuel_never_exhausted, index_iterator_fuel_never_exhausted; the two loops whose 0 branch is a base case / "
            "the truncated-input answer need one more unit and the statement says so; fuel independence kept as "
            "decoder_fuel_independent); probability-array index formulas (literal_subcoder, dist/align/len coders) are in "
            "bounds for lc+lp<=4; one LZMA symbol reads at most 20 bytes, and 20 <= the source's LZMA_IN_REQUIRED (on the 203 bit shapes and on the executable "
            "symbol decoder itself); every seek request of the file-info decoder model lies inside the file; probabilities stay in [31,2017]; VLI "
            "decoding never exceeds 63 bits; Block Header size bounds; the Index record count is checked against the memory limit "
            "before anything is allocated; dictionary indices stay inside the allocation; lzma_code turns a second no-progress call "
            "into LZMA_BUF_ERROR and never lets an internal code escape; the x86 BCJ inner loop terminates. Tie: Gen/C04.lean "
            "(constants and sizeof from the source) + index formulas compared with the real macros on a grid. OBSERVATION: every "
            "decoder/parser entry point under ASan+UBSan+assert with exact-size buffers, counting allocator, watchdog, documented-"
            "return-code and no-progress checks on valid/mutated/adversarial/random inputs; valgrind memcheck sample (thorough).",
    "note": "proof (partial): absence of UB/out-of-bounds/uninitialised reads/leaks/deadlock in the compiled C is observed at run "
            "time only (sanitizers, valgrind, watchdog), on the inputs generated; theorems are about the model. Trusted: Lean "
            "kernel, gen probe, harness, compiler, sanitizer run-times.",
    "technique": "Lean 4 proof over an executable model + regenerated constants + direct sanitizer-instrumented oracle on the real code",
}

HARNESS = ["c04_main.c", "c04_stream.c", "c04_parse.c", "c04_gen.c", "c04_idx.c"]
TU = "src/liblzma/lzma/lzma_decoder.c"
RET = ["LZMA_OK", "LZMA_STREAM_END", "LZMA_NO_CHECK", "LZMA_UNSUPPORTED_CHECK", "LZMA_GET_CHECK", "LZMA_MEM_ERROR",
       "LZMA_MEMLIMIT_ERROR", "LZMA_FORMAT_ERROR", "LZMA_OPTIONS_ERROR", "LZMA_DATA_ERROR", "LZMA_BUF_ERROR", "LZMA_PROG_ERROR",
       "LZMA_SEEK_NEEDED"]
U64 = (1 << 64) - 1
ENV = {"ASAN_OPTIONS": "detect_leaks=1:abort_on_error=0:allocator_may_return_null=1:malloc_context_size=12",
       "UBSAN_OPTIONS": "print_stacktrace=1:halt_on_error=1"}


def ret_name(n):
    return RET[n] if 0 <= n < len(RET) else str(n)


# ----------------------------------------------------------------------------------------------------------------------
# running op lines with crash recovery
# ----------------------------------------------------------------------------------------------------------------------

HITS = {"n": 0}     # aborts + watchdog hits over all chunks of a run (threads of par_map share it)
HITS_MAX = 12


def run_chunk(exe, lines, env=None, pre=(), timeout=3000):
    """Feed lines; returns list of (line, result line or None, stderr if the process died on that line)."""
    res = []
    i = 0
    ncrash = 0
    e = dict(ENV)
    if env:
        e.update(env)
    while i < len(lines):
        if HITS["n"] >= HITS_MAX:
            break                         # plenty of replays already; every further abort/watchdog only costs time
        rc, out, err = vlib.run_lines(list(pre) + [exe], lines[i:], timeout=timeout, env=e)
        out = out[:len(lines) - i]
        for k, o in enumerate(out):
            res.append((lines[i + k], o, None))
        i += len(out)
        if i >= len(lines):
            if rc != 0 and not (out and "why=watchdog" in out[-1]):
                # all ops answered but the process still failed (LeakSanitizer at exit, valgrind error summary)
                res.append((None, None, "exit code %d after all ops\n%s" % (rc, err)))
            break
        if out and "why=watchdog" in out[-1]:
            HITS["n"] += 1
            continue                      # the watchdog line answers its op; go on with the rest
        # the op at index i killed the process
        res.append((lines[i], None, "exit code %d\n%s" % (rc, err)))
        i += 1
        ncrash += 1
        HITS["n"] += 1
        if ncrash >= 4:
            break                         # enough replays from this chunk; restarting after every abort is slow
    return res


def parse_res(line):
    d = {"status": line.split(" ", 1)[0]}
    for m in re.finditer(r"(\w+)=(\S+)", line):
        d[m.group(1)] = m.group(2)
    return d


# ----------------------------------------------------------------------------------------------------------------------
# corpus
# ----------------------------------------------------------------------------------------------------------------------

def build_corpus(ctx, exe):
    """Returns dict format -> list of (name, bytes); formats: xz lzma lz raw:<chain> micro block index."""
    rng = ctx.rng
    quick = ctx.quick()
    corpus = {}

    def add(fmt, name, data):
        corpus.setdefault(fmt, []).append((name, data))

    tdir = os.path.join(vlib.REPO, "tests", "files")
    for fn in sorted(os.listdir(tdir)):
        ext = fn.rsplit(".", 1)[-1]
        if ext in ("xz", "lzma", "lz"):
            data = open(os.path.join(tdir, fn), "rb").read()
            if len(data) <= 60000:
                add(ext, "tests/files/" + fn, data)
    # valid files of every format from the real encoders
    samples = L.samples(rng, quick)
    glines, gmeta = [], []
    for si, s in enumerate(samples):
        big = len(s) > 6000
        huge = len(s) > 60000
        for v in (rng.sample(range(256), 3 if huge else 6 if big else 14)):
            glines.append("gen xz %d %s" % (v, vlib.hexs(s))); gmeta.append(("xz", "gen-xz-v%d-s%d" % (v, si), s))
        for v in rng.sample(range(28), 1 if huge else 3 if big else 6):
            glines.append("gen alone %d %s" % (v, vlib.hexs(s))); gmeta.append(("lzma", "gen-alone-v%d-s%d" % (v, si), s))
        for v in (0, 1):
            glines.append("gen lzip %d %s" % (v, vlib.hexs(s))); gmeta.append(("lz", "gen-lzip-v%d-s%d" % (v, si), s))
        for v in (rng.sample(range(24), 2 if huge else 5 if big else 12)):
            glines.append("gen raw %d %s" % (v, vlib.hexs(s))); gmeta.append(("raw:%d" % v, "gen-raw-c%d-s%d" % (v, si), s))
        # valid raw streams made WITH decoder-relevant options: preset dictionaries of every size class (the samples that
        # contain the preset's text reference it), other lc/lp/pb, other dictionary sizes
        for _ in range(1 if huge else 3 if big else 8):
            v = rng.choice((0, 1, 2, 3, 4, 5, 7, 10, 12, 22, 23))
            mods = rng.choice((1, 2, 3, 4, 5, 3, 4)) | (rng.choice((0, 0, rng.randrange(1, 76))) << 8) | (rng.choice((0, 4, 6, 7)) << 16)
            glines.append("gen raw %d %s" % (v | (mods << 8), vlib.hexs(s)))
            gmeta.append(("raw:%d:%d" % (v, mods), "gen-raw-c%d-m%d-s%d" % (v, mods, si), s))
        glines.append("gen micro 0 %s" % vlib.hexs(s)); gmeta.append(("micro", "gen-micro-s%d" % si, s))
        for v in rng.sample(range(60), 1 if huge else 3 if big else 6):
            glines.append("gen block %d %s" % (v, vlib.hexs(s))); gmeta.append(("block:%d" % (v % 4), "gen-block-v%d-s%d" % (v, si), s))
        for v in range(5):
            glines.append("gen index %d %s" % (v, vlib.hexs(s[:2400]))); gmeta.append(("index", "gen-index-v%d-s%d" % (v, si), s))
    parts = vlib.chunks(list(zip(glines, gmeta)), vlib.NCPU)
    outs = vlib.par_map(lambda part: run_chunk(exe, [g for g, _ in part]), parts)
    plain = {}
    for part, res in zip(parts, outs):
        byline = {}
        for ln, o, err in res:
            if ln is not None:
                byline[ln] = (o, err)
        for g, (fmt, name, s) in part:
            o, err = byline.get(g, (None, "missing"))
            if o is None:
                ctx.violation("gen-abort", {"kind": "real encoder aborted while generating a valid input", "op": g[:400], "stderr": err}, True)
                continue
            if o.startswith("gen-failed") or o == "bad-op":
                ctx.count("gen-failed:" + fmt.split(":")[0])
                continue
            data = bytes.fromhex(o) if o != "-" else b""
            add(fmt, name, data)
            plain[name] = s
            ctx.count("generated-valid:" + fmt.split(":")[0])
    # valid files with >= 8 KiB of Stream Padding
    for name, data, unc in L.padded_files():
        add("xz", name, data)
        plain[name] = unc
    # pieces of valid .xz files: Blocks and Index fields
    for name, data in list(corpus.get("xz", [])):
        parts_ = L.xz_parts(data)
        if parts_:
            for bi, b in enumerate(parts_["blocks"][:3]):
                add("block:%d" % parts_["check"], name + "#block%d" % bi, b)
            add("index", name + "#index", parts_["index"])
    # hand-built adversarial containers
    for i, (fmt, data) in enumerate(L.adversarial(rng)):
        add({"xz": "xz", "lzma": "lzma", "lz": "lz", "index": "index"}[fmt], "adversarial-%s-%d" % (fmt, i), data)
    return corpus, plain


EP_OF = {
    "xz": ["stream", "mt", "auto", "fileinfo", "sbuf", "sflags", "stream", "mt", "fileinfo"],
    "lzma": ["alone", "auto", "alone"],
    "lz": ["lzip", "auto", "lzip"],
    "micro": ["micro"],
    "index": ["index", "ibuf", "ihash", "index"],
}
ALL_EPS = ["stream", "mt", "auto", "alone", "lzip", "micro", "raw", "block", "index", "fileinfo", "sbuf", "rbuf", "bbuf", "ibuf",
           "ihash", "bhdr", "sflags", "fflags", "props", "str2f", "vli"]
MEMLIMITS = [0, 1, 1000, 40000, 65536, 100000, 1 << 20, 9 << 20, 100 << 20, U64, U64, U64]
FLAG_BITS = [0x01, 0x02, 0x04, 0x08, 0x10, 0x20]


def pick_flags(rng):
    r = rng.random()
    if r < 0.15:
        return 0
    if r < 0.25:
        return 0x08
    if r < 0.97:
        return rng.randrange(64)
    return rng.randrange(64) | rng.choice((0x40, 0x80, 0x100, 1 << 31))


def op_line(rng, ep, data, fmt=None, dual=True):
    """One op line for entry point ep on data (fmt = native format tag of the data, for sensible parameters)."""
    seed = rng.getrandbits(48)
    p = [0, 0, 0, 0]
    if ep in ("stream", "auto", "lzip", "sbuf"):
        p[0] = pick_flags(rng)
        p[1] = rng.choice(MEMLIMITS)
        if ep == "sbuf":
            p[2] = rng.choice((0, 0, 0, 1, 2, 14, 101, 4097))
    elif ep == "mt":
        p[0] = pick_flags(rng)
        p[1] = rng.choice(MEMLIMITS)
        threads = rng.choice((1, 2, 3, 4, 4, 2)) if rng.random() < 0.98 else 0
        timeout = rng.choice((0, 0, 0, 1, 3, 50))
        p[2] = threads | (timeout << 8)
        p[3] = rng.choice(MEMLIMITS)
    elif ep == "alone":
        p[1] = rng.choice(MEMLIMITS)
    elif ep == "micro":
        p[0] = rng.choice((0, 0, 0, 1, 2, 3, 4, 5))
        p[1] = rng.choice((0, 1, 13, 100, 5000, 10000, 1 << 20, (1 << 63) - 1, 1 << 63, U64))
        p[2] = rng.randrange(2)
        p[3] = rng.choice((0, 1, 4096, 65536, 1 << 20, 0xFFFFFFFF))
    elif ep in ("raw", "rbuf"):
        if fmt and fmt.startswith("raw:") and rng.random() < 0.7:
            p[0], p[3] = raw_tag(fmt)
            if rng.random() < 0.3:
                p[3] = raw_mods(rng)
        elif fmt == "lzma" and rng.random() < 0.5:
            p[0] = 3
            p[3] = raw_mods(rng)
        else:
            p[0] = rng.randrange(29)
            p[3] = raw_mods(rng)
        p[1] = rng.choice((0, 1, 100, 5000, U64, len(data)))
        if ep == "rbuf":
            p[2] = rng.choice((0, 0, 0, 1, 2, 14, 101, 4097))
    elif ep in ("block", "bbuf", "bhdr"):
        p[0] = int(fmt[6:]) if (fmt and fmt.startswith("block:") and rng.random() < 0.8) else rng.randrange(16)
        p[1] = rng.randrange(2)
        p[3] = rng.randrange(2)            # lzma_block.version 0 / 1
        if ep == "bbuf":
            p[2] = rng.choice((0, 0, 0, 1, 2, 14, 101, 4097))
    elif ep in ("index", "ibuf"):
        p[1] = rng.choice(MEMLIMITS + [U64])
    elif ep == "fileinfo":
        p[1] = rng.choice(MEMLIMITS + [U64, U64])
        p[2] = rng.choice((0, 0, 0, 0, 0, 1, 2, 3))
    elif ep == "props":
        p[0] = rng.randrange(20)
    elif ep == "str2f":
        p[0] = rng.choice((0, 1, 2, 3, 0, 1, 0x10, 0x20, 0x100))
    cmd = "run2" if dual else "run"
    return "%s %s %d %d %d %d %d %s" % (cmd, ep, seed, p[0], p[1], p[2], p[3], vlib.hexs(data))


def benign_ops(ctx, corpus, plain):
    """Non-vacuity: every valid input (generated by the real encoders, or tests/files/good-*) given to its own decoder
    with harmless parameters must be decoded completely, under whatever slicing the seed picks.
    Returns list of (op line, expected final lzma_ret)."""
    rng = ctx.rng
    out = []
    for fmt in sorted(corpus):
        for name, data in corpus[fmt]:
            if not (name.startswith("gen-") or name.startswith("tests/files/good-")) or "#" in name:
                continue
            if len(data) > 70000:
                continue
            seed = rng.getrandbits(48)
            def ln(ep, p, cmd="run2"):
                return "%s %s %d %d %d %d %d %s" % (cmd, ep, seed, p[0], p[1], p[2], p[3], vlib.hexs(data))
            # the single-call functions get a 256 KiB output buffer: only expect success when the output is known to fit
            fits = (len(plain[name]) <= 200000) if name in plain else len(data) <= 20000
            if fmt == "xz":
                out.append((ln("stream", (0, U64, 0, 0)), 1))
                out.append((ln("mt", (0, U64, rng.choice((1, 2, 4)), U64), "run"), 1))
                out.append((ln("fileinfo", (0, U64, 0, 0)), 1))
                if fits:
                    out.append((ln("sbuf", (0, U64, 0, 0)), 0))
            elif fmt == "lzma":
                out.append((ln("alone", (0, U64, 0, 0)), 1))
                out.append((ln("auto", (0, U64, 0, 0)), 1))
            elif fmt == "lz":
                out.append((ln("lzip", (0, U64, 0, 0)), 1))
            elif fmt.startswith("raw:") and name in plain:
                out.append((ln("raw", (raw_tag(fmt)[0], len(plain[name]), 0, raw_tag(fmt)[1])), 1))
            elif fmt == "micro" and name in plain:
                out.append((ln("micro", (0, len(plain[name]), 1, 4096)), 1))
            elif fmt.startswith("block:") and name in plain:
                for ver in (0, 1):
                    out.append((ln("block", (int(fmt[6:]), 0, 0, ver)), 1))
                    if fits:
                        out.append((ln("bbuf", (int(fmt[6:]), 0, 0, ver)), 0))
            elif fmt == "index" and name in plain:
                out.append((ln("index", (0, U64, 0, 0)), 1))
                out.append((ln("ibuf", (0, U64, 0, 0)), 0))
    return out


def raw_tag(fmt):
    """'raw:<chain>[:<mods>]' -> (chain, mods)"""
    t = fmt.split(":")
    return int(t[1]), (int(t[2]) if len(t) > 2 else 0)


def raw_mods(rng):
    """Decoder-side option modifiers of harness c04_chain_mods: preset dictionary | lc/lp/pb << 8 | dict size << 16 | ext_flags << 24."""
    if rng.random() < 0.4:
        return 0
    pm = rng.choice((0, 1, 2, 3, 4, 5, 2, 3))
    lm = rng.choice((0, 0, rng.randrange(1, 76)))
    dm = rng.choice((0, 0, 0, rng.randrange(1, 9)))
    em = rng.choice((0, 0, 0, 1, 2, 3))
    return pm | (lm << 8) | (dm << 16) | (em << 24)


def native_eps(fmt):
    if fmt in EP_OF:
        return EP_OF[fmt]
    if fmt.startswith("raw:"):
        return ["raw", "raw", "rbuf"]
    if fmt.startswith("block:"):
        return ["block", "block", "bbuf", "bhdr", "fflags"]
    return ALL_EPS


def gen_ops(ctx, corpus, target):
    rng = ctx.rng
    quick = ctx.quick()
    lines = []
    pool_all = [d for items in corpus.values() for _, d in items]
    fmts = sorted(corpus)

    def emit(ep, data, fmt, kind):
        if len(data) > 70000:
            data = data[:70000]
        lines.append(op_line(rng, ep, data, fmt, dual=(rng.random() < (0.7 if quick else 0.5))))
        ctx.count("ep:" + ep)
        ctx.count("input:" + kind)

    # 1. every corpus file through its native entry points (intact)
    for fmt in fmts:
        for name, data in corpus[fmt]:
            eps = native_eps(fmt)
            reps = 2 if (name.startswith("tests/files") or name.startswith("adversarial")) else 1
            for ep in sorted(set(eps)):
                for _ in range(reps):
                    emit(ep, data, fmt, "intact")
    # 1c. raw LZMA2 decoders with and without a preset dictionary x every kind of FIRST chunk (LZMA chunk without properties
    #     with/without state reset = must be LZMA_DATA_ERROR; with properties; uncompressed with/without dictionary reset; end)
    for chain in (0, 1, 2, 10, 12):
        for pm in (0, 1, 2, 3, 4, 5):
            for ctrl in (0x80, 0x9F, 0xA0, 0xBF, 0xC0, 0xDF, 0xE0, 0xFF, 0x01, 0x02, 0x00, 0x03):
                for _ in range(1 if quick else 3):
                    pay = L.rc_noise(rng, rng.choice((5, 30, 200)))
                    if ctrl >= 0x80:
                        chunk = bytes([ctrl]) + bytes([rng.randrange(256), rng.randrange(256)]) + (len(pay) - 1).to_bytes(2, "big")
                        if ctrl >= 0xC0:
                            chunk += bytes([rng.choice((0x5D, 0, 44, 224, 100))])
                        chunk += pay
                    elif ctrl in (1, 2):
                        chunk = bytes([ctrl]) + (len(pay) - 1).to_bytes(2, "big") + pay
                    else:
                        chunk = bytes([ctrl])
                    data = chunk + (L.lzma2_chunks(rng) if rng.random() < 0.5 else b"\x00")
                    for ep in ("raw", "rbuf"):
                        lines.append("run2 %s %d %d %d %d %d %s" % (ep, rng.getrandbits(48), chain, 0,
                                                                    0, pm | (rng.choice((0, 0, rng.randrange(1, 76))) << 8), vlib.hexs(data)))
                        ctx.count("ep:" + ep)
                        ctx.count("input:lzma2-first-chunk-matrix")
    # 1b. Block entry points: lzma_block.version 0 and 1 x ignore_check x the Block's own / None / reserved / other Check IDs
    for fmt in fmts:
        if not fmt.startswith("block:"):
            continue
        own = int(fmt[6:])
        items = corpus[fmt]
        if len(items) > 12:
            items = rng.sample(items, 12)
        for name, data in items:
            if len(data) > 20000:
                continue
            for ver in (0, 1):
                for chk in sorted({own, 0, 1, rng.choice((2, 3, 5, 6, 7, 8, 9, 11, 12, 13, 14, 15))}):
                    for ep in ("block", "bbuf"):
                        seed = rng.getrandbits(48)
                        lines.append("run2 %s %d %d %d 0 %d %s" % (ep, seed, chk, rng.randrange(2), ver, vlib.hexs(data)))
                        ctx.count("ep:" + ep)
                        ctx.count("input:block-matrix")
    # 2. text inputs of lzma_str_to_filters
    for s in L.filter_strings(rng, quick):
        emit("str2f", s, None, "filter-string")
    # 3. small parsers on short structured / random inputs
    for _ in range(300 if quick else 3000):
        n = rng.choice((0, 1, 2, 5, 9, 10, 12))
        b = bytes(rng.choice((0xFF, 0x80, 0x7F, 0x00, rng.getrandbits(8))) for _ in range(n))
        emit("vli", b, None, "noise")
    for _ in range(200 if quick else 2000):
        fid = rng.choice((0x21, 0x03, 0x04, 0x0A, 0x0B, 0x05, 0x09, 0x22, 0x00))
        props = bytes(rng.getrandbits(8) for _ in range(rng.choice((0, 1, 1, 4, 4, 5, 2, 9))))
        ff = L.vli(fid) + L.vli(len(props) if rng.random() < 0.8 else rng.choice((0, 1, 5, 200, L.VLI_MAX))) + props
        emit("fflags", ff + (L.vli(0x21) + b"\x01\x00" if rng.random() < 0.5 else b""), None, "structured")
        emit("props", props, None, "structured")
    # 4. noise
    for b in L.noise(rng, quick):
        for ep in rng.sample(ALL_EPS, 3):
            emit(ep, b, None, "noise")
    # 4b. valid containers around noise payloads (the symbol decoders, dictionary copies and LZMA2 chunk logic on arbitrary data)
    for fmt, b in L.decoder_noise(rng, quick):
        eps = native_eps(fmt)
        for ep in sorted(set(eps)):
            emit(ep, b, fmt, "decoder-noise")
    # 5. structure-aware mutations until the target is reached
    weights = []
    for fmt in fmts:
        w = {"xz": 10, "lzma": 4, "lz": 4, "micro": 2, "index": 3}.get(fmt, 2 if fmt.startswith("block") else 1)
        weights.append(w)
    guard = 0
    while len(lines) < target and guard < 10 * target:
        guard += 1
        fmt = rng.choices(fmts, weights)[0]
        name, data = rng.choice(corpus[fmt])
        if len(data) > 30000 and rng.random() < 0.8:
            continue
        m = data
        for _ in range(rng.choice((1, 1, 1, 2, 3))):
            m = L.mutate(rng, m, pool_all)
        kind = "mutated"
        r = rng.random()
        if fmt == "xz" and r < 0.5:
            m = L.fix_xz_crcs(m); kind = "mutated+crc-fixed"
        elif fmt.startswith("block") and r < 0.5:
            m = L.fix_block_crc(m); kind = "mutated+crc-fixed"
        elif fmt == "index" and r < 0.5:
            m = L.fix_index_crc(m); kind = "mutated+crc-fixed"
        eps = native_eps(fmt)
        ep = rng.choice(eps) if rng.random() < 0.85 else rng.choice(ALL_EPS)
        emit(ep, m, fmt, kind)
    rng.shuffle(lines)
    return lines


# ----------------------------------------------------------------------------------------------------------------------
# stages
# ----------------------------------------------------------------------------------------------------------------------

def build_harness(ctx, variant="asan"):
    okb, log, _ = vlib.c_build(variant, targets=["liblzma"])
    if not okb:
        ctx.obligation_broken("stage B: /repo does not build (%s)" % variant, log)
        return None
    okh, log, exe = vlib.harness_build("c04", HARNESS, variant=variant, tu=TU)
    if not okh:
        ctx.obligation_broken("stage B: C04 harness does not compile against /repo (%s)" % variant, log)
        return None
    return exe


def judge(ctx, results, stage):
    """results: list of (line, out, err). Reports violations; returns number of executions."""
    n_exec = 0
    nviol = 0
    for ln, o, err in results:
        if ln is None:
            if nviol < 6:
                ctx.violation(stage + "-process", {"kind": "harness process failed after answering all ops (LeakSanitizer / memcheck summary)",
                                                   "stderr": err}, False)
            nviol += 1
            continue
        t = ln.split()
        ep = t[1] if len(t) > 1 else "?"
        n_exec += 4 if t[0] == "run2" else 1     # run2 = fresh (junk A) + fresh (junk B) + priming run(s) + reused handle
        replay = {"op": ln, "entry_point": ep, "slicing_seed": t[2] if len(t) > 2 else None, "params": t[3:7],
                  "input_hex": t[7] if len(t) > 7 else None,
                  "how_to_replay": "./check C04 --replay <this file>   (or: echo '<op>' | .cache/harness-asan/c04)"}
        if o is None:
            m = re.search(r"(ERROR: \w+Sanitizer: [^\n]*|runtime error: [^\n]*|Assertion[^\n]*failed[^\n]*|SUMMARY: [^\n]*"
                          r"|Conditional jump or move depends on uninitialised[^\n]*|Use of uninitialised[^\n]*"
                          r"|Invalid (?:read|write) of size[^\n]*|Syscall param[^\n]*|[^\n]*definitely lost[^\n]*)", err or "")
            replay.update({"kind": "implementation aborted (sanitizer / assert / crash)", "what": m.group(1) if m else "process died", "stderr": err})
            ctx.count("abort", table="correspondence")
            if nviol < 6:
                ctx.violation(stage + "-abort-" + ep, replay, True, key="C04:abort:%s:%s" % (ep, (m.group(1) if m else "died")[:80]))
            nviol += 1
            continue
        d = parse_res(o)
        if d["status"] == "BAD":
            replay.update({"kind": "observer reported a violation", "what": d.get("why", "?"), "result": o})
            ctx.count("bad:" + d.get("why", "?").split(":")[0], table="correspondence")
            if nviol < 6:
                ctx.violation(stage + "-" + ep + "-" + d.get("why", "?")[:30], replay, True, key="C04:%s:%s" % (ep, d.get("why", "?")[:60]))
            nviol += 1
            continue
        if d["status"] != "ok":
            raise RuntimeError("unexpected harness output: " + o[:200])
        ctx.count("%s:%s" % (ep, ret_name(int(d.get("ret", "-1")))) if d.get("ret") != "-1" else "%s:init=%s" % (ep, ret_name(int(d.get("init", "-1")))))
        if int(d.get("noprog", 0)) > 0:
            ctx.count("no-progress-call-seen")
        if int(d.get("refused", 0)) > 0:
            ctx.count("allocation-refused(over-cap)")
        if int(d.get("seeks", 0)) > 0:
            ctx.count("seek-needed")
        nontrivial = int(d.get("calls", 0)) > 0
        ctx.case(ln, nontrivial=nontrivial, sample=({"op": ln[:200], "result": o} if ctx.cov["evaluations"] % 2503 == 0 else None))
    return n_exec


def idx_grid(ctx, exe, model_ok):
    """Real macros vs the Lean formulas on a grid (literal_subcoder offset, dict_get index, get_dist_state)."""
    rng = ctx.rng
    HITS["n"] = 0
    lines = []
    for lc in range(5):
        for lp in range(5 - lc):
            for pos in (0, 1, 2, 3, 7, 15, 16, 255, 256, 4095, 0xFFFFFFFF, rng.getrandbits(32)):
                for prev in (0, 1, 0x7F, 0x80, 0xFF, rng.getrandbits(8)):
                    lines.append("idx lit %d %d %d %d" % (lc, lp, pos, prev))
    for dict_size in (4096, 4112, 8192):
        size = dict_size + 576
        for _ in range(120 if ctx.quick() else 600):
            pos = rng.choice((1, 2, 287, 288, 576, 577, size - 1, size, rng.randrange(1, size + 1)))
            if rng.random() < 0.5:
                dist = rng.randrange(0, pos)
            else:
                dist = rng.randrange(pos, pos + size - 288)          # wrapped: index = pos - dist - 1 + size - 288 >= 0
            lines.append("idx dget %d %d %d" % (pos, size, dist))
    for ln_ in range(2, 280):
        lines.append("idx dstate %d" % ln_)
    res = run_chunk(exe, lines)
    c_out = [o for _, o, _ in res]
    if any(o is None for o in c_out) or len(c_out) != len(lines):
        bad = [(l, e) for l, o, e in res if o is None][:1]
        ctx.violation("idx-abort", {"kind": "real index macro evaluation aborted", "op": bad[0][0] if bad else None, "stderr": bad[0][1] if bad else None}, True)
        return
    mism = 0
    if model_ok:
        rc, m_out, err = vlib.run_lines([vlib.model_exe("xzm_c04")], lines)
        if len(m_out) != len(lines):
            ctx.obligation_broken("model driver xzm_c04 failed to answer every op", err)
        else:
            for l, c, m in zip(lines, c_out, m_out):
                if c != m:
                    mism += 1
                    if mism <= 3:
                        ctx.obligation_broken("correspondence C04 index formulas: model %s vs code %s on `%s`" % (m, c, l), l)
    ctx.cov["correspondence"]["index_formula_grid"] = {"ops": len(lines), "mismatches": mism, "model_ran": bool(model_ok)}
    # in-bounds check of the REAL formula, independent of Lean: offset + 0x300 <= 0x300 << (lc+lp)
    for l, c in zip(lines, c_out):
        t = l.split()
        if t[1] == "lit":
            lc, lp = int(t[2]), int(t[3])
            if int(c) + 0x300 > (0x300 << (lc + lp)):
                ctx.violation("literal-subcoder-out-of-bounds", {"kind": "literal_subcoder offset outside the lc/lp-sized region", "op": l, "offset": c}, True)
                break
        if t[1] == "dstate" and int(c) > 3:
            ctx.violation("dist-state-out-of-bounds", {"kind": "get_dist_state >= DIST_STATES", "op": l, "value": c}, True)
            break


def run(ctx):
    quick = ctx.quick()
    ctx.cov["claim"] = ("proof (partial): the theorems (obligations/discharged) cover the index arithmetic, byte-count, termination, "
                        "return-code and no-progress logic on the executable models; memory safety / UB / uninitialised reads / leaks / "
                        "deadlock of the compiled C are OBSERVED by the sanitizer-instrumented oracle whose counts are under "
                        "coverage.correspondence and coverage.distribution")
    ctx.cov["rule"] = ("op = (entry point, slicing seed, 4 parameters (flags/memlimit/threads/chain...), input bytes). Inputs: every "
                       "tests/files/* (.xz/.lzma/.lz), valid files of all formats from the real encoders (presets, checks, multi-block, "
                       "all filter chains), Blocks/Index fields cut out of them, hand-built CRC-correct containers with extreme fields, "
                       "structure-aware mutations (bit flips, truncations, field tweaks, splices, insertions; header CRCs recomputed for "
                       "half of them), raw noise with format magics, filter strings. Non-trivial = the entry point was actually called; "
                       "distinct by full op line; run2 ops execute on a fresh handle with junk fill 0xA5, on a fresh handle with junk fill 0x00 "
                       "(fresh heap memory and output buffers; nothing observable may differ), and on a REUSED handle (a lzma_stream that first ran "
                       "1-2 seeded coders on the same bytes, left in success / error / abandoned mid-stream, re-initialised without lzma_end), "
                       "with different junk in fresh memory; all results must be identical (4+ executions).")
    ctx.assumptions += [
        "proof (partial): memory safety / UB / uninitialised reads / leaks / deadlock of the compiled C are observed (ASan+UBSan+assert build, "
        "exact-size buffers, counting allocator, watchdog, junk-fill determinism check, valgrind sample in the thorough tier) on the generated inputs only",
        "the theorems are about the executable Lean model; the tie to the C text is Gen/C04.lean (constants, sizeof) + the index-formula grid + the "
        "models' own correspondences in C03/C11/C15",
        "documented return codes = the per-function lists in src/liblzma/api/lzma/*.h; LZMA_PROG_ERROR is treated as a violation because the "
        "harness never misuses the API; LZMA_MEM_ERROR is accepted only after the counting allocator refused an over-cap request",
        "MT decoder: number of calls depends on thread timing; only sanitizer/assert/watchdog/leak/return-code/no-progress(with timeout: watchdog) are judged",
    ]
    # G
    okb, logb, _ = vlib.c_build("asan", targets=["liblzma"])
    if not okb:
        ctx.obligation_broken("stage B: /repo does not build", logb)
        return "proof"
    okg, log = vlib.gen_probe("gen_c04", "gen_c04.c", "XzVerif.Gen.C04", variant="asan", tu=TU,
                              extra=["-ffunction-sections", "-fdata-sections", "-Wl,--gc-sections"])
    if not okg:
        ctx.obligation_broken("stage G: Gen/C04.lean cannot be regenerated from the LZMA decoder sources", log)
    # P
    p_ok = ctx.lean_stage(["XzVerif.Props.C04"], exes=["xzm_c04"]) if okg else False
    # `decoder_fuel_never_exhausted` and the list of structurally recursive decoders rest on the cited models being plain total
    # `def`s: no `partial` anywhere in what the proofs import
    for mod, path in sorted(vlib.local_imports("XzVerif.Props.C04").items()):
        src = vlib.strip_lean_comments(open(path).read())
        if re.search(r"\bpartial\s+def\b", src) and mod != "XzVerif.Model.Proto":
            ctx.obligation_broken("decoder_fuel_never_exhausted: `partial def` in " + mod, mod)
            p_ok = False
    # B
    exe = build_harness(ctx, "asan")
    if exe is None:
        return "proof"
    # K: observation engine
    t0 = time.time()
    corpus, plain = build_corpus(ctx, exe)
    target = int(os.environ.get("C04_TARGET", 40000 if quick else 250000))   # (C04_TARGET: development knob)
    lines = gen_ops(ctx, corpus, target)
    ctx.log("corpus %d files, %d op lines (%.1fs)" % (sum(len(v) for v in corpus.values()), len(lines), time.time() - t0))
    parts = vlib.chunks(lines, vlib.NCPU * 4)
    HITS["n"] = 0
    results = vlib.par_map(lambda ls: run_chunk(exe, ls), parts)
    flat = [r for part in results for r in part]
    n_exec = judge(ctx, flat, "observe")
    ctx.cov["correspondence"].update({"op_lines": len(lines), "executions": n_exec, "observer": "ASan+UBSan+assert build, exact-size buffers, "
                                      "counting allocator, watchdog, documented-code / no-progress / seek / determinism checks"})
    ctx.log("observation: %d op lines, %d executions, %.1fs" % (len(lines), n_exec, time.time() - t0))
    # non-vacuity: valid inputs are decoded completely by their own decoder (so the engine is not just watching rejections)
    ben = benign_ops(ctx, corpus, plain)
    HITS["n"] = 0
    bres = [r for part in vlib.par_map(lambda ls: run_chunk(exe, ls), vlib.chunks([l for l, _ in ben], vlib.NCPU)) for r in part]
    n_exec += judge(ctx, bres, "valid")
    exp = dict(ben)
    ok_valid = bad_valid = 0
    for ln, o, err in bres:
        if ln is None or o is None or not o.startswith("ok"):
            continue
        d = parse_res(o)
        if d.get("cap") == "1":
            continue
        if int(d.get("ret", -1)) == exp[ln]:
            ok_valid += 1
        else:
            bad_valid += 1
            if bad_valid <= 3:
                ctx.obligation_broken("non-vacuity: a valid input was not decoded by its own decoder (%s instead of %s)"
                                      % (ret_name(int(d.get("ret", -1))), ret_name(exp[ln])), ln[:600] + "\n" + o)
    ctx.cov["correspondence"].update({"valid_inputs_decoded_completely": ok_valid, "valid_inputs_not_decoded": bad_valid,
                                      "executions": n_exec})
    # K2: index formulas, real macros vs Lean
    idx_grid(ctx, exe, p_ok)
    # thorough: valgrind memcheck on a sample with the non-sanitizer build (uninitialised reads)
    if not quick:
        vexe = build_harness(ctx, "dbg")
        if vexe is not None:
            # all Block-entry-point ops on intact inputs' matrix first (version x Check ID), then a random sample
            blk_ops = [l for l in lines if l.split(" ", 2)[1] in ("block", "bbuf") and len(l) < 6000][:2500]
            sample = blk_ops + [(l if i % 3 == 0 else l.replace("run2 ", "run ", 1))
                                for i, l in enumerate(ctx.rng.sample(lines, min(len(lines), 8000))) if len(l) < 40000]
            vparts = vlib.chunks(sample, vlib.NCPU)
            pre = ["valgrind", "-q", "--error-exitcode=98", "--exit-on-first-error=yes", "--leak-check=full", "--errors-for-leak-kinds=definite",
                   "--track-origins=no", "--max-stackframe=4000000"]
            tv = time.time()
            HITS["n"] = 0
            vres = vlib.par_map(lambda ls: run_chunk(vexe, ls, env={"C04_NOFILL": "1", "C04_CPU": "2000", "C04_WALL": "3000"}, pre=pre), vparts)
            vflat = [r for part in vres for r in part]
            nv = judge(ctx, vflat, "memcheck")
            ctx.cov["correspondence"]["valgrind_memcheck_executions"] = nv
            ctx.log("valgrind memcheck: %d executions, %.1fs" % (nv, time.time() - tv))
    # S: a broken obligation with no failing input found is reported by finish(); the observation engine above IS the
    # direct oracle, it does not depend on the Lean side.
    return "proof"


def replay(ctx, path):
    import replaylib
    r = replaylib.load(ctx, path)
    if "op" not in r:
        return replaylib.obligations("C04", run, r, path)
    exe = build_harness(ctx, "asan")
    if exe is None:
        print("build failed")
        return 2
    res = run_chunk(exe, [r["op"]])
    for ln, o, err in res:
        print("op:", (ln or "")[:300])
        print("result:", o)
        if o is None or o.startswith("BAD"):
            print((err or "")[-3000:])
            print("VIOLATION property=C04 replay=%s" % path)
            return 1
    print("replay passes")
    return 0
