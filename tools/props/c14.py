"""C14 — CRC32, CRC64 and SHA-256 equal their standard definitions for all inputs."""
import hashlib, json, os, zlib
import vlib

META = {
    "category": "proof",
    "text": "Lean theorems (kernel-checked, standard axioms only): (1) the CRC tables compiled into liblzma (regenerated from the source each run) equal the tables generated from the IEEE 802.3 / ECMA-182 polynomials (all 8x256 + 4x256 entries); the models of lzma_crc32_generic (alignment prologue, slice-by-8, tail), lzma_crc64_generic (slice-by-4) and of the HAVE_SMALL variants equal the bit-at-a-time reference for EVERY buffer, alignment and initial value; chunking law; any single-byte error (hence any single flipped bit) changes the CRC. (2) CLMUL: a model of crc_x86_clmul.h over BitVec 128 (three size classes, four-lane fold512 loop, fold128 loop, partial block via the vmasks shuffles, 128->64 fold, Barrett reduction, shift-and-xor carry-less multiply) equals the reference for EVERY buffer and initial value, with the fold/Barrett constants and vmasks extracted from the compiled code and proved equal to x^k mod P / floor(x^128/P); hence table-driven and CLMUL models agree bit for bit. (3) SHA-256: FIPS 180-4 in textbook form vs. a model of sha256.c as written (rolling 16-word W, rotating T[(k-i)&7], nested-rotate sigma forms, 64-byte buffering, padding loop): sigma/Ch/Maj forms, transform = FIPS compression for every state and block, update/finish over ANY split into pieces = SHA-256 of the concatenation; SHA256_K, the initial state and the check sizes regenerated from the source and proved equal to the standard. (4) lzma_check_* dispatch: Check field = LE CRC32 / LE CRC64 / SHA-256 of the concatenation, other IDs write nothing. Tie: model driver vs. the real generic, CLMUL, HAVE_SMALL and public entry points, lzma_check_* and lzma_sha256_* on the same inputs (every length, every alignment, random splits, padding boundaries), three columns per CRC op (generic model / CLMUL model / reference).",
    "note": "Trusted: Lean kernel + propext/Classical.choice/Quot.sound (no bv_decide, no native_decide); the probes that print tables/constants by compiling and running the source; the harness; the C compiler; that the models mirror the C text (modelled, not verified: tied by the correspondence run on every check). Intrinsics (_mm_clmulepi64_si128, _mm_shuffle_epi8, ...) are modelled by their documented meaning. CPUID gate is a run-time fact of the machine; big-endian and non-x86 code paths (ARM64 CRC32, LoongArch) are not compiled here.",
    "technique": "Lean 4 proof over an executable model + regenerated tables/constants + differential correspondence",
}

HARNESS = ["c14_crc32.c", "c14_crc64.c", "c14_main.c", "c14_check.c", "c14_small32.c", "c14_small64.c"]
HTU = "src/liblzma/check/crc32_fast.c"
P64 = 0xC96C5795D7870F42
# other build configurations of the check code: (harness name, extra compiler flags after the build's own, what it selects)
CFG_SRCS = ["c14_crc32.c", "c14_crc64.c", "c14_small32.c", "c14_small64.c", "c14_cfg_main.c"]
CONFIGS = [
    ("c14nc", ["-UHAVE_FUNC_ATTRIBUTE_CONSTRUCTOR"], "no constructor attribute: first-call dispatch (crc32_dispatch/crc64_dispatch), mythread_once in crc*_small.c"),
    ("c14gen", ["-UHAVE_USABLE_CLMUL"], "table-driven code only (CRC32_GENERIC/CRC64_GENERIC), no run-time dispatch"),
    ("c14clmul", ["-mssse3", "-msse4.1", "-mpclmul"], "CLMUL code only (no tables, no run-time dispatch)"),
    ("c14na", ["-UTUKLIB_FAST_UNALIGNED_ACCESS"], "default dispatch, byte-by-byte read16/32/64le/be of tuklib_integer.h (no fast unaligned access)"),
    ("c14clmulna", ["-mssse3", "-msse4.1", "-mpclmul", "-UTUKLIB_FAST_UNALIGNED_ACCESS"], "CLMUL code only, byte-by-byte integer readers"),
    ("c14genna", ["-UHAVE_USABLE_CLMUL", "-UTUKLIB_FAST_UNALIGNED_ACCESS"], "table-driven code only, byte-by-byte integer readers"),
]
PROPS = ["XzVerif.Props.C14", "XzVerif.Props.C14Sha", "XzVerif.Props.C14Clmul"]


def crc64_py(data, crc=0):
    """Independent bitwise CRC-64/XZ (oracle used only by the search stage)."""
    c = crc ^ 0xFFFFFFFFFFFFFFFF
    for b in data:
        c ^= b
        for _ in range(8):
            c = (c >> 1) ^ P64 if c & 1 else c >> 1
    return c ^ 0xFFFFFFFFFFFFFFFF


# ---- independent arithmetic for the "huge single call" cases: CRC over a long run of zero bytes = multiplication by
# x^(8N) modulo the polynomial (reflected representation), computed by square-and-multiply
def _step1(c, poly):
    return (c >> 1) ^ poly if c & 1 else c >> 1


def _mulmod(a, b, poly, w):
    r = 0
    for i in range(w):
        if (b >> (w - 1 - i)) & 1:
            r ^= a
        a = _step1(a, poly)
    return r


def _xpow(n, poly, w):
    result, base = 1 << (w - 1), 1 << (w - 2)     # the polynomials 1 and x
    while n:
        if n & 1:
            result = _mulmod(result, base, poly, w)
        base = _mulmod(base, base, poly, w)
        n >>= 1
    return result


def _raw(data, c, poly):
    for b in data:
        c ^= b
        for _ in range(8):
            c = _step1(c, poly)
    return c


def crc_sparse(head, nzeros, tail, w):
    """standard CRC-w (init 0) of head ++ nzeros*b'\0' ++ tail"""
    poly = 0xEDB88320 if w == 32 else P64
    mask = (1 << w) - 1
    c = _raw(head, mask, poly)
    c = _mulmod(c, _xpow(8 * nzeros, poly, w), poly, w)
    c = _raw(tail, c, poly)
    return c ^ mask


HUGE_MAP = 4 * 1024 ** 3 + 16384
HUGE_EDGE = 8192


def huge_edges(seed):
    x = (seed * 2 + 1) & 0xFFFFFFFFFFFFFFFF
    out = bytearray()
    for _ in range(2 * HUGE_EDGE):
        x ^= (x << 13) & 0xFFFFFFFFFFFFFFFF
        x ^= x >> 7
        x ^= (x << 17) & 0xFFFFFFFFFFFFFFFF
        out.append((x >> 32) & 0xFF)
    return bytes(out[:HUGE_EDGE]), bytes(out[HUGE_EDGE:])


def huge_oracle(t):
    fn, size, seed = t[1], int(t[2]), int(t[3])
    head, tail = huge_edges(seed)
    nz = size - 2 * HUGE_EDGE
    if fn.startswith("crc32") or fn == "check1":
        v = crc_sparse(head, nz, tail, 32)
        return "%d %d" % (v, v) if fn != "check1" else "%s %s" % ((v.to_bytes(4, "little").hex(),) * 2)
    if fn.startswith("crc64") or fn == "check4":
        v = crc_sparse(head, nz, tail, 64)
        return "%d %d" % (v, v) if fn != "check4" else "%s %s" % ((v.to_bytes(8, "little").hex(),) * 2)
    if fn in ("sha256", "sha256p"):
        h = hashlib.sha256()
        h.update(head)
        z = bytes(1 << 24)
        left = nz
        while left > 0:
            k = min(left, len(z))
            h.update(z[:k] if k < len(z) else z)
            left -= k
        h.update(tail)
        return h.hexdigest()
    return "bad-op"


def huge_cases(ctx):
    G = 4 * 1024 ** 3
    H = 1 << 29     # 512 MiB: from here on the bit length needs more than 32 bits (carry into the high word)
    seed = ctx.rng.randrange(1, 1 << 30)
    if ctx.quick():
        out = ["huge %s %d %d" % (fn, size, seed) for size in (G + 64, G + 12345) for fn in ("crc32pub", "crc64pub")]
        out += ["huge sha256p %d %d" % (H, seed), "huge sha256 %d %d" % (H + 12345, seed)]
        return out
    out = ["huge %s %d %d" % (fn, size, seed) for size in (G - 1, G + 64, G + 12345)
           for fn in ("crc32pub", "crc64pub", "crc32arch", "crc64arch", "crc32gen", "crc64gen")]
    out += ["huge check1 %d %d" % (G + 12345, seed), "huge check4 %d %d" % (G + 64, seed), "huge sha256 %d %d" % (G + 64, seed)]
    out += ["huge sha256p %d %d" % (n, seed) for n in (H - 1, H, H + 12345, (1 << 30) + 5, 3 * H + 77, G - 1)]
    out += ["huge sha256 %d %d" % (H + 12345, seed)]
    # longest first, so that the 4 GiB SHA-256 passes overlap with everything else
    out.sort(key=lambda ln: (0 if "sha256" in ln else 1, -int(ln.split()[2])))
    return out


def hx(s):
    return b"" if s == "-" else bytes.fromhex(s)


# --------------------------------------------------------------------------------------------
# stage G: Gen/C14.lean = output of two probes compiled with the build's flags (helper local to this property
# because vlib.gen_probe writes one module per probe and crc_x86_clmul.h can be included only once per TU)
# --------------------------------------------------------------------------------------------

def gen_all():
    outdir = os.path.join(vlib.CACHE, "gen")
    os.makedirs(outdir, exist_ok=True)
    try:
        flags = [f for f in vlib.lib_flags("asan", "src/liblzma/check/sha256.c")
                 if (f.startswith("-D") or f.startswith("-I") or f.startswith("-std")) and "NDEBUG" not in f]
    except Exception as ex:
        return False, "no compile flags for sha256.c: %s" % ex
    body = ["-- GENERATED by harness/gen_c14.c + gen_c14b.c from /repo/src/liblzma/check (crc*_table_le.h, sha256.c, check.c,",
            "-- crc_x86_clmul.h) by compiling and running the source with the build's flags; do not edit.",
            "namespace XzVerif.Gen.C14", ""]
    with vlib.Lock("gen-c14"):
        for name in ("gen_c14", "gen_c14b"):
            exe = os.path.join(outdir, name)
            rc, out = vlib.sh(["cc", "-O0", "-w"] + flags + [os.path.join(vlib.ROOT, "harness", name + ".c"), "-o", exe], timeout=300)
            if rc != 0:
                return False, "probe %s does not compile:\n%s" % (name, out[-3000:])
            rc, out = vlib.sh([exe], timeout=300)
            if rc != 0:
                return False, "probe %s failed:\n%s" % (name, out[-2000:])
            body.append(out)
    body.append("end XzVerif.Gen.C14\n")
    vlib.write_if_changed(vlib.module_path("XzVerif.Gen.C14"), "\n".join(body))
    return True, ""


# --------------------------------------------------------------------------------------------
# cases
# --------------------------------------------------------------------------------------------

def gen_cases(ctx):
    rng = ctx.rng
    quick = ctx.quick()
    lines = []

    def data(n, kind):
        if kind == 0:
            return rng.randbytes(n)
        if kind == 1:
            return bytes([rng.getrandbits(8)]) * n
        if kind == 2:
            return bytes((i * 7 + 3) & 0xFF for i in range(n))
        return bytes(rng.choice((0, 0xFF, 0x80, 1)) for _ in range(n))

    def init(w):
        r = rng.random()
        if r < 0.4:
            return 0
        if r < 0.5:
            return (1 << w) - 1
        return rng.getrandbits(w)

    def split(b, k):
        """k random cut points (zero-length pieces allowed)"""
        cuts = sorted(rng.randrange(len(b) + 1) for _ in range(k))
        out, prev = [], 0
        for c in cuts + [len(b)]:
            out.append(b[prev:c])
            prev = c
        return out

    # ---- CRC: every length 0..N at rotating alignments (covers the <8/<16/>=16 CLMUL classes and the slice loops)
    top = 260 if quick else 1200
    for n in range(0, top):
        for w in (32, 64):
            al = rng.randrange(64)
            lines.append("crc%d %d %d %s" % (w, al, init(w), vlib.hexs(data(n, rng.randrange(4)))))
            ctx.count("crc len<16" if n < 16 else "crc len<128" if n < 128 else "crc len>=128")
    # every (length 0..24) x (alignment 0..15): the `size > 8` / `size > 4` guards and the alignment prologues of the
    # generic code (buffers end exactly at the end of their allocation, so ASan sees a prologue that overruns)
    for n in range(0, 25):
        for al in range(16):
            for w in (32, 64):
                lines.append("crc%d %d %d %s" % (w, al, init(w), vlib.hexs(data(n, 0))))
                ctx.count("crc small x alignment sweep")
    # tiny and short buffers that END at a page end followed by an inaccessible page (code that loads whole words near the
    # end of the input, or behaves differently close to a page boundary)
    for n in list(range(0, 41)) + [63, 64, 65, 127, 128, 129, 4095, 4096, 4097]:
        for w in (32, 64):
            lines.append("crc%dg %d %s" % (w, init(w), vlib.hexs(data(n, rng.randrange(4)))))
            ctx.count("crc buffer at a page end + guard page")
    # every alignment 0..63 at a few lengths
    for al in range(64):
        for n in (9, 17, 40, 129) if quick else (5, 9, 15, 16, 17, 31, 40, 64, 129, 255, 1031):
            for w in (32, 64):
                lines.append("crc%d %d %d %s" % (w, al, init(w), vlib.hexs(data(n, 0))))
                ctx.count("crc align-sweep")
    # larger random buffers
    for _ in range(24 if quick else 160):
        n = rng.randrange(1000, 6000 if quick else 40000)
        for w in (32, 64):
            lines.append("crc%d %d %d %s" % (w, rng.randrange(64), init(w), vlib.hexs(data(n, rng.randrange(4)))))
            ctx.count("crc large")
    # consecutive pieces through the public API
    for _ in range(150 if quick else 2000):
        w = rng.choice((32, 64))
        k = rng.randrange(1, 6)
        pieces = [vlib.hexs(data(rng.choice((0, 1, 3, 7, 8, 15, 16, 17, rng.randrange(300))), rng.randrange(4))) for _ in range(k)]
        lines.append("crc%ds %d %s" % (w, init(w), " ".join(pieces)))
        ctx.count("crc pieces")
    # ---- HAVE_SMALL variants: run-time generated tables and the byte-at-a-time loop
    lines += ["smalltab32", "smalltab64"]
    for n in list(range(0, 40)) + [rng.randrange(40, 2000) for _ in range(10 if quick else 100)]:
        for w in (32, 64):
            lines.append("small%d %d %s" % (w, init(w), vlib.hexs(data(n, rng.randrange(4)))))
            ctx.count("small")
    # ---- SHA-256: every length 0..300 in one piece (padding boundaries 55/56/63/64/119/120 are inside)
    for n in range(0, 301):
        lines.append("sha256 %s" % vlib.hexs(data(n, rng.randrange(4))))
        ctx.count("sha one-piece")
    # every length around the boundaries, with every split point of a two-piece split (quick: a random subset)
    for n in (0, 1, 54, 55, 56, 57, 62, 63, 64, 65, 118, 119, 120, 121, 127, 128, 129, 183, 184, 191, 192, 193):
        b = data(n, 0)
        cuts = range(n + 1) if not quick else sorted(set([0, n] + [rng.randrange(n + 1) for _ in range(6)]))
        for c in cuts:
            lines.append("sha256s %s %s" % (vlib.hexs(b[:c]), vlib.hexs(b[c:])))
            ctx.count("sha two-piece boundary")
    # random multi-way splits, lengths up to 300 (thorough: some up to 5000), empty pieces included
    for _ in range(200 if quick else 3000):
        n = rng.randrange(0, 301) if rng.random() < 0.9 or quick else rng.randrange(300, 5000)
        b = data(n, rng.randrange(4))
        ps = split(b, rng.randrange(1, 7))
        lines.append("sha256s " + " ".join(vlib.hexs(p) for p in ps))
        ctx.count("sha random split")
    lines.append("sha256s")  # no update call at all
    # byte-at-a-time feeding
    for n in (1, 55, 56, 64, 65, 120) if quick else (1, 2, 55, 56, 57, 63, 64, 65, 119, 120, 128, 200):
        b = data(n, 0)
        if n < 60:
            lines.append("sha256s " + " ".join(vlib.hexs(b[i:i + 1]) for i in range(n)))
            ctx.count("sha bytewise")
    # ---- lzma_check_* dispatch: all ids 0..15 and out of range, zero to four pieces
    for cid in list(range(0, 17)) + [31, 255, 4294967295]:
        for _ in range(3 if quick else 12):
            n = rng.choice((0, 1, 9, 63, 64, 65, rng.randrange(300)))
            ps = split(data(n, rng.randrange(4)), rng.randrange(0, 4))
            lines.append("check %d %s" % (cid, " ".join(vlib.hexs(p) for p in ps)))
            ctx.count("check id %s" % (cid if cid in (0, 1, 4, 10) else "unsupported" if cid < 16 else "out-of-range"))
    for cid in (1, 4, 10):
        lines.append("check %d" % cid)   # init + finish without update
        for _ in range(20 if quick else 200):
            n = rng.randrange(0, 400)
            ps = split(data(n, rng.randrange(4)), rng.randrange(0, 5))
            lines.append("check %d %s" % (cid, " ".join(vlib.hexs(p) for p in ps)))
            ctx.count("check id %d" % cid)
    return lines


CHECK_SIZES = [0, 4, 4, 4, 8, 8, 8, 16, 16, 16, 32, 32, 32, 64, 64, 64]


def oracle(line):
    """Standard value of an op line according to Python (zlib / hashlib / bitwise CRC64): the expected output line."""
    t = line.split()
    if t[0] == "crc32":
        v = zlib.crc32(hx(t[3]), int(t[2])) & 0xFFFFFFFF
        return "%d %d %d" % (v, v, v)
    if t[0] == "crc64":
        v = crc64_py(hx(t[3]), int(t[2]))
        return "%d %d %d" % (v, v, v)
    if t[0] == "tuk":
        return tuk_oracle(t)
    if t[0] == "crc32g":
        v = zlib.crc32(hx(t[2]), int(t[1])) & 0xFFFFFFFF
        return "%d %d %d" % (v, v, v)
    if t[0] == "crc64g":
        v = crc64_py(hx(t[2]), int(t[1]))
        return "%d %d %d" % (v, v, v)
    if t[0] == "crc32s":
        return str(zlib.crc32(b"".join(hx(x) for x in t[2:]), int(t[1])) & 0xFFFFFFFF)
    if t[0] == "crc64s":
        return str(crc64_py(b"".join(hx(x) for x in t[2:]), int(t[1])))
    if t[0] == "small32":
        return str(zlib.crc32(hx(t[2]), int(t[1])) & 0xFFFFFFFF)
    if t[0] == "small64":
        return str(crc64_py(hx(t[2]), int(t[1])))
    if t[0] == "smalltab32":
        return ",".join(str(_tab(b, 0xEDB88320)) for b in range(256))
    if t[0] == "smalltab64":
        return ",".join(str(_tab(b, P64)) for b in range(256))
    if t[0] in ("sha256", "sha256s"):
        d = hashlib.sha256(b"".join(hx(x) for x in t[1:])).hexdigest()
        return d + " " + d
    if t[0] == "huge":
        return huge_oracle(t)
    if t[0].startswith("cfg"):
        return cfg_oracle(t)
    if t[0] == "check":
        cid = int(t[1]) % (1 << 32)
        msg = b"".join(hx(x) for x in t[2:])
        if cid > 15:
            return "4294967295 0 -"
        size = CHECK_SIZES[cid]
        if cid == 0:
            return "0 1 -"
        if cid == 1:
            return "4 1 " + (zlib.crc32(msg) & 0xFFFFFFFF).to_bytes(4, "little").hex()
        if cid == 4:
            return "8 1 " + crc64_py(msg).to_bytes(8, "little").hex()
        if cid == 10:
            return "32 1 " + hashlib.sha256(msg).hexdigest()
        return "%d 0 %s" % (size, "aa" * size)   # unsupported id: nothing may be written (harness pre-fills 0xAA)
    return "bad-op"


def cfg_cases(ctx):
    """first-call cases for the other build configurations; every line runs in a fresh process per configuration"""
    rng = ctx.rng
    lines = []
    for op, w in (("cfg32", 32), ("cfg64", 64), ("cfgsmall32", 32), ("cfgsmall64", 64)):
        inits = [rng.getrandbits(w) | 1, (1 << w) - 1, 1, rng.getrandbits(w) | 1, 0]
        lens = [0, 1, 9, 100] if op.startswith("cfgsmall") else [0, 1, 7, 8, 9, 15, 16, 17, 100, rng.randrange(128, 400)]
        for k, n in enumerate(lens):
            b = rng.randbytes(n)
            ini = inits[k % len(inits)]
            lines.append("%s %d %s" % (op, ini, vlib.hexs(b)))                 # first call = the whole buffer
            if n >= 2:
                c = rng.randrange(1, n)
                lines.append("%s %d %s %s" % (op, ini, vlib.hexs(b[:c]), vlib.hexs(b[c:])))
        lines.append("%s %d" % (op, inits[0]))                                 # first call with size 0
        lines.append("%s %d - %s" % (op, inits[0], vlib.hexs(rng.randbytes(33))))
    return lines


def cfga_cases(ctx):
    """batch sweep for every configuration: lengths 0..300 at rotating alignments and lengths 8..15 (the read64le path of
    the CLMUL code) at every alignment 0..63, contents with the high bit set at every position (sign-extension slips)"""
    rng = ctx.rng
    lines = []

    def kinds(n):
        yield bytes([0xFF]) * n
        yield bytes(0x80 | ((i * 13 + 5) & 0x7F) for i in range(n))
        yield bytes(rng.getrandbits(8) | (0x80 if rng.random() < 0.7 else 0) for _ in range(n))

    for n in range(0, 301):
        for k, b in enumerate(kinds(n)):
            for w in (32, 64):
                lines.append("cfga%d %d %d %s" % (w, (n * 7 + k * 3 + w) % 64, rng.getrandbits(w), vlib.hexs(b)))
    for n in range(8, 16):
        for al in range(64):
            for b in list(kinds(n))[1:]:
                for w in (32, 64):
                    lines.append("cfga%d %d %d %s" % (w, al, rng.getrandbits(w), vlib.hexs(b)))
    return lines


def cfga_oracle(t):
    msg = hx(t[3])
    v = (zlib.crc32(msg, int(t[2])) & 0xFFFFFFFF) if t[0].endswith("32") else crc64_py(msg, int(t[2]))
    return "%d %d %d %d" % (v, v, v, v)


# ---- unit row for tuklib_integer.h: the obvious definitions
def tuk_cases(ctx):
    rng = ctx.rng
    bufs = [bytes([0xFF]) * 24, bytes([0x80]) * 24, bytes(0x80 | i for i in range(24)), bytes(range(1, 25)), bytes(24)]
    for i in range(24):
        for v in (0x80, 0xFF):
            b = bytearray(24)
            b[i] = v
            bufs.append(bytes(b))
    bufs += [rng.randbytes(24) for _ in range(60)]
    return ["tuk " + b.hex() for b in bufs]


def tuk_oracle(t):
    b = bytes.fromhex(t[1])
    I = int.from_bytes
    out = []
    for off in (0, 1):
        for n in (2, 4, 8):
            out += [I(b[off:off + n], "little"), I(b[off:off + n], "big")]
    for n in (2, 4, 8):
        out += [I(b[:n], "little"), I(b[:n], "big")]
    out += [I(b[:2], "little"), I(b[:4], "little"), I(b[:8], "little")]     # native endian = little (x86)
    o = bytearray([0xAA]) * 96
    pos = {2: (1, 5, 40, 42, 72), 4: (9, 15, 44, 48, 76), 8: (21, 31, 56, 64, 80)}
    for n in (2, 4, 8):
        v = I(b[:n], "little")
        le, be = v.to_bytes(n, "little"), v.to_bytes(n, "big")
        p = pos[n]
        o[p[0]:p[0] + n] = le
        o[p[1]:p[1] + n] = be
        o[p[2]:p[2] + n] = le
        o[p[3]:p[3] + n] = be
        o[p[4]:p[4] + n] = le
    return " ".join(str(x) for x in out) + " " + bytes(o).hex()


def tuklib_stage(ctx):
    import sys as _sys
    if _sys.byteorder != "little":
        return
    lines = tuk_cases(ctx)
    table = {}
    for name, extra in (("c14tuk", []), ("c14tukna", ["-UTUKLIB_FAST_UNALIGNED_ACCESS"])):
        okh, log, texe = vlib.harness_build(name, ["c14_tuklib.c"], tu=HTU, link_lib=False, extra=extra)
        if not okh:
            ctx.obligation_broken("stage B: tuklib_integer.h unit harness %s does not compile against /repo" % name, log)
            continue
        rc, out, err = vlib.run_lines([texe], lines)
        bad = 0
        for i, ln in enumerate(lines):
            got = out[i] if i < len(out) else "harness-abort"
            ctx.case((name, ln), True)
            ctx.count("tuklib_integer.h unit row (%s)" % name)
            exp = tuk_oracle(ln.split())
            if got != exp:
                bad += 1
                if bad <= 2:
                    ctx.violation("tuklib-" + name, {"kind": "src/common/tuklib_integer.h (%s): read16/32/64 le/be at offsets 0 and 1, aligned_read*, then the buffer after write*/aligned_write*, differ from the obvious definition"
                                                     % ("default variants" if not extra else "byte-by-byte variants, -UTUKLIB_FAST_UNALIGNED_ACCESS"),
                                                     "tuklib": name, "op": ln, "impl": got, "python_reference": exp, "stderr": err[-1000:]}, True)
        table[name] = {"ops": len(lines), "mismatches": bad}
    ctx.cov["tuklib_integer_unit"] = table


def cfg_oracle(t):
    if t[0].startswith("cfga"):
        return cfga_oracle(t)
    msg = b"".join(hx(x) for x in t[2:])
    v = (zlib.crc32(msg, int(t[1])) & 0xFFFFFFFF) if t[0].endswith("32") else crc64_py(msg, int(t[1]))
    return "%d %d %d" % (v, v, v)


def data_tokens(t):
    """the hex tokens of an op line"""
    if t[0].startswith("cfga"):
        return t[3:]
    if t[0].startswith("cfg"):
        return t[2:]
    if t[0] in ("crc32g", "crc64g"):
        return t[2:]
    return {"crc32": t[3:], "crc64": t[3:], "crc32s": t[2:], "crc64s": t[2:], "small32": t[2:], "small64": t[2:],
            "sha256": t[1:], "sha256s": t[1:], "check": t[2:]}.get(t[0], [])


def _tab(b, poly):
    r = b
    for _ in range(8):
        r = (r >> 1) ^ poly if r & 1 else r >> 1
    return r


def leancheck_run():
    """thorough tier: replay every module the property depends on through the stand-alone kernel checker.
    Pure function (runs in a background thread next to stage K); returns (number of modules, [(module, output)] rejected)."""
    mods = {}
    for m in PROPS:
        vlib.local_imports(m, mods)
    mods = sorted(m for m in mods if m.startswith("XzVerif."))
    run1 = lambda m: (m,) + vlib.sh(["lake", "env", "leanchecker", m], cwd=vlib.LEAN, timeout=1500)
    res = vlib.par_map(run1, mods, workers=8)
    bad = [m for (m, rc, out) in res if rc != 0]
    bad2 = []
    if bad:
        # another builder may have been rewriting .olean files: retry the failing ones with the lake lock held
        with vlib.Lock("lean"):
            res2 = [run1(m) for m in bad]
        bad2 = [(m, out) for (m, rc, out) in res2 if rc != 0]
    return len(mods), bad2


def build_c(ctx):
    okb, log, _ = vlib.c_build("asan", targets=["liblzma"])
    if not okb:
        ctx.obligation_broken("stage B: /repo does not build", log)
        return None
    okh, log, exe = vlib.harness_build("c14", HARNESS, tu=HTU, link_lib=False)
    if not okh:
        ctx.obligation_broken("stage B: C14 harness does not compile against /repo", log)
        return None
    return exe


def cpu_has_clmul():
    try:
        fl = open("/proc/cpuinfo").read()
        return all((" " + f) in fl for f in ("pclmulqdq", "ssse3", "sse4_1"))
    except Exception:
        return False


def build_config(name):
    extra = [e for (n, e, _) in CONFIGS if n == name][0]
    return vlib.harness_build(name, CFG_SRCS, tu=HTU, link_lib=False, extra=extra)


def config_stage(ctx, model_ok):
    """Other build configurations of the check code, first call of a fresh process per line; rows of the correspondence."""
    clines = cfg_cases(ctx)
    alines = cfga_cases(ctx)
    expect = aexpect = None
    if model_ok:
        mexe = vlib.model_exe("xzm_c14")
        rc, mo, err = vlib.run_lines([mexe], clines)
        aparts = vlib.chunks(alines, vlib.NCPU)
        ares = vlib.par_map(lambda ls: vlib.run_lines([mexe], ls), aparts)
        amo = [o for (_, out, _) in ares for o in out]
        if rc == 0 and len(mo) == len(clines) and len(amo) == len(alines):
            expect, aexpect = mo, amo
        else:
            ctx.obligation_broken("model driver xzm_c14 failed on the configuration ops", err)
    table = {}
    for name, extra, what in CONFIGS:
        if "-mpclmul" in extra and not cpu_has_clmul():
            table[name] = {"what": what, "skipped": "CPU without PCLMULQDQ/SSSE3/SSE4.1"}
            continue
        okh, log, cexe = build_config(name)
        if not okh:
            ctx.obligation_broken("stage B: configuration harness %s (%s) does not compile against /repo" % (name, " ".join(extra)), log)
            continue
        res = vlib.par_map(lambda ln: vlib.run_lines([cexe], [ln]), clines)     # a fresh process per line
        bad = 0
        for i, (ln, (rc, out, err)) in enumerate(zip(clines, res)):
            got = out[0] if (rc == 0 and len(out) == 1) else "harness-abort"
            ctx.case((name, ln), nontrivial=any(x != "-" for x in ln.split()[2:]),
                     sample={"config": name, "op": ln[:120], "impl": got} if i == 3 else None)
            ctx.count("config %s: first call of a fresh process" % name)
            want = expect[i] if expect is not None else cfg_oracle(ln.split())
            if got != want:
                bad += 1
                exp = cfg_oracle(ln.split())
                if got != exp:
                    if bad <= 3:
                        ctx.violation("config-" + name + "-" + ln.split()[0],
                                      {"kind": "build configuration '%s' (%s): columns = pieces chained from <init> as the first CRC calls of the process, one call, the same call again; differs from the standard value" % (name, what),
                                       "config": name, "op": ln, "impl": got, "model": want, "python_reference": exp, "stderr": err[-1500:],
                                       "how_to_replay": "./check C14 --replay <this file>"}, True)
                else:
                    ctx.obligation_broken("correspondence C14 (config %s): model and implementation disagree but implementation matches the Python reference (model defect)" % name,
                                          json.dumps({"op": ln, "impl": got, "model": want}))
        # batch sweep: lengths x alignments x high-bit contents, pieces vs one piece (many ops per process)
        aparts = vlib.chunks(alines, vlib.NCPU)
        ares = vlib.par_map(lambda ls: vlib.run_lines([cexe], ls), aparts)
        abad = 0
        for (rc, out, err), ls, base in zip(ares, aparts, range(0, len(alines), max(1, len(aparts[0])))):
            for j, ln in enumerate(ls):
                got = out[j] if j < len(out) else "harness-abort"
                want = aexpect[base + j] if aexpect is not None else cfga_oracle(ln.split())
                ctx.case((name, ln), nontrivial=ln.split()[3] != "-")
                if got != want:
                    abad += 1
                    exp = cfga_oracle(ln.split())
                    if got != exp:
                        if abad <= 3:
                            ctx.violation("config-" + name + "-" + ln.split()[0],
                                          {"kind": "build configuration '%s' (%s): columns = generic entry, arch entry, public, public over two pieces split at size/2; differs from the standard value" % (name, what),
                                           "config": name, "op": ln, "impl": got, "model": want, "python_reference": exp, "stderr": err[-1500:],
                                           "how_to_replay": "./check C14 --replay <this file>"}, True)
                    else:
                        ctx.obligation_broken("correspondence C14 (config %s): model and implementation disagree but implementation matches the Python reference (model defect)" % name,
                                              json.dumps({"op": ln, "impl": got, "model": want}))
        ctx.count("config %s: length x alignment x high-bit sweep" % name, len(alines))
        table[name] = {"what": what, "flags": extra, "first_call_ops": len(clines), "first_call_mismatches": bad,
                       "sweep_ops": len(alines), "sweep_mismatches": abad, "mismatches": bad + abad}
    ctx.cov["configurations"] = table
    ctx.log("build-configuration cases done: " + ", ".join("%s %s" % (k, v.get("mismatches", "skipped")) for k, v in table.items()))


def run(ctx):
    ctx.cov["rule"] = ("op lines generated from the seeded PRNG. CRC: crc32/crc64 <align> <init> <bytes> (every length 0..N, every "
                       "alignment 0..63, random/constant/patterned/extreme contents, random initial values), crc32s/crc64s over pieces, "
                       "small32/small64/smalltab* for the HAVE_SMALL code; SHA-256: every length 0..300, every two-piece split at the "
                       "padding boundaries, random multi-way splits with empty pieces, byte-at-a-time; check <id> <pieces> for ids 0..16, "
                       "31, 255, 2^32-1. non-trivial = at least one data byte or a table dump; distinct by full line")
    ctx.assumptions += [
        "Lean 4 kernel; the reference definitions in Model/Crc.lean (bitwise reflected CRC) and Model/Sha256.lean (FIPS 180-4 textbook form, constants derived from the primes) are the standard ones: cross-run against Python zlib.crc32, hashlib.sha256 and an independent bitwise CRC-64 in the search stage",
        "the C compiler, and that harness/c14_*.c feed the same bytes at the stated alignment to the C code and to the model driver",
        "CLMUL path: the model of crc_x86_clmul.h is proved equal to the reference for all inputs; the C instruction sequence is tied to that model by correspondence (column 2 of every crc32/crc64 op), intrinsics are modelled by their documented meaning; CPUID gate is a run-time fact of this machine",
        "SHA-256 theorems assume messages shorter than 2^61 bytes (the C code's 64-bit bit counter, as in FIPS 180-4)",
        "build configurations: the default build plus six re-compilations of the check sources inside the harness (no constructor attribute = first-call dispatch; table-driven only; CLMUL only; each of default/table-only/CLMUL-only again without TUKLIB_FAST_UNALIGNED_ACCESS = byte-by-byte integer readers), a unit row for tuklib_integer.h in both variants, and the HAVE_SMALL files; other configurations (big endian, ARM64/LoongArch CRC32 instructions, 32-bit x86 assembler, external SHA-256 libraries) are not compiled here",
        "the members of the lzma_check_state union are modelled side by side (one check type per init/update/finish sequence)",
        "byte strings are Lean Lists (unbounded length, no size_t): the theorems hold for every length, but C-level width effects on counts >= 2^32 (a mask or cast truncating size_t to 32 bits) are outside the model; they are exercised only by the 'huge single call' run (one call over 4 GiB - 1 / + 64 / + 12345 bytes vs the same buffer in ~1 GiB pieces vs independent GF(2) arithmetic / hashlib)",
    ]
    # B (first: the probes of stage G are compiled with the build's flags)
    exe = build_c(ctx)
    if exe is None:
        return "proof"
    # G
    ok, log = gen_all()
    if not ok:
        ctx.obligation_broken("stage G: Gen/C14.lean cannot be regenerated from src/liblzma/check", log)
    # P
    p_ok = ctx.lean_stage(PROPS, exes=["xzm_c14"], bv_decide_ok=("XzVerif.Lemmas.BitWords",)) if ok else False
    ctx.log("stage P done (lake build + axiom audit)")
    lc_future = lc_pool = None
    if p_ok and not ctx.quick():
        from concurrent.futures import ThreadPoolExecutor
        lc_pool = ThreadPoolExecutor(max_workers=1)
        lc_future = lc_pool.submit(leancheck_run)
    # are the hypotheses of the CLMUL theorems satisfied in this build?
    try:
        gsrc = open(vlib.module_path("XzVerif.Gen.C14")).read()
        present = all(("def %s : List Nat := []" % n) not in gsrc for n in ("clmul32", "clmul64", "clmulVmasks"))
    except Exception:
        present = False
    ctx.cov["clmul_code_present"] = present
    if not present:
        ctx.assumptions.append("this build has no CLMUL code (or the CPU cannot run it): the CLMUL theorems are vacuous here")
    # K0: "huge single call": byte counts >= 2^32 in ONE call (size_t-width effects in the C code: masks, casts, loop
    # bounds). The Lean theorems quantify over all List lengths, but a List has no size_t: truncation of a count to
    # 32 bits is outside the model and is covered by this run only (one call vs ~1 GiB pieces vs independent arithmetic).
    assert crc_sparse(b"ab", 1000, b"cd", 32) == zlib.crc32(b"ab" + bytes(1000) + b"cd")
    assert crc_sparse(b"ab", 77, b"cd", 64) == crc64_py(b"ab" + bytes(77) + b"cd")
    hlines = huge_cases(ctx)

    def huge_run():
        res = vlib.par_map(lambda ln: vlib.run_lines([exe], [ln], timeout=1500), hlines, workers=min(len(hlines), 10))
        exps = vlib.par_map(lambda ln: huge_oracle(ln.split()), hlines, workers=4)
        return res, exps
    from concurrent.futures import ThreadPoolExecutor
    huge_pool = ThreadPoolExecutor(max_workers=1)
    huge_future = huge_pool.submit(huge_run)      # runs next to stage K; judged below
    # K
    lines = gen_cases(ctx)
    parts = vlib.chunks(lines, vlib.NCPU * 2)
    res_c = vlib.par_map(lambda ls: vlib.run_lines([exe], ls), parts)
    c_out = []
    for (rc, out, err), ls in zip(res_c, parts):
        if rc != 0 or len(out) != len(ls):
            # sanitizer abort or crash: replay this part one line at a time to find the op
            for ln in ls:
                rc1, o1, e1 = vlib.run_lines([exe], [ln])
                if rc1 != 0 or len(o1) != 1:
                    ctx.violation("harness-abort", {"kind": "implementation aborted (sanitizer/assert/crash)", "op": ln, "stderr": e1}, True)
                    return "proof"
            ctx.obligation_broken("harness c14 failed on a batch but on none of its single lines", err)
            return "proof"
        c_out += out
    ctx.log("implementation answered %d ops" % len(c_out))
    model_ok = p_ok and ok
    m_out = None
    if model_ok:
        mexe = vlib.model_exe("xzm_c14")
        res_m = vlib.par_map(lambda ls: vlib.run_lines([mexe], ls), parts)
        m_out = [o for (_, out, _) in res_m for o in out]
        if len(m_out) != len(lines):
            ctx.obligation_broken("model driver xzm_c14 failed to answer every op", str([e for (_, _, e) in res_m])[:2000])
            m_out = None
    ctx.log("model answered")
    mism = 0
    for i, ln in enumerate(lines):
        t = ln.split()
        ctx.case(ln, nontrivial=t[0].startswith("smalltab") or any(x != "-" for x in data_tokens(t)),
                 sample={"op": ln[:160], "impl": c_out[i][:160]} if i % 397 == 0 else None)
        if m_out is not None and m_out[i] != c_out[i]:
            mism += 1
            exp = oracle(ln)
            if c_out[i] != exp:
                ctx.violation(t[0] + "-mismatch", {"kind": "implementation differs from the standard value", "op": ln, "impl": c_out[i],
                                                   "model": m_out[i], "python_reference": exp,
                                                   "how_to_replay": "./check C14 --replay <this file>   (or: echo '<op>' | .cache/harness-asan/c14)"}, True)
            else:
                ctx.obligation_broken("correspondence C14: model and implementation disagree but implementation matches the Python reference (model defect)",
                                      json.dumps({"op": ln, "impl": c_out[i], "model": m_out[i]}))
            if mism > 5:
                break
    ctx.cov["correspondence"] = {"ops": len(lines), "mismatches": mism, "model_ran": m_out is not None}
    config_stage(ctx, m_out is not None)
    tuklib_stage(ctx)
    # judge the huge single-call cases
    hres, hexps = huge_future.result()
    huge_pool.shutdown()
    hbad = 0
    for ln, (rc, out, err), exp in zip(hlines, hres, hexps):
        ctx.count("huge single call (>= 2^32 bytes)" if int(ln.split()[2]) >= 1 << 32 else "large buffer (2^29 … 2^32 - 1 bytes)")
        got = out[0] if out else "harness-abort"
        if got in ("mmap-failed", "unsupported-32-bit-size_t"):
            ctx.count("huge case skipped: " + got)
            continue
        ctx.case(ln, True, sample={"op": ln, "impl": got} if ln.startswith("huge crc64pub") else None)
        if rc != 0 or got != exp:
            hbad += 1
            ctx.violation("huge-" + ln.split()[1], {"kind": "large-buffer case (0.5 … 4 GiB, sparse) differs from the standard value (crc/check fns: columns one call, same buffer in ~1 GiB pieces; sha256: one call; sha256p: 64 MiB pieces)",
                                                    "op": ln, "impl": got, "python_reference": exp, "stderr": err[-1500:],
                                                    "how_to_replay": "./check C14 --replay <this file>"}, True)
    ctx.cov["huge_single_call"] = {"ops": len(hlines), "failing": hbad,
                                   "note": "counts >= 2^32 in one call are outside the List-based Lean model (no size_t there); covered by this run only"}
    ctx.log("huge / large-buffer cases done (%d ops, %d failing)" % (len(hlines), hbad))
    if lc_future is not None:
        nmods, bad = lc_future.result()
        lc_pool.shutdown()
        ctx.cov["leanchecker"] = {"modules": nmods, "failed": [m for m, _ in bad]}
        for m, out in bad:
            ctx.obligation_broken("leanchecker rejects " + m, out)
        ctx.log("leanchecker done (%d modules)" % nmods)
    # S: if the proof or the model side broke, judge the implementation directly against the independent oracle
    if ctx.broken and not ctx.violations:
        bad = 0
        for i, ln in enumerate(lines):
            exp = oracle(ln)
            if c_out[i] != exp:
                ctx.violation(ln.split()[0] + "-search", {"kind": "implementation differs from the standard value (search stage, Python oracle)", "op": ln,
                                                          "impl": c_out[i], "python_reference": exp}, True)
                bad += 1
                if bad > 3:
                    break
        ctx.cov["search"] = {"ops_checked_against_python_oracle": len(lines), "failing": bad}
    return "proof"


def replay(ctx, path):
    import replaylib
    r = replaylib.load(ctx, path)
    if "op" not in r:
        return replaylib.obligations("C14", run, r, path)
    exe = build_c(ctx)
    if exe is None:
        print("build failed")
        return 2
    if r.get("tuklib"):
        okh, log, exe = vlib.harness_build(r["tuklib"], ["c14_tuklib.c"], tu=HTU, link_lib=False,
                                           extra=["-UTUKLIB_FAST_UNALIGNED_ACCESS"] if r["tuklib"].endswith("na") else [])
        if not okh:
            print("tuklib harness does not build:", log[-1000:])
            return 2
    if r.get("config"):
        okh, log, exe = build_config(r["config"])
        if not okh:
            print("configuration harness does not build:", log[-1000:])
            return 2
    rc, out, err = vlib.run_lines([exe], [r["op"]])
    exp = oracle(r["op"])
    print("op:", r["op"][:200])
    print("impl:", out, "expected:", exp)
    if rc != 0 or not out or out[0] != exp:
        print("VIOLATION property=C14 replay=%s" % path)
        return 1
    print("replay passes")
    return 0
