"""C14 — CRC32, CRC64 and SHA-256 equal their standard definitions for all inputs."""
import json, zlib
import vlib

META = {
    "category": "proof",
    "text": "Lean theorems: the CRC tables compiled into liblzma (regenerated from the source each run) equal the tables generated from the IEEE 802.3 / ECMA-182 polynomials (all 8x256 + 4x256 entries, kernel evaluation); the table-driven slice-by-8/slice-by-4 models equal the bit-at-a-time reference for every buffer, alignment and initial value; chunking law. Tie: the model driver and the real generic, CLMUL and public entry points are run on the same buffers (every length, every alignment) and must agree exactly.",
    "note": "Trusted: Lean kernel + propext/Classical.choice/Quot.sound; the probe that prints the tables; the harness; the C compiler. The CLMUL code path is tied to the reference by correspondence only (no folding proof yet). SHA-256: see evidence.",
    "technique": "Lean 4 proof over an executable model + regenerated tables + differential correspondence",
}

HARNESS = ["c14_crc32.c", "c14_crc64.c", "c14_main.c"]
P64 = 0xC96C5795D7870F42


def crc64_py(data, crc=0):
    """Independent bitwise CRC-64/XZ (oracle used only by the search stage)."""
    c = crc ^ 0xFFFFFFFFFFFFFFFF
    for b in data:
        c ^= b
        for _ in range(8):
            c = (c >> 1) ^ P64 if c & 1 else c >> 1
    return c ^ 0xFFFFFFFFFFFFFFFF


def gen_cases(ctx):
    rng = ctx.rng
    quick = ctx.quick()
    lines = []

    def data(n, kind):
        if kind == 0:
            return bytes(rng.getrandbits(8) for _ in range(n))
        if kind == 1:
            return bytes([rng.getrandbits(8)]) * n
        if kind == 2:
            return bytes((i * 7 + 3) & 0xFF for i in range(n))
        return bytes(rng.choice((0, 0xFF, 0x80, 1)) for _ in range(n))

    def init(w):
        r = rng.random()
        if r < 0.4:
            return 0
        if r < 0.5:
            return (1 << w) - 1
        return rng.getrandbits(w)

    # every length 0..N at rotating alignments (covers the <8/<16/>=16 CLMUL classes and the slice loops)
    top = 200 if quick else 700
    for n in range(0, top):
        for w in (32, 64):
            al = rng.randrange(64)
            lines.append("crc%d %d %d %s" % (w, al, init(w), vlib.hexs(data(n, rng.randrange(4)))))
            ctx.count("len<16" if n < 16 else "len<128" if n < 128 else "len>=128")
    # every alignment 0..63 at a few lengths
    for al in range(64):
        for n in (9, 17, 40, 129) if quick else (5, 9, 15, 16, 17, 31, 40, 64, 129, 255, 1031):
            for w in (32, 64):
                lines.append("crc%d %d %d %s" % (w, al, init(w), vlib.hexs(data(n, 0))))
                ctx.count("align-sweep")
    # larger random buffers
    for _ in range(20 if quick else 200):
        n = rng.randrange(1000, 6000 if quick else 70000)
        for w in (32, 64):
            lines.append("crc%d %d %d %s" % (w, rng.randrange(64), init(w), vlib.hexs(data(n, rng.randrange(4)))))
            ctx.count("large")
    # consecutive pieces through the public API
    for _ in range(100 if quick else 1000):
        w = rng.choice((32, 64))
        k = rng.randrange(1, 6)
        pieces = [vlib.hexs(data(rng.choice((0, 1, 3, 7, 8, 15, 16, 17, rng.randrange(300))), rng.randrange(4))) for _ in range(k)]
        lines.append("crc%ds %d %s" % (w, init(w), " ".join(pieces)))
        ctx.count("pieces")
    return lines


def oracle(line):
    """Standard value of an op line according to Python (zlib / bitwise CRC64): returns the expected output line."""
    t = line.split()
    hx = lambda s: b"" if s == "-" else bytes.fromhex(s)
    if t[0] == "crc32":
        v = zlib.crc32(hx(t[3]), int(t[2])) & 0xFFFFFFFF
        return "%d %d %d" % (v, v, v)
    if t[0] == "crc64":
        v = crc64_py(hx(t[3]), int(t[2]))
        return "%d %d %d" % (v, v, v)
    if t[0] == "crc32s":
        return str(zlib.crc32(b"".join(hx(x) for x in t[2:]), int(t[1])) & 0xFFFFFFFF)
    if t[0] == "crc64s":
        return str(crc64_py(b"".join(hx(x) for x in t[2:]), int(t[1])))
    return "bad-op"


def run(ctx):
    ctx.cov["rule"] = ("op lines (crc32/crc64 <align> <init> <bytes>; crc32s/crc64s <init> <pieces...>) generated from the seeded PRNG: "
                       "every length 0..N, every alignment 0..63, random/constant/patterned/extreme contents, random initial values; "
                       "non-trivial = non-empty data; distinct by full line")
    ctx.assumptions += [
        "Lean 4 kernel; the reference CRC definitions in Model/Crc.lean are the standard ones (cross-run against Python zlib.crc32 and an independent bitwise CRC-64 in the search stage)",
        "the C compiler, and that harness/c14_*.c feed the same bytes at the stated alignment to the C code and to the model driver",
        "CLMUL path: modelled only through the reference (correspondence, not proof); CPUID gate is a run-time fact of this machine",
    ]
    # G
    ok, log = vlib.gen_probe("gen_c14", "gen_c14.c", "XzVerif.Gen.C14", incs=["src/liblzma/check"])
    if not ok:
        ctx.obligation_broken("stage G: Gen/C14.lean cannot be regenerated from src/liblzma/check/crc*_table_le.h", log)
    # P
    p_ok = ctx.lean_stage(["XzVerif.Props.C14"], exes=["xzm_c14"]) if ok else False
    # B
    okb, log, _ = vlib.c_build("asan", targets=["liblzma"])
    if not okb:
        ctx.obligation_broken("stage B: /repo does not build", log)
        return "proof"
    okh, log, exe = vlib.harness_build("c14", HARNESS, tu="src/liblzma/check/crc32_fast.c", link_lib=False)
    if not okh:
        ctx.obligation_broken("stage B: C14 harness does not compile against /repo", log)
        return "proof"
    # K
    lines = gen_cases(ctx)
    parts = vlib.chunks(lines, vlib.NCPU)
    res_c = vlib.par_map(lambda ls: vlib.run_lines([exe], ls), parts)
    c_out = []
    for (rc, out, err), ls in zip(res_c, parts):
        if rc != 0 or len(out) != len(ls):
            # sanitizer abort or crash: find the line by bisection-free replay of this part, one line at a time
            for ln in ls:
                rc1, o1, e1 = vlib.run_lines([exe], [ln])
                if rc1 != 0 or len(o1) != 1:
                    ctx.violation("harness-abort", {"kind": "implementation aborted (sanitizer/assert/crash)", "op": ln, "stderr": e1}, True)
                    return "proof"
        c_out += out
    model_ok = p_ok and ok
    m_out = None
    if model_ok:
        mexe = vlib.model_exe("xzm_c14")
        res_m = vlib.par_map(lambda ls: vlib.run_lines([mexe], ls), parts)
        m_out = [o for (_, out, _) in res_m for o in out]
        if len(m_out) != len(lines):
            ctx.obligation_broken("model driver xzm_c14 failed to answer every op", str([e for (_, _, e) in res_m])[:2000])
            m_out = None
    mism = 0
    for i, ln in enumerate(lines):
        ctx.case(ln, nontrivial=(ln.split()[-1] != "-"), sample={"op": ln[:160], "impl": c_out[i]} if i % 397 == 0 else None)
        if m_out is not None and m_out[i] != c_out[i]:
            mism += 1
            exp = oracle(ln)
            if c_out[i] != exp:
                ctx.violation("crc-mismatch", {"kind": "implementation differs from the standard CRC", "op": ln, "impl": c_out[i],
                                               "model": m_out[i], "python_reference": exp,
                                               "how_to_replay": "echo '<op>' | .cache/harness-asan/c14   (columns: generic, arch-optimised, public API)"}, True)
            else:
                ctx.obligation_broken("correspondence C14: model and implementation disagree but implementation matches the Python reference (model defect)",
                                      json.dumps({"op": ln, "impl": c_out[i], "model": m_out[i]}))
            if mism > 5:
                break
    ctx.cov["correspondence"] = {"ops": len(lines), "mismatches": mism, "model_ran": m_out is not None}
    # S: if the proof or the model side broke, judge the implementation directly against the independent oracle
    if ctx.broken and not ctx.violations:
        bad = 0
        for i, ln in enumerate(lines):
            exp = oracle(ln)
            if c_out[i] != exp:
                ctx.violation("crc-search", {"kind": "implementation differs from the standard CRC (search stage, Python oracle)", "op": ln,
                                             "impl": c_out[i], "python_reference": exp}, True)
                bad += 1
                if bad > 3:
                    break
        ctx.cov["search"] = {"ops_checked_against_python_oracle": len(lines), "failing": bad}
    return "proof"


def replay(ctx, path):
    r = json.load(open(path))
    vlib.c_build("asan", targets=["liblzma"])
    okh, log, exe = vlib.harness_build("c14", HARNESS, tu="src/liblzma/check/crc32_fast.c", link_lib=False)
    rc, out, err = vlib.run_lines([exe], [r["op"]])
    exp = oracle(r["op"])
    print("op:", r["op"][:200])
    print("impl:", out, "expected:", exp)
    if rc != 0 or not out or out[0] != exp:
        print("VIOLATION property=C14 replay=%s" % path)
        return 1
    print("replay passes")
    return 0
