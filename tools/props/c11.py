"""C11 — the lzma_code calling protocol is enforced and accounted exactly."""
import json, os, random, subprocess, time
import vlib

META = {
    "category": "proof",
    "text": "Lean theorems over ALL call histories of a line-by-line model of lzma_strm_init/lzma_code/lzma_end (arbitrary action numbers, buffer "
            "lengths, NULL pointers, reserved members, and an arbitrary inner coder): programming errors and reserved members are rejected "
            "without acting; a started flush/finish is locked to its action and input amount; after end of stream / after a fatal error every "
            "later call is STREAM_END / PROG_ERROR and the coder is never called again; BUF_ERROR exactly on the second consecutive idle call, "
            "not fatal; flush ends return to RUN; SEEK_NEEDED under FINISH returns to RUN; pointers, avail and totals move by exactly what "
            "the coder reported; TIMED_OUT never leaks. Tie: the complete control table of the REAL lzma_code() (2716 cells, produced by running "
            "it on a stub coder with every sequence/flag/action/return value), the supported_actions of all 18 public init functions and the "
            "enum values are regenerated each run and proved equal to the model by kernel evaluation; the real lzma_code() and the model driver "
            "are run on the same histories (exhaustive to a small depth + random long + real coders) and must agree on return value, the six "
            "public members, sequence, allow_buf_error, saved avail_in and the arguments handed to the coder; a property monitor checks every "
            "theorem statement directly on the implementation trace.",
    "note": "Trusted: Lean kernel + propext/Classical.choice/Quot.sound; harness/gen_c11.c and harness/c11_main.c (stub coder installed through the "
            "real lzma_next_strm_init path; real coders wrapped by a recording shim); the C compiler. Memory safety outside the model is observed "
            "by ASan/UBSan, guard bytes and shadow copies of both buffers at run time only.",
    "technique": "Lean 4 proof over an executable model + regenerated tables (decide +kernel) + differential correspondence + trace monitor",
}

HARNESS = ["c11_main.c"]
U64 = 1 << 64

# documented supported actions per public init function (api headers); duplicated on purpose (independent of the Lean table)
DOC_MASK = {
    "lzma_easy_encoder": 31, "lzma_stream_encoder": 31, "lzma_stream_encoder_mt": 29, "lzma_alone_encoder": 9,
    "lzma_raw_encoder": 11, "lzma_block_encoder": 11, "lzma_index_encoder": 9, "lzma_microlzma_encoder": 8,
    "lzma_stream_decoder": 9, "lzma_stream_decoder_mt": 9, "lzma_auto_decoder": 9, "lzma_alone_decoder": 9,
    "lzma_lzip_decoder": 9, "lzma_raw_decoder": 9, "lzma_block_decoder": 9, "lzma_index_decoder": 9,
    "lzma_microlzma_decoder": 9, "lzma_file_info_decoder": 9,
}
NONFATAL = (0, 1, 2, 3, 4, 6, 101, 12)
FATAL_POOL = (5, 7, 8, 9, 11, 13, 55, 100, 102, 105, 108, 109, 4000)

# --------------------------------------------------------------------------------------------
# history generation
# --------------------------------------------------------------------------------------------

INNER_KINDS = [(0, 0, 0), (1, 1, 0), (1, 0, 1), (0, 0, 101), (0, 1, 12), (0, 0, 4), (0, 0, 9)]
LETTERS = [(a, ch, k) for a in range(6) for ch in (0, 1) for k in range(len(INNER_KINDS))]


def letter_call(letter, first):
    a, ch, k = letter
    c, p, r = INNER_KINDS[k]
    if first:
        ins, outs = ("s:0:21" if ch else "s:0:20"), "s:0:30"
    else:
        ins, outs = ("d:+1" if ch else "k"), "k"
    return "call %d %s %s - - %d %d %d" % (a, ins, outs, c, p, r)


PREFIXES = {
    "RUN,0": [], "RUN,1": [(0, 0, 0)],
    "SYNC,0": [(1, 0, 1)], "SYNC,1": [(1, 0, 0)], "FULLFLUSH,0": [(2, 0, 1)], "FULLFLUSH,1": [(2, 0, 0)],
    "FINISH,0": [(3, 0, 1)], "FINISH,1": [(3, 0, 0)], "BARRIER,0": [(4, 0, 1)], "BARRIER,1": [(4, 0, 0)],
    "END": [(3, 0, 2)], "ERROR": [(0, 0, 6)],
}


def hist_letters(letters, mask=31):
    ops = ["new stub %d 0" % mask]
    for i, l in enumerate(letters):
        ops.append(letter_call(l, i == 0))
    ops.append("end")
    return ops


def gen_exhaustive(ctx):
    hs = []
    quick = ctx.quick()
    # every pair of calls from a fresh handle
    for l1 in LETTERS:
        for l2 in LETTERS:
            hs.append(("exh2", hist_letters([l1, l2])))
    # from every wrapper state (sequence x allow_buf_error): every call (quick) / every pair of calls (thorough)
    for name, pre in PREFIXES.items():
        for l1 in LETTERS:
            if quick:
                hs.append(("state1:" + name, hist_letters(pre + [l1])))
            else:
                for l2 in LETTERS:
                    hs.append(("state2:" + name, hist_letters(pre + [l1, l2])))
    # every supported-actions mask x every action (incl. out of range), two calls each
    for mask in range(32):
        for a in (0, 1, 2, 3, 4, 5, 7, 4294967295):
            hs.append(("mask", ["new stub %d 0" % mask, "call %d s:0:8 s:0:8 - - 1 1 0" % a, "call %d k k - - 0 0 0" % a, "end"]))
    # every reserved member, before/after init, and the NULL-pointer cases
    for idx in range(9):
        for val in (1, 2147483647):
            hs.append(("reserved", ["new stub 31 0", "call 0 s:0:8 s:0:8 %d:%d - 1 1 0" % (idx, val), "call 0 k k - - 1 1 0",
                                    "call 9 k k %d:%d - 1 1 0" % (idx, val), "end", "call 0 k k %d:%d - 1 1 0" % (idx, val)]))
    for ins in ("n:0", "n:1", "n:9"):
        for outs in ("n:0", "n:1", "s:0:4"):
            hs.append(("null", ["new stub 31 0", "call 0 %s %s - - 5 5 0" % (ins, outs), "call 0 s:1:3 %s - - 5 5 0" % outs, "end"]))
    hs.append(("uninit", ["new uninit"] + ["call %d s:0:4 s:0:4 - - 1 1 0" % a for a in range(6)] + ["memusage", "memlimit_get", "memlimit_set 5", "end", "call 0 k k - - 1 1 0"]))
    for mask in (31, 0):
        hs.append(("nocode", ["new nocode %d" % mask] + ["call %d s:0:4 s:0:4 - - 1 1 0" % a for a in range(6)] + ["progress", "memusage", "memlimit_set 0", "end"]))
    # a real coder replaced by the stub without lzma_end (lzma_next_coder_init must free the old coder)
    hs.append(("reinit-real", ["new real lzma_easy_encoder 0 100 100 4096 -1", "call 0 s:0:50 s:0:100 - - 0 0 0", "call 1 k k - - 0 0 0",
                               "reinit stub 31 0", "call 3 s:0:8 s:0:8 - - 1 1 0", "call 3 k k - - 1 1 1", "call 0 k k - - 1 1 0", "end"]))
    # size_t-wide pending input (a 4 GiB + 1 MiB read-only mapping the stub never has to touch): amounts that differ by
    # exactly 2^32 during a flush/finish, consumption of more than 2^32 bytes in one call, totals
    W = 1 << 32
    for a in (1, 2, 3, 4):
        for k in (1000, 1005, 5000):
            hs.append(("wide", ["new stub 31 0",
                                "call %d b:0:%d s:0:32 - - 0 1 0" % (a, W + k),      # flush/finish started with 2^32 + k pending
                                "call %d b:0:%d k - - 0 1 0" % (a, k),               # reduced by exactly 2^32: PROG_ERROR
                                "call %d b:0:%d k - - 0 1 0" % (a, W + k),           # unchanged: accepted
                                "call %d k k - - 0 1 0" % a,                         # unchanged: accepted
                                "call %d d:-%d k - - 0 1 0" % (a, W),                # reduced by 2^32 again: PROG_ERROR
                                "call %d b:0:%d k - - 7 1 0" % (a, W + k),           # accepted; 7 consumed, 2^32 + k - 7 stay pending
                                "call %d b:7:%d k - - 0 1 0" % (a, k - 7),           # reduced by exactly 2^32: PROG_ERROR
                                "call %d b:7:%d k - - 0 1 0" % (a, W + k - 7),       # what is really pending: accepted
                                "call %d k k - - 100000 1 1" % a,                    # the end
                                "end"]))
    hs.append(("wide", ["new stub 31 0", "call 0 b:0:%d s:0:16 - - %d 0 0" % (W + 100, W + 1), "call 0 k k - - 1000 1 0",
                        "call 0 b:5:%d s:0:16 - 18446744073709551615:0 %d 1 0" % (W + 100, W + 100), "progress",
                        "call 3 b:0:%d k - - 10 0 0" % (W + 50), "call 3 b:10:40 k - - 0 0 0",
                        "call 3 b:10:%d k - - %d 1 1" % (W + 40, W + 40), "end"]))
    # totals wrap
    hs.append(("wrap", ["new stub 31 0", "call 0 s:0:10 s:0:10 - 18446744073709551614:18446744073709551615 3 3 0", "call 0 k k - - 1 0 0",
                        "call 0 k k - 18446744073709551615:0 0 5 0", "progress", "end"]))
    return hs


def rand_action(rng):
    x = rng.random()
    if x < 0.5:
        return 0
    if x < 0.9:
        return rng.choice((1, 2, 3, 3, 4))
    return rng.choice((5, 6, 7, 255, 2147483648, 4294967295))


def rand_ret(rng):
    x = rng.random()
    if x < 0.55:
        return 0
    if x < 0.63:
        return 1
    if x < 0.71:
        return 101
    if x < 0.76:
        return 12
    if x < 0.86:
        return rng.choice((2, 3, 4, 6))
    if x < 0.90:
        return rng.choice(FATAL_POOL)
    return 0


class BufTrack:
    """Upper bound of next+avail inside a region, so that d:+x specs never leave the region."""
    def __init__(self, size):
        self.size = size
        self.end = None   # None = pointer NULL or not set yet

    def spec(self, rng, first):
        x = rng.random()
        if first or (self.end is None and x < 0.7) or x < 0.12:
            off = rng.randrange(0, self.size + 1)
            ln = rng.randrange(0, self.size - off + 1) if rng.random() < 0.8 else 0
            self.end = off + ln
            return "s:%d:%d" % (off, ln)
        if x < 0.60:
            return "k"
        if x < 0.80:
            if self.end is None:
                return "k"
            room = self.size - self.end
            if room <= 0:
                return "k"
            d = rng.randrange(1, min(room, 6) + 1)
            self.end += d
            return "d:+%d" % d
        if x < 0.88:
            return "d:-%d" % rng.randrange(1, 4)
        if x < 0.96:
            self.end = None
            return "n:0"
        self.end = None
        return "n:%d" % rng.randrange(1, 5)


def gen_random_stub(ctx, n_hist, max_calls):
    rng = ctx.rng
    hs = []
    for _ in range(n_hist):
        mask = rng.choice((31, 31, 31, 9, 11, 29, 8, rng.randrange(32)))
        flags = rng.randrange(4)
        ops = ["new stub %d %d" % (mask, flags)]
        tin, tout = BufTrack(64), BufTrack(64)
        first = True
        dead = 0
        ncalls = rng.randrange(max_calls // 3, max_calls + 1)
        locked = None
        for _i in range(ncalls):
            x = rng.random()
            if x < 0.03:
                ops.append(rng.choice(("progress", "memusage", "memlimit_get", "memlimit_set %d" % rng.choice((0, 1, 1233, 1234, 99999)))))
                continue
            if (dead and rng.random() < 0.4) or x < 0.045:
                if rng.random() < 0.3:
                    ops.append("end")
                mask = rng.choice((31, 31, 9, 11, 29, rng.randrange(32)))
                ops.append("reinit stub %d %d" % (mask, rng.randrange(4)))
                dead = 0
                locked = None
                continue
            # a flush in progress is mostly continued legally, sometimes broken
            if locked is not None and rng.random() < 0.8:
                a = locked
                ins = "k" if rng.random() < 0.9 else tin.spec(rng, first)
            else:
                a = rand_action(rng)
                ins = tin.spec(rng, first)
            outs = tout.spec(rng, first)
            first = False
            resv = "-" if rng.random() < 0.94 else "%d:%d" % (rng.randrange(9), rng.choice((1, 7, 2147483647)))
            tot = "-" if rng.random() < 0.95 else "%d:%d" % (rng.choice((0, U64 - 1, U64 - 3, rng.getrandbits(64))), rng.choice((5, U64 - 2, rng.getrandbits(64))))
            c = rng.choice((0, 0, 0, 1, 2, 5, 1000))
            p = rng.choice((0, 0, 0, 1, 3, 1000))
            r = rand_ret(rng)
            ops.append("call %d %s %s %s %s %d %d %d" % (a, ins, outs, resv, tot, c, p, r))
            if a in (1, 2, 3, 4) and (mask >> a) & 1:
                locked = a
            if r == 1 or (r == 12 and a == 3):
                locked = None
            if r not in NONFATAL or (r == 1 and a in (0, 3)):
                dead = 1
        if rng.random() < 0.7:
            ops.append("end")
        hs.append(("random", ops))
    return hs


REAL_CODERS = [
    ("lzma_easy_encoder", 0, "enc"), ("lzma_stream_encoder", 0, "enc"), ("lzma_stream_encoder_mt", 0, "enc"),
    ("lzma_alone_encoder", 0, "enc"), ("lzma_raw_encoder", 0, "enc"), ("lzma_microlzma_encoder", 0, "enc"),
    ("lzma_index_encoder", 0, "enc0"),
    ("lzma_stream_decoder", 0, "dec"), ("lzma_stream_decoder", 1, "dec"), ("lzma_stream_decoder", 2, "dec"),
    ("lzma_stream_decoder_mt", 0, "dec"), ("lzma_stream_decoder_mt", 1, "dec"), ("lzma_auto_decoder", 1, "dec"),
    ("lzma_alone_decoder", 0, "dec"), ("lzma_raw_decoder", 0, "dec"), ("lzma_index_decoder", 0, "dec"),
    ("lzma_file_info_decoder", 0, "seek"),
]


def gen_real(ctx, per_coder, max_calls):
    rng = ctx.rng
    hs = []
    for api, variant, style in REAL_CODERS:
        mask = DOC_MASK[api]
        for _ in range(per_coder):
            datalen = rng.choice((0, 1, 50, 300, 700, 1200))
            insz = max(datalen, 64) if style in ("enc", "enc0") else 4096
            outsz = 4096
            corrupt = -1
            if style in ("dec", "seek") and rng.random() < 0.3:
                corrupt = rng.randrange(0, 200)
            ops = ["new real %s %d %d %d %d %d" % (api, variant, datalen, insz, outsz, corrupt)]
            in_end, out_end = 0, 0
            in_cap = datalen if style == "enc" else (0 if style == "enc0" else insz)
            first = True
            ncalls = rng.randrange(max_calls // 2, max_calls + 1)
            flush_left, flush_action = 0, 0
            finishing = False
            for i in range(ncalls):
                if variant == 2 and i == 1 and rng.random() < 0.8:
                    ops.append("memusage")
                    ops.append("memlimit_set 200000000")
                if i > ncalls * 0.7:
                    finishing = True
                x = rng.random()
                # action
                if flush_left > 0:
                    a = flush_action
                    flush_left -= 1
                elif finishing and x < 0.85:
                    a = 3
                elif x < 0.08:
                    a = rng.choice((1, 2, 4, 3))
                    flush_action, flush_left = a, rng.randrange(0, 4)
                elif x < 0.11:
                    a = rng.choice((5, 7, 1, 2, 4))
                else:
                    a = 0 if (mask & 1) else 3
                # input
                if first:
                    ins = "s:0:0" if style != "seek" else "z:0"
                elif style == "seek":
                    ins = rng.choice(("k", "k", "z:%d" % rng.choice((0, 1, 7, 64, 500, 4096))))
                else:
                    room = in_cap - in_end
                    y = rng.random()
                    if (a != 0 and flush_left >= 0 and a in (1, 2, 3, 4) and y < 0.85) or room <= 0 or y < 0.3:
                        ins = "k"
                    else:
                        d = rng.randrange(1, min(room, rng.choice((1, 3, 40, 400, 4096))) + 1)
                        in_end += d
                        ins = "d:+%d" % d
                    if rng.random() < 0.02:
                        ins = "d:-1"
                # output
                if first:
                    outs = "s:0:0"
                else:
                    room = outsz - out_end
                    if room <= 0 or rng.random() < 0.3:
                        outs = "k"
                    else:
                        d = rng.randrange(1, min(room, rng.choice((1, 5, 60, 600, 4096))) + 1)
                        out_end += d
                        outs = "d:+%d" % d
                first = False
                resv = "-" if rng.random() < 0.985 else "%d:1" % rng.randrange(9)
                ops.append("call %d %s %s %s - 0 0 0" % (a, ins, outs, resv))
                if rng.random() < 0.02:
                    ops.append(rng.choice(("memusage", "memlimit_get")))
            ops.append("end")
            hs.append(("realblind:%s/%d" % (api, variant), ops))
    return hs


class Session:
    """An interactive harness process: one op line in, one answer line out."""
    def __init__(self, exe):
        e = dict(os.environ)
        e.setdefault("ASAN_OPTIONS", "detect_leaks=1:abort_on_error=0:allocator_may_return_null=1")
        e.setdefault("UBSAN_OPTIONS", "print_stacktrace=1:halt_on_error=1")
        self.p = subprocess.Popen([exe, "-i"], stdin=subprocess.PIPE, stdout=subprocess.PIPE, stderr=subprocess.PIPE, env=e)
        self.ops, self.out = [], []

    def send(self, op):
        self.ops.append(op)
        try:
            self.p.stdin.write((op + "\n").encode())
            self.p.stdin.flush()
            line = self.p.stdout.readline().decode("utf-8", "replace")
        except (BrokenPipeError, OSError):
            line = ""
        if not line:
            self.out.append(None)
            return None
        self.out.append(line.rstrip("\n"))
        return self.out[-1]

    def close(self):
        try:
            self.p.stdin.close()
        except OSError:
            pass
        err = self.p.stderr.read().decode("utf-8", "replace")[-4000:]
        rc = self.p.wait()
        return rc, err


def drive_real(exe, seed, api, variant, style, max_calls, first_rel=None):
    """An application that uses a real coder mostly legally, steering by the return values, with ~8 % illegal calls
    (each followed by a call that restores the buffers, so that one mistake does not poison the rest of the session)."""
    rng = random.Random(seed)
    mask = DOC_MASK[api]
    datalen = rng.choice((0, 1, 50, 300, 700, 1200, 2500))
    insz = max(datalen, 64) if style in ("enc", "enc0") else 8192
    if style == "seek":
        # files above ~8 KiB make the file-info decoder ask for seeks
        datalen = rng.choice((300, 16000, 16000, 24000))
        insz = 32768
    outsz = 8192
    corrupt = rng.randrange(0, 300) if style in ("dec", "seek") and rng.random() < 0.25 else -1
    if first_rel is not None:
        # sweep: the FIRST slice of a file-info session ends `first_rel` bytes after (file size - 8192), i.e. around the
        # position the decoder jumps to right after the 12-byte Stream Header
        datalen, corrupt = rng.choice((16000, 24000)), -1
    se = Session(exe)
    r = se.send("new real %s %d %d %d %d %d" % (api, variant, datalen, insz, outsz, corrupt))
    if r is None or r.startswith("bad-op"):
        return se
    enc = int(r.partition("enc=")[2] or 0)
    seek = style == "seek"
    in_cap = datalen if style == "enc" else (0 if style == "enc0" else (enc if seek else insz))
    good = {"nin": 0, "ain": 0, "nout": 0, "aout": 0}     # buffers after the last call that was not deliberately illegal
    locked = None
    ended = 0
    first = True
    need_seek = seek
    restore = False
    bufs = 0
    chunk_in = rng.choice((1, 3, 16, 100, 1000, 8192))
    chunk_out = rng.choice((1, 4, 40, 300, 8192))
    for _ in range(max_calls):
        if ended > rng.randrange(1, 5):
            break
        nin, ain, nout, aout = good["nin"], good["ain"], good["nout"], good["aout"]
        room_in = in_cap - (nin + ain)
        room_out = outsz - (nout + aout)
        src_done = (nin >= enc and ain == 0) if style in ("dec", "seek") else (room_in <= 0 and ain == 0)
        # action
        if locked is not None:
            a = locked
        elif src_done and rng.random() < 0.7:
            a = 3
        elif rng.random() < 0.10 and mask & 0b10110:
            a = rng.choice([x for x in (1, 2, 4) if (mask >> x) & 1])
        elif rng.random() < (0.03 if style in ("enc", "enc0") else 0.005):
            a = 3
        else:
            a = 0 if mask & 1 else 3
        # buffers
        if first:
            ins, outs = ("z:%d" % chunk_in if seek else "s:0:0"), "s:0:0"
            if first_rel is not None:
                ins = "z:%d" % max(1, enc - 8192 + first_rel)
        else:
            if restore:
                ins, outs = "s:%d:%d" % (nin, ain), "s:%d:%d" % (nout, aout)
            else:
                ins = outs = "k"
            if need_seek:
                ins = "z:%d" % rng.randrange(1, chunk_in + 1)
            elif locked is None and room_in > 0 and (ain == 0 or rng.random() < 0.3):
                d = rng.randrange(1, min(room_in, chunk_in) + 1)
                ins = "s:%d:%d" % (nin, ain + d)
            if room_out > 0 and (aout == 0 or rng.random() < 0.4):
                d = rng.randrange(1, min(room_out, chunk_out) + 1)
                outs = "s:%d:%d" % (nout, aout + d)
        restore = False
        resv = "-"
        illegal = (not first) and rng.random() < 0.08
        if illegal:
            k = rng.randrange(7)
            if k == 0:
                a = rng.choice((5, 6, 255, 4294967295))
            elif k == 1:
                a = rng.choice([x for x in range(5) if x != a])
            elif k == 2:
                ins = "d:-1"
            elif k == 3 and room_in > 0:
                ins = "d:+1"
            elif k == 4:
                resv = "%d:%d" % (rng.randrange(9), rng.choice((1, 255)))
            elif k == 5:
                ins = "n:%d" % rng.randrange(0, 3)
            else:
                outs = "n:%d" % rng.randrange(0, 3)
            restore = True
        first = False
        res = se.send("call %d %s %s %s - 0 0 0" % (a, ins, outs, resv))
        if res is None or res.startswith("bad-op"):
            break
        d = parse_call(res)
        ret = d["ret"]
        bufs = bufs + 1 if ret == 10 else 0
        if bufs >= 3:
            break     # the application gives up after repeated LZMA_BUF_ERROR
        if not illegal or d["args"] != "-":
            # (an "illegal" variation may happen to be legal, e.g. another action while nothing is locked)
            if d["nin"] != "N":
                good["nin"], good["ain"] = int(d["nin"]), int(d["ain"])
            if d["nout"] != "N":
                good["nout"], good["aout"] = int(d["nout"]), int(d["aout"])
            restore = d["nin"] == "N" or d["nout"] == "N"
        if d["args"] != "-":
            need_seek = False
            c, p, r = (int(x) for x in d["inner"].split(","))
            if r == 1:
                if a in (1, 2, 4):
                    locked = None
                else:
                    ended += 1
            elif r == 12:
                need_seek = True
                locked = None if a == 3 else (a if a != 0 else None)
            elif r in (0, 101, 2, 3, 4, 6):
                locked = a if a != 0 else None
                if r == 6 and rng.random() < 0.8:
                    se.send("memusage")
                    se.send("memlimit_set 300000000")
            else:
                ended += 1
        elif ret in (1, 11) and d["seq"] in ("end", "error"):
            ended += 1
        if rng.random() < 0.02:
            se.send(rng.choice(("memusage", "memlimit_get")))
    se.send("end")
    return se


ALL_INITS = sorted(DOC_MASK)


def gen_chains(ctx, n_chains):
    """Several coders on ONE handle without lzma_end: every public init function (random order, some twice) and the stub
    with random masks. After each (re-)initialisation every action 0..5 is tried — either each on a freshly re-initialised
    handle, or the unsupported ones first and then a few calls that leave the handle in some state (idle twice, end of
    stream, a flush in progress, fatal error, overwritten totals) for the NEXT re-initialisation to clean up."""
    rng = ctx.rng
    hs = []
    for _ in range(n_chains):
        order = list(ALL_INITS) + [rng.choice(ALL_INITS) for _ in range(4)] + ["stub"] * 6
        rng.shuffle(order)
        ops = []
        for x in order:
            def init_op():
                verb = "reinit" if ops else "new"
                if x == "stub":
                    return "%s stub %d %d" % (verb, init_op.mask, rng.randrange(4))
                return "%s real %s 0 200 2048 2048 -1" % (verb, x)
            init_op.mask = rng.choice((31, 9, 11, 29, 8, 1, 0, rng.randrange(32)))
            mask = init_op.mask if x == "stub" else DOC_MASK[x]
            ops.append(init_op())
            actions = [0, 1, 2, 3, 4, 5]
            rng.shuffle(actions)
            if rng.random() < 0.5:
                for n, a in enumerate(actions):
                    if n:
                        ops.append(init_op())
                    ops.append("call %d s:0:%d s:0:%d - - 1 1 0" % (a, rng.choice((0, 8, 64)), rng.choice((8, 64))))
            else:
                sup = [a for a in range(5) if (mask >> a) & 1]
                for a in actions:
                    if a not in sup:
                        ops.append("call %d s:0:8 s:0:8 - - 1 1 0" % a)
                if sup:
                    k = rng.randrange(6)
                    a0 = rng.choice(sup)
                    if k == 0:      # idle twice: allow_buf_error set, then LZMA_BUF_ERROR
                        ops += ["call %d s:0:0 s:0:0 - - 0 0 0" % a0] * 3
                    elif k == 1:    # run to the end of the stream
                        a3 = 3 if 3 in sup else a0
                        sz = 64 if x == "stub" else 2048     # a stub created by `new` has 64-byte regions
                        ops += ["call %d s:0:%d s:0:%d - - 1 1 1" % (a3, sz, sz)] + ["call %d k k - - 0 0 1" % a3] * 2
                    elif k == 2:    # a flush/finish left in progress
                        fl = [a for a in sup if a != 0] or [a0]
                        ops.append("call %d s:0:40 s:0:0 - - 1 0 0" % rng.choice(fl))
                    elif k == 3:    # fatal error (stub) / ordinary use (real)
                        ops.append("call %d s:0:30 s:0:30 - - 1 1 9" % a0)
                        ops.append("call %d k k - - 1 1 0" % a0)
                    elif k == 4:    # totals overwritten by the application
                        ops.append("call %d s:0:30 s:0:30 - %d:%d 2 2 0" % (a0, rng.choice((5, U64 - 1)), rng.choice((7, U64 - 2))))
                    else:           # every supported action once (later ones may be locked out by the first)
                        for a in sup:
                            ops.append("call %d s:0:20 s:0:20 - - 1 1 0" % a)
        if rng.random() < 0.8:
            ops.append("end")
        hs.append(("chain", ops))
    return hs


def gen_histories(ctx):
    quick = ctx.quick()
    hs = gen_exhaustive(ctx)
    hs += gen_random_stub(ctx, 60 if quick else 3000, 100 if quick else 200)
    hs += gen_real(ctx, 1 if quick else 10, 40 if quick else 90)
    hs += gen_chains(ctx, 12 if quick else 150)
    return hs


# --------------------------------------------------------------------------------------------
# running
# --------------------------------------------------------------------------------------------

def split_balanced(hists, n):
    """Distribute whole histories over n chunks with similar line counts. Returns list of lists of indices."""
    order = sorted(range(len(hists)), key=lambda i: -len(hists[i][1]))
    bins = [[0, []] for _ in range(n)]
    for i in order:
        b = min(bins, key=lambda b: b[0])
        b[0] += len(hists[i][1])
        b[1].append(i)
    return [sorted(b[1]) for b in bins if b[1]]


def run_chunks(argv, hists, chunks, line_source):
    """Runs argv over each chunk; line_source(i) gives the op lines of history i. Returns {i: out lines or None}, errors."""
    def work(idx):
        lines = []
        for i in idx:
            lines += line_source(i)
        return vlib.run_lines(argv, lines)
    res = vlib.par_map(work, chunks)
    outs, errors = {}, []
    for idx, (rc, out, err) in zip(chunks, res):
        pos = 0
        for i in idx:
            n = len(line_source(i))
            seg = out[pos:pos + n]
            outs[i] = seg if len(seg) == n else None
            pos += n
        if rc != 0 or pos != len(out):
            errors.append((idx, rc, err))
    return outs, errors


def parse_call(line):
    """Parses a harness/model call result line into a dict (extras included when present)."""
    main, _, extra = line.partition(" # ")
    t = main.split()
    d = {"ret": int(t[0])}
    for kv in t[1:]:
        k, _, v = kv.partition("=")
        d[k] = v
    for kv in extra.split():
        k, _, v = kv.partition("=")
        d[k] = v
    return d


def comparable(line):
    return line.partition(" # ")[0].rstrip()


def model_lines(ops, impl):
    """Op lines for the model driver: for real coders the recorded inner triple replaces the script and z: specs are resolved."""
    out = []
    real = False
    for op, res in zip(ops, impl):
        t = op.split()
        if t[0] in ("new", "reinit"):
            real = t[1] == "real"
        if t[0] == "call" and real and res is not None and not res.startswith("bad-op"):
            d = parse_call(res)
            if d.get("inner", "-") != "-":
                t[6], t[7], t[8] = d["inner"].split(",")
            if t[2].startswith("z:"):
                pre = d["pre"].split(",")
                t[2] = "s:%s:%s" % (pre[0], pre[1])
            out.append(" ".join(t))
        else:
            out.append(op)
    return out


# --------------------------------------------------------------------------------------------
# the property monitor: checks the statements of C11 directly on the implementation trace
# --------------------------------------------------------------------------------------------

def apply_spec(spec, cur, avail):
    if spec == "k":
        return cur, avail
    p = spec.split(":")
    if p[0] == "s":
        return int(p[1]), int(p[2])
    if p[0] == "b":
        return (1 << 40) + int(p[1]), int(p[2])
    if p[0] == "n":
        return None, int(p[1])
    if p[0] == "d":
        v = int(p[1][1:])
        return (cur, avail + v) if p[1][0] == "+" else (cur, max(0, avail - v))
    return "z", int(p[1])


def offs(s):
    return None if s == "N" else int(s)


def monitor(ops, impl):
    """Returns a list of (op index, clause, message, kind). Empty list = every property statement holds on this trace.
    kind "obs": a statement of the property fails on what the APPLICATION can observe (return values, the six public
    members, whether/how the coder was called, memory outside the buffers) -> a violation with this history as input.
    kind "tie": only a PRIVATE member of lzma_internal (sequence, allow_buf_error, saved avail_in, supported_actions[])
    differs from what the model keeps there. The property does not promise those; such a difference only means the tie
    between model and code no longer checks -> ctx.obligation_broken, never a violation with an input."""
    bad = []
    st = None          # spec state of the handle
    for n, (op, res) in enumerate(zip(ops, impl)):
        t = op.split()
        def fail(clause, msg, kind="obs"):
            bad.append((n, clause, msg + " | op: " + op + " | impl: " + str(res), "obs" if clause == "machinery" else kind))
        if res is None or res.startswith("bad-op"):
            fail("machinery", "harness did not answer / rejected the op")
            break
        if t[0] in ("new", "reinit"):
            kind = t[1]
            if t[0] == "new" or st is None or kind == "real":
                # (on `reinit real` the harness-application resets its four buffer members: the regions are replaced)
                st = {"nin": None, "ain": 0, "nout": None, "aout": 0}
            mask = None
            if kind == "stub":
                mask = int(t[2]) % 32
            elif kind == "nocode":
                mask = int(t[2]) % 32
            elif kind == "real":
                mask = DOC_MASK[t[2]]
            st.update(kind=kind, init=(kind != "uninit"), code=(kind in ("stub", "real")), mask=mask, mode="run", locked=None, saved=None,
                      idle=False, tin=0, tout=0, flags=int(t[3]) if kind == "stub" else 0, memlimit=5000, real=(kind == "real"))
            # public part: return value and the totals; private part: sequence / allow_buf_error / supported_actions
            got = comparable(res).split()
            exp_pub = [t[0], "0", "tin=0", "tout=0"]
            exp_prv = ["seq=-", "abe=-", "sup=-"] if kind == "uninit" else ["seq=run", "abe=0", "sup=%d" % mask]
            if len(got) != 7 or [got[0], got[1], got[4], got[5]] != exp_pub:
                fail("strm_init_resets", "initialisation must return LZMA_OK and reset total_in/total_out")
            elif [got[2], got[3], got[6]] != exp_prv:
                if (got[2] == "seq=-") != (kind == "uninit"):
                    fail("strm_init_resets", "internal is %s after initialisation" % ("missing" if got[2] == "seq=-" else "present"))
                else:
                    fail("strm_init_resets", "private state after initialisation is %s, the model has %s" % ([got[2], got[3], got[6]], exp_prv), "tie")
            continue
        if st is None:
            fail("machinery", "op before new")
            break
        if t[0] == "end":
            if "stub_end_calls" in res:
                e = dict(kv.split("=") for kv in res.partition(" # ")[2].split())
                if e["stub_end_calls"] != e["expected"]:
                    fail("lzma_end", "coder end function called %s times, expected %s" % (e["stub_end_calls"], e["expected"]))
            st["init"] = False
            st["code"] = False
            continue
        if t[0] == "progress":
            exp = "progress 777 888" if (st["flags"] & 2) else "progress %d %d" % (st["tin"], st["tout"])
            if comparable(res) != exp:
                fail("get_progress", "expected '%s'" % exp)
            continue
        if t[0] in ("memusage", "memlimit_get", "memlimit_set"):
            if st["real"]:
                continue
            has = st["init"] and st["code"] and (st["flags"] & 1)
            if t[0] == "memusage":
                exp = "memusage %d" % (1234 if has else 0)
            elif t[0] == "memlimit_get":
                exp = "memlimit_get %d" % (st["memlimit"] if has else 0)
            else:
                v = int(t[1])
                if not has:
                    exp = "memlimit_set 11 -"
                else:
                    l = 1 if v == 0 else v
                    if l < 1234:
                        exp = "memlimit_set 6 %d" % l
                    else:
                        exp = "memlimit_set 0 %d" % l
                        st["memlimit"] = l
            if comparable(res) != exp:
                fail("memlimit", "expected '%s'" % exp)
            continue
        if t[0] != "call":
            fail("machinery", "unknown op")
            break
        d = parse_call(res)
        action = int(t[1])
        pre = d["pre"].split(",")
        # application side: resolve the specs (cross-checked against what the harness says it did)
        nin, ain = apply_spec(t[2], st["nin"], st["ain"])
        nout, aout = apply_spec(t[3], st["nout"], st["aout"])
        if nin == "z":
            nin, ain = offs(pre[0]), int(pre[1])
        if (nin, ain, nout, aout) != (offs(pre[0]), int(pre[1]), offs(pre[2]), int(pre[3])):
            fail("machinery", "harness resolved the buffer specs differently: %r" % ((nin, ain, nout, aout),))
            break
        if t[5] != "-":
            a, b = t[5].split(":")
            st["tin"], st["tout"] = int(a) % U64, int(b) % U64
        tin, tout = st["tin"], st["tout"]
        called = d["args"] != "-"
        post = (offs(d["nin"]), int(d["ain"]), int(d["tin"]), offs(d["nout"]), int(d["aout"]), int(d["tout"]))
        unchanged = post == (nin, ain, tin, nout, aout, tout)
        if d["guard"] != "ok":
            fail("memory", "memory outside the reported output window, the input buffer, a reserved member or a guard byte was modified")
        if d["law"] != "ok":
            fail("coder_law", "inner coder moved a position backwards/out of range or was called twice")
        ret = d["ret"]
        if 101 <= ret <= 108 and not (called and d["inner"].split(",")[2] == str(ret) and ret != 101):
            fail("internal_never_leaks", "internal return value %d returned to the application" % ret)

        def expect_rejected(clause, code):
            if ret != code:
                fail(clause, "expected return %d" % code)
            if called:
                fail(clause, "inner coder was called")
            if not unchanged:
                fail(clause, "public members changed on a rejected call")
            if st["init"] and (d["seq"] == "-"):
                fail(clause, "internal vanished")

        seqname = {1: "sync", 2: "fullflush", 3: "finish", 4: "barrier"}
        def check_internal(clause):
            """Private members vs the model's idea of them: tie only (see the docstring)."""
            if d["seq"] == "-":
                if st["init"]:
                    fail(clause, "internal vanished")
                return
            exp_seq = seqname[st["locked"]] if st["mode"] == "locked" else st["mode"]
            if d["seq"] != exp_seq:
                fail(clause, "sequence is %s, the model has %s" % (d["seq"], exp_seq), "tie")
            if st["mode"] == "locked" and d["sav"] != str(st["saved"]):
                fail(clause, "saved avail_in is %s, the model has %d" % (d["sav"], st["saved"]), "tie")
            if st["mode"] != "error" and int(d["abe"]) != int(st["idle"]):
                fail(clause, "allow_buf_error is %s, the model has %d" % (d["abe"], int(st["idle"])), "tie")

        st["nin"], st["ain"], st["nout"], st["aout"] = post[0], post[1], post[3], post[4]
        st["tin"], st["tout"] = post[2], post[5]
        sanity_fail = ((nin is None and ain != 0) or (nout is None and aout != 0) or not st["init"] or not st["code"]
                       or action > 4 or not ((st["mask"] >> action) & 1))
        if sanity_fail:
            expect_rejected("prog_error_cases", 11)
            check_internal("prog_error_cases")
            continue
        if t[4] != "-":
            expect_rejected("reserved_fields", 8)
            check_internal("reserved_fields")
            continue
        if st["mode"] == "error":
            expect_rejected("after_fatal", 11)
            check_internal("after_fatal")
            continue
        if st["mode"] == "end":
            expect_rejected("after_end", 1)
            check_internal("after_end")
            continue
        if st["mode"] == "locked" and (action != st["locked"] or ain != st["saved"]):
            expect_rejected("action_locked", 11)
            check_internal("action_locked")
            continue
        # the inner coder must be reached with exactly the public buffers
        if not called:
            fail("accounting_exact", "inner coder was not called on a legal call (returned %d)" % ret)
            continue
        exp_args = "%s,%d,%s,%d,%d,0,0" % ("N" if nin is None else nin, ain, "N" if nout is None else nout, aout, action)
        if d["args"] != exp_args:
            fail("accounting_exact", "inner coder got %s, expected %s" % (d["args"], exp_args))
        c, p, r = (int(x) for x in d["inner"].split(","))
        if not st["real"]:
            want = (min(int(t[6]), ain), min(int(t[7]), aout), int(t[8]))
            if (c, p, r) != want:
                fail("machinery", "stub did %r, scripted %r" % ((c, p, r), want))
        else:
            if r == 10 or 102 <= r <= 108:
                fail("internal_never_leaks", "a real coder returned %d to lzma_code" % r)
        if c > ain or p > aout:
            fail("coder_law", "inner coder reported more than it was given")
        exp_post = (None if nin is None else nin + c, ain - c, (tin + c) % U64, None if nout is None else nout + p, aout - p, (tout + p) % U64)
        if post != exp_post:
            fail("accounting_exact", "public members after the call are %r, expected %r" % (post, exp_post))
        newmode = ("run", None) if action == 0 else ("locked", action)
        if r == 0:
            idle = c == 0 and p == 0
            exp_ret = 10 if (idle and st["idle"]) else 0
            if ret != exp_ret:
                fail("buf_error_exact", "returned %d, expected %d (idle=%s, previous idle=%s)" % (ret, exp_ret, idle, st["idle"]))
            st["idle"] = idle
        elif r == 101:
            if ret != 0:
                fail("internal_never_leaks", "LZMA_TIMED_OUT must become LZMA_OK, returned %d" % ret)
            st["idle"] = False
        elif r == 12:
            if ret != 12:
                fail("seek_needed_resets", "returned %d, expected 12" % ret)
            st["idle"] = False
            if action == 3:
                newmode = ("run", None)
        elif r == 1:
            if ret != 1:
                fail("flush_returns_to_run", "returned %d, expected 1" % ret)
            st["idle"] = False
            newmode = ("run", None) if action in (1, 2, 4) else ("end", None)
        elif r in (2, 3, 4, 6):
            if ret != r:
                fail("nonfatal_continues", "returned %d, expected %d" % (ret, r))
            st["idle"] = False
        else:
            if ret != r:
                fail("after_fatal", "returned %d, expected %d" % (ret, r))
            newmode = ("error", None)
        st["mode"], st["locked"] = newmode
        st["saved"] = post[1]
        clause = {0: "buf_error_exact", 101: "internal_never_leaks", 12: "seek_needed_resets", 1: "flush_returns_to_run"}.get(r, "after_fatal" if r not in NONFATAL else "nonfatal_continues")
        check_internal(clause)
    return bad


# --------------------------------------------------------------------------------------------
# stages
# --------------------------------------------------------------------------------------------

def gen_stage(ctx):
    """Stage G: build harness/gen_c11.c against the sanitizer build of /repo, run it, rewrite Gen/C11.lean iff changed."""
    okg, log, gexe = vlib.harness_build("gen_c11", ["gen_c11.c"])
    if not okg:
        return False, "gen probe does not compile:\n" + log
    rc, out, err = vlib.run_lines([gexe], [])
    if rc != 0 or not out or not out[-1].startswith("end XzVerif.Gen.C11"):
        return False, "gen probe failed (rc=%d):\n%s\n%s" % (rc, "\n".join(out[-5:]), err)
    vlib.write_if_changed(vlib.module_path("XzVerif.Gen.C11"), "\n".join(out) + "\n")
    return True, ""


def ignore_sigpipe():
    """`./check` resets SIGPIPE to its default disposition (needed by C17/C18). This check writes op lines to harness
    processes that may die early (sanitizer abort on a broken tree); that must surface as EPIPE, not kill the check."""
    import signal
    try:
        signal.signal(signal.SIGPIPE, signal.SIG_IGN)
    except (OSError, ValueError):
        pass


def build(ctx):
    ignore_sigpipe()
    okb, log, _ = vlib.c_build("asan", targets=["liblzma"])
    if not okb:
        ctx.obligation_broken("stage B: /repo does not build", log)
        return None
    okh, log, exe = vlib.harness_build("c11", HARNESS)
    if not okh:
        ctx.obligation_broken("stage B: C11 harness does not compile against /repo", log)
        return None
    return exe


def shrink(exe, ops, still_bad):
    """Greedy reduction of a failing history: cut after the failing op, then drop earlier ops one at a time."""
    def run(o):
        rc, out, err = vlib.run_lines([exe], o)
        if len(out) != len(o):
            out = out + [None] * (len(o) - len(out))
        return out
    cur = list(ops)
    out = run(cur)
    b = still_bad(cur, out)
    if b is None:
        return ops
    cur = cur[:b + 1]
    i = len(cur) - 2
    budget = 200
    while i >= 1 and budget > 0:
        cand = cur[:i] + cur[i + 1:]
        budget -= 1
        out = run(cand)
        b = still_bad(cand, out)
        if b is not None:
            cur = cand[:b + 1]
            i = min(i, len(cur) - 1)
        i -= 1
    return cur


def run(ctx):
    ctx.cov["rule"] = ("histories = op lines (new/reinit/call/end/progress/memlimit ops; a call = action number, buffer specs incl. NULL and "
                       "changed lengths, reserved member, totals overwrite, scripted inner (consumed, produced, ret)); exhaustive: every pair of "
                       "calls over 6 actions x input kept/changed x 7 inner outcomes from a fresh handle and every call (thorough: pair) from each "
                       "of the 12 wrapper states; every mask x action; every reserved member; NULL cases; plus seeded random long histories on the "
                       "stub and on 17 real coder configurations; chains of all 18 public init functions and the stub on ONE handle without lzma_end (every action probed after each re-initialisation); non-trivial = the history contains a call; distinct by full op text")
    ctx.assumptions += [
        "Lean 4 kernel; the model in Model/LzmaCode.lean is what the theorems are about; its tie to common.c is the regenerated control table "
        "(decide +kernel), the supported_actions/enum tables, and the correspondence run",
        "harness/c11_main.c and harness/gen_c11.c faithfully drive the real functions (stub coder installed via lzma_next_strm_init; "
        "internal->sequence/allow_buf_error read and, in the Gen probe only, poked through common.h)",
        "the inner coder obeys the coder law (consumed <= in_size, produced <= out_size, never LZMA_BUF_ERROR); checked at run time for the real coders",
        "the C compiler; memory safety is observed (ASan/UBSan, guard bytes, shadow copies), not proved",
    ]
    exe = build(ctx)
    if exe is None:
        return "proof"
    # G
    okg, log = gen_stage(ctx)
    if not okg:
        ctx.obligation_broken("stage G: Gen/C11.lean cannot be regenerated by running the real lzma_code()/init functions", log)
    # P
    p_ok = ctx.lean_stage(["XzVerif.Props.C11"], exes=["xzm_c11"])
    model_ok = p_ok
    if not p_ok:
        # the driver depends on Model/ only; it may still be usable when a bridge theorem broke
        rc, out = vlib.lake(["build", "xzm_c11"])
        model_ok = rc == 0
    # K (+ the property monitor on every implementation trace), in batches to bound memory
    tot = {"hist": 0, "calls": 0, "lines": 0, "mism": 0, "mon_bad": 0, "checked": 0, "t_impl": 0.0, "t_model": 0.0, "t_cmp": 0.0}
    mexe = vlib.model_exe("xzm_c11") if model_ok else None
    for name, hists, impl in batches(ctx, exe):
        process(ctx, exe, mexe, hists, impl, tot)
        if len(ctx.violations) > 6:
            break
    ctx.log("harness %.1fs, model %.1fs, compare+monitor %.1fs" % (tot["t_impl"], tot["t_model"], tot["t_cmp"]))
    ctx.cov["correspondence"] = {"histories": tot["hist"], "calls": tot["calls"], "op_lines": tot["lines"],
                                 "model_ran": bool(model_ok), "histories_with_mismatch": tot["mism"],
                                 "histories_violating_monitor": tot["mon_bad"], "histories_with_private_state_difference_only": tot.get("tie_bad", 0),
                                 "compared": "return value, next_in/next_out offsets, avail_in/out, total_in/out, sequence, allow_buf_error, saved avail_in, arguments handed to the inner coder; results of lzma_get_progress/memusage/memlimit_get/set on the stub"}
    ctx.cov["search"] = {"histories_checked_by_property_monitor": tot["checked"], "violating": tot["mon_bad"]}
    return "proof"


def batches(ctx, exe):
    """Yields (name, histories, impl) where impl is None (to be run in bulk) or a dict of recorded outputs."""
    quick = ctx.quick()
    yield "exhaustive+random+blind", gen_histories(ctx), None
    if not quick:
        # every triple of calls from a fresh handle, 12 first letters at a time
        for k in range(0, len(LETTERS), 12):
            yield "exh3", [("exh3", hist_letters([l1, l2, l3])) for l1 in LETTERS[k:k + 12] for l2 in LETTERS for l3 in LETTERS], None
    # adaptive sessions on the real coders (an application steering by the return values)
    jobs = [(api, variant, style, ctx.rng.getrandbits(48)) for (api, variant, style) in REAL_CODERS for _ in range(3 if quick else 60)]

    # file-info decoder: first slices ending densely around the decoder's first jump target
    jobs += [("lzma_file_info_decoder", 0, "seek", ctx.rng.getrandbits(48), rel)
             for rel in range(-40, 21) for _ in range(1 if quick else 4)]

    def sess(j):
        se = drive_real(exe, j[3], j[0], j[1], j[2], 60 if quick else 120, first_rel=j[4] if len(j) > 4 else None)
        rc, err = se.close()
        return se.ops, se.out, rc, err
    hists, impl = [], {}
    for j, (ops, out, rc, err) in zip(jobs, vlib.par_map(sess, jobs)):
        api, variant = j[0], j[1]
        hists.append((("real:%s/%d" if len(j) == 4 else "sweep:%s/%d") % (api, variant), ops))
        if rc != 0 or None in out or len(out) != len(ops):
            if len(ctx.violations) < 4:
                ctx.violation("harness-abort", {"kind": "implementation aborted (sanitizer/assert/crash) in an interactive session; the last op is the one that aborted",
                                                "family": hists[-1][0], "ops": ops, "output_so_far": out, "stderr": err}, True)
            impl[len(hists) - 1] = None
        else:
            impl[len(hists) - 1] = out
    yield "interactive", hists, impl


def run_group(exe, hists, group):
    lines = []
    for i in group:
        lines += hists[i][1]
    rc, out, err = vlib.run_lines([exe], lines)
    ok = rc == 0 and len(out) == len(lines)
    outs = {}
    if ok:
        pos = 0
        for i in group:
            outs[i] = out[pos:pos + len(hists[i][1])]
            pos += len(hists[i][1])
    return ok, outs


def locate_aborts(ctx, exe, hists, idx, impl, limit=2):
    """A chunk of histories made the harness die. Histories are independent (each starts with `new`), so bisect on the
    shortest failing prefix; report up to `limit` aborting histories per chunk, keep the outputs of the others."""
    pending = list(idx)
    for i in pending:
        impl[i] = None
    found = 0
    while pending:
        ok, outs = run_group(exe, hists, pending)
        if ok:
            impl.update(outs)
            return
        if found >= limit or len([v for v in ctx.violations]) >= 4:
            return            # the remaining histories of this chunk are left unexplored
        lo, hi = 0, len(pending)          # prefix of length lo passes, prefix of length hi fails
        good = {}
        while hi - lo > 1:
            mid = (lo + hi) // 2
            ok, outs = run_group(exe, hists, pending[:mid])
            if ok:
                lo, good = mid, outs
            else:
                hi = mid
        impl.update(good)
        f = pending[hi - 1]
        ops = hists[f][1]

        def still(o, res):
            return len(o) - 1 if None in res else None
        small = shrink(exe, ops, still)
        se = Session(exe)
        for o in small:
            if se.send(o) is None:
                break
        rc1, e1 = se.close()
        ctx.violation("harness-abort", {"kind": "implementation aborted (sanitizer/assert/crash) on this history; the last op sent is the one that aborted",
                                        "family": hists[f][0], "ops": se.ops, "output_so_far": se.out, "stderr": e1, "original_ops": ops[:400]}, True)
        found += 1
        pending = pending[hi:]


def process(ctx, exe, mexe, hists, impl, tot):
    t0 = time.time()
    if impl is None:
        chunks = split_balanced(hists, vlib.NCPU)
        impl, errors = run_chunks([exe], hists, chunks, lambda i: hists[i][1])
        # sanitizer aborts / crashes: locate the aborting histories of a failed chunk by bisection (a few per run)
        for idx, rc, err in errors:
            locate_aborts(ctx, exe, hists, idx, impl)
    tot["t_impl"] += time.time() - t0
    # model
    m_out = {}
    if mexe is not None:
        t1 = time.time()
        mlines = {i: model_lines(hists[i][1], impl[i]) for i in range(len(hists)) if impl[i] is not None}
        live = sorted(mlines)
        idxs = [[live[k] for k in c] for c in split_balanced([(None, mlines[i]) for i in live], vlib.NCPU)]
        m_out, merr = run_chunks([mexe], hists, idxs, lambda i: mlines[i])
        if merr:
            ctx.obligation_broken("model driver xzm_c11 failed to answer every op", str(merr)[:2000])
        tot["t_model"] += time.time() - t1
    # compare + monitor
    t2 = time.time()
    for i, (fam, ops) in enumerate(hists):
        out = impl[i]
        if out is None:
            continue
        ncall = sum(1 for o in ops if o.startswith("call"))
        tot["hist"] += 1
        tot["calls"] += ncall
        tot["lines"] += len(ops)
        tot["checked"] += 1
        ctx.case(ops, nontrivial=ncall > 0, sample={"family": fam, "ops": ops[:6], "impl": out[:6]} if tot["hist"] % 1201 == 1 else None)
        ctx.count("family:" + fam.split(":")[0])
        for o, r in zip(ops, out):
            if o.startswith("call") and not r.startswith("bad-op"):
                ctx.count("impl_ret:" + r.split(" ", 1)[0])
                k = r.find(" seq=")
                ctx.count("state_after:" + r[k + 1:r.find(" sav=")].replace(" ", ","))
                if "inner=-" in r:
                    ctx.count("inner:not-called")
                else:
                    ctx.count("inner_ret:" + r[r.find("inner=") + 6:].split()[0].split(",")[2])
        bad = monitor(ops, out)
        mach = [b for b in bad if b[1] == "machinery"]
        if mach:
            raise RuntimeError("harness/generator inconsistency: %r" % (mach[0],))
        obs = [b for b in bad if b[3] == "obs"]
        tie = [b for b in bad if b[3] == "tie"]
        if obs:
            tot["mon_bad"] += 1
            if tot["mon_bad"] <= 3:
                def still(o, res):
                    b = [x for x in monitor(o, res) if x[1] != "machinery" and x[3] == "obs"]
                    return b[0][0] if b else None
                small = shrink(exe, ops, still)
                rc1, o1, e1 = vlib.run_lines([exe], small)
                o1 = o1 + [None] * (len(small) - len(o1))
                ctx.violation("protocol-" + obs[0][1], {"kind": "the implementation trace violates a C11 statement on what the application observes (property monitor, independent of the Lean model)",
                                                        "clause": obs[0][1], "findings": [b[2] for b in monitor(small, o1) if b[3] == "obs"][:5] or [b[2] for b in obs][:5],
                                                        "family": fam, "ops": small, "impl": o1, "original_ops": ops if len(ops) < 400 else ops[:400]}, True)
        elif tie:
            # only private members of lzma_internal differ from the model's: the tie no longer checks, the property may well hold
            tot["tie_bad"] = tot.get("tie_bad", 0) + 1
            if tot["tie_bad"] <= 2:
                ctx.obligation_broken("tie C11: private state of lzma_internal differs from the model's although everything the application observes satisfies the property monitor",
                                      json.dumps({"family": fam, "clause": tie[0][1], "finding": tie[0][2][:600], "ops": ops[:tie[0][0] + 1][-10:]}))
        mo = m_out.get(i)
        if mexe is not None and mo is not None:
            diff = [k for k in range(len(ops)) if comparable(out[k]) != mo[k]]
            if diff:
                tot["mism"] += 1
                if not obs and tot["mism"] <= 3:
                    k = diff[0]
                    ctx.obligation_broken("correspondence C11: model and implementation disagree although the implementation trace satisfies the property monitor (model defect or un-monitored behaviour)",
                                          json.dumps({"family": fam, "ops": ops[:k + 1][-12:], "impl": out[k], "model": mo[k]}))
    tot["t_cmp"] += time.time() - t2


def replay(ctx, path):
    import replaylib
    r = replaylib.load(ctx, path)
    ops = r.get("ops")
    if not ops:
        return replaylib.obligations("C11", run, r, path)
    exe = build(ctx)
    if exe is None:
        print("build failed")
        return 2
    rc, out, err = vlib.run_lines([exe], ops)
    for o, x in zip(ops, out + [None] * (len(ops) - len(out))):
        print("%-60s -> %s" % (o, x))
    if rc != 0 or len(out) != len(ops):
        print(err)
        print("VIOLATION property=C11 replay=%s (harness aborted)" % path)
        return 1
    bad = [b for b in monitor(ops, out)]
    for b in bad:
        print("monitor: op %d clause %s: %s [%s]" % b)
    mexe = vlib.model_exe("xzm_c11")
    if os.path.exists(mexe):
        rc, mo, _ = vlib.run_lines([mexe], model_lines(ops, out))
        for k in range(min(len(mo), len(out))):
            if comparable(out[k]) != mo[k]:
                print("model differs at op %d: model '%s'" % (k, mo[k]))
    if [b for b in bad if b[3] == "obs"]:
        print("VIOLATION property=C11 replay=%s" % path)
        return 1
    print("replay passes" + (" (private-state differences from the model only: tie, not a violation)" if bad else ""))
    return 0
