"""C07 — threaded decompression is equivalent to single-threaded under every schedule."""
import base64, hashlib, json, os, re, time
import vlib, schedlib, c07lib

META = {
    "category": "proof",
    "text": "Lean theorems over a labelled transition system of the threaded decoder protocol (Model/MtDec.lean: stream_decoder_mt.c + "
            "outqueue.c at mutex-critical-section granularity; all interleavings incl. spurious wake-ups and timed-wait expiry = all "
            "reachable states), by invariant induction: queue order = Block order, a finished outbuf is complete/final and carries its "
            "Block's verdict, failed workers never return to the free list, thr->in is never freed while the main thread may write it "
            "(CVE-2025-31115 shape), delivered output is always a prefix of the single-threaded output (also with fail-fast), the final "
            "status and output equal the single-threaded ones (errors only after all earlier output; the pending-error placeholder never "
            "leaks), no lost wake-up (a waiter without pending signal has its wait condition true, for workers and for the main thread). "
            "Deadlock freedom is proved: every reachable non-final state has an enabled transition that is neither a spurious wake-up nor a "
            "timer expiry (the owner of the head outbuf can always move), and the all-threads-blocked state is unreachable; early lzma_end "
            "joins only exited workers and nothing touches a joined worker. Exact memory accounting, the read_output_and_wait invariant "
            "(queue empty => the next threaded Block can start, given that SEQ_BLOCK_INIT only threads Blocks that fit memlimit_threading) "
            "and termination are proved: a measure strictly decreases on every internal transition whose Block decoder call makes "
            "progress, so every run has at most muInit + (33+4*threads)*calls internal steps and every call returns under every schedule. "
            "Tie to the code: protocol constants regenerated from the source (Gen/C07.lean, "
            "bridged by decide); the real decoder runs under a controlled scheduler (link-time pthread interposition, seeded random / PCT / "
            "non-preemptive schedules, forced time-outs and spurious wake-ups, deadlock = all threads blocked) on valid, corrupted, "
            "truncated, size-less, per-Block-filter and concatenated inputs, and must deliver exactly the bytes and status of "
            "lzma_stream_decoder on the same input (direct oracle, independent of Lean); with hook H3 the protocol-event trace of every run "
            "is replayed through the model's step function with cross-checks of every value the events carry (trace inclusion). "
            "Thorough tier repeats under real scheduling in a ThreadSanitizer build.",
    "note": "Trusted: Lean kernel + propext/Classical.choice/Quot.sound; the pthread semantics assumed by harness/vsched.c (mutual "
            "exclusion, atomic release on wait, signal wakes >= 1 waiter, spurious wake-ups); schedules are sampled, not enumerated, on "
            "the C side (the Lean theorems quantify over all of them for the model); preemption only at synchronisation operations, "
            "data races between them are observed by TSan at run time only (three genuine races are known findings). Not modelled: "
            "allocation failure paths, LZMA_*_CHECK informational returns, the wrapper's LZMA_BUF_ERROR (truncated input is covered by "
            "the direct oracle only), output-buffer cache, mem_cached. Not proved in Lean: the truncated-input clause 'finitely many LZMA_OK then LZMA_BUF_ERROR' "
            "(the no-progress counter is in lzma_code's wrapper, C11's model; checked by the direct oracle), any status claim under "
            "LZMA_FAIL_FAST. The termination theorem's hypothesis (every Block decoder call makes progress) and the input hypothesis "
            "(threaded Blocks fit memlimit_threading) are checked on every replayed trace by the driver.",
    "technique": "Lean 4 invariant proofs over an LTS + controlled-scheduler differential testing + trace inclusion + TSan",
}

HARNESS = ["c07_main.c", "vsched.c"]
TU = "src/liblzma/common/stream_decoder_mt.c"
HUGE = (1 << 63)
F_NO_CHECK, F_UNSUP, F_ANY, F_CONCAT, F_IGNORE, F_FAILFAST = 1, 2, 4, 8, 16, 32
RET = {0: "OK", 1: "STREAM_END", 2: "NO_CHECK", 3: "UNSUPPORTED_CHECK", 4: "GET_CHECK", 5: "MEM_ERROR", 6: "MEMLIMIT_ERROR",
       7: "FORMAT_ERROR", 8: "OPTIONS_ERROR", 9: "DATA_ERROR", 10: "BUF_ERROR", 11: "PROG_ERROR", 100: "CALL-BUDGET"}


# ---------------------------------------------------------------------------------------------
# case generation
# ---------------------------------------------------------------------------------------------

def pick_slicing(rng, size):
    lo = max(1, size // 1500)
    r = rng.random()
    if r < 0.25:
        return "a"
    if r < 0.45:
        return "f:%d" % rng.choice((lo, lo * 3, 4096, 16384, 65536))
    if r < 0.52 and size < 60000:
        return rng.choice(("f:1", "r:1", "r:2"))
    return "r:%d" % rng.choice((lo * 2, lo * 7, 1000 + lo, 20000, 70000))


def pick_in_slicing(rng, size):
    """Input slicing: additionally the pause/poll pattern (chunks, then a window fed one byte at a time with a zero-length
    poll call after every byte; the window is at the end of the input half of the time)."""
    if rng.random() < 0.18:
        return "p:%d" % rng.choice((max(1, size // 1500), 512, 4096, 30000))
    return pick_slicing(rng, size)


def gen_case(rng, e, idx, real=False, pre_pool=None):
    p = {}
    p["file"] = e["path"]
    p["threads"] = rng.choice((1, 2, 2, 3, 3, 4, 4, 5, 6, 7, 8))
    p["mlt"] = rng.choice((HUGE, HUGE, HUGE, HUGE, HUGE, HUGE, 1, 200000, 450000, 700000, 1500000, 3000000, 12000000))
    r = rng.random()
    p["mls"] = HUGE if r < 0.8 else rng.choice((1, 300000, 1200000, 2500000, 6000000))
    p["mlraise"] = rng.choice((0, 1))
    p["timeout"] = rng.choice((0, 0, 1, 50))
    flags = 0
    for f, pr in ((F_NO_CHECK, 0.15), (F_UNSUP, 0.15), (F_ANY, 0.15), (F_IGNORE, 0.15)):
        if rng.random() < pr:
            flags |= f
    if rng.random() < (0.8 if e.get("concatenated") else 0.35):
        flags |= F_CONCAT
    failfast = rng.random() < 0.08
    if failfast:
        flags |= F_FAILFAST
    p["flags"] = flags
    p["in"] = pick_in_slicing(rng, e["size"])
    p["out"] = pick_slicing(rng, max(e.get("usize", 0) or 0, e["size"] * 3))
    p["fin"] = 1 if (flags & F_CONCAT) or rng.random() < 0.7 else 0
    p["slice"] = rng.randrange(1, 1 << 30)
    p["endat"] = rng.randrange(0, 40) if rng.random() < 0.1 else -1
    p["prog"] = 1 if rng.random() < 0.3 else 0
    p["maxcalls"] = 400000
    mf = e.get("memfig")
    if mf and rng.random() < 0.35:
        # fine sweep of memlimit_threading around "one Block fits" .. "+ a few cached output buffers" (the window in which a
        # wrong memory figure in the can-start test makes a valid file fail is one output buffer wide), few threads
        m, b = mf[rng.randrange(len(mf))]
        p["mlt"] = max(1, m - 2048 + rng.randrange(0, 3 * b + 4096))
        p["threads"] = rng.choice((1, 1, 2, 3))
        p["mls"] = HUGE
        if failfast:
            p["flags"] = flags & ~F_FAILFAST
    if e["kind"] == "concat-garbage":
        # every combination of the LZMA_TELL_* flags with LZMA_CONCATENATED: the status behind the first Stream must not depend
        # on an informational return having been delivered for it; few threads, no fail-fast
        flags = F_CONCAT | (flags & F_IGNORE)
        for f in (F_NO_CHECK, F_UNSUP, F_ANY):
            if rng.random() < 0.5:
                flags |= f
        p["flags"] = flags
        p["fin"] = 1
        p["threads"] = rng.choice((1, 2, 3, 4))
    if e.get("exact"):
        # output space of EXACTLY the total output (sometimes one more / one less / none at all): a finished Block that has no
        # unread data has to be retired without any output space
        u = e.get("usize", 0) or 0
        p["outcap"] = rng.choice((u, u, u, u, u, u, u + 1, max(0, u - 1), 0 if u == 0 else u))
        p["flags"] = p["flags"] & ~F_FAILFAST
        p["endat"] = -1
    if not real and rng.random() < 0.5:
        # the stream's allocator fills fresh memory with 0xA5, validates every free and reports leaks after lzma_end
        p["alloc"] = 1
        if rng.random() < 0.12:
            p["failat"] = rng.randrange(1, 90)      # the N-th allocation fails
    if pre_pool and rng.random() < 0.10:
        # abandon a decode of another file on the same handle, then re-initialise: same thread count, or a larger thread
        # count for the abandoned decode (re-initialisation with fewer threads while workers are still running)
        p["pre"] = rng.choice(pre_pool)["path"]
        p["precalls"] = rng.randrange(1, 25)
        if rng.random() < 0.5:
            p["prethreads"] = p["threads"] + rng.randrange(1, 5)
    if real:
        p["mode"] = "real"
        p["jitter"] = rng.choice((0, 20, 80, 200))
        p["seed"] = rng.randrange(1, 1 << 30)
    else:
        p["mode"] = rng.choice(("random", "random", "random", "pct", "pct", "nopreempt"))
        p["seed"] = rng.randrange(1, 1 << 30)
        p["sticky"] = rng.choice((0, 0, 128, 230))
        p["pctd"] = rng.choice((1, 2, 3, 4, 6))
        p["pcts"] = rng.choice((50, 200, 1000, 4000))
        p["ptime"] = rng.choice((0, 8, 32, 128))
        p["pspur"] = rng.choice((0, 4, 4, 32))
        p["maxsteps"] = 20000000
    return p


POOL_WEIGHTS = (("valid-sized", 0.31), ("valid-other", 0.11), ("invalid-sized", 0.27), ("invalid-other", 0.09), ("repo", 0.12),
                ("flags-garbage", 0.04), ("no-output-block", 0.04), ("bad-filter-init", 0.02))
SPECIAL_POOLS = {"concat-garbage": "flags-garbage", "no-output-block": "no-output-block", "bad-filter-init": "bad-filter-init"}


def pools_of(entries):
    pools = {k: [] for k, _ in POOL_WEIGHTS}
    for e in entries:
        if e["kind"] in SPECIAL_POOLS:
            pools[SPECIAL_POOLS[e["kind"]]].append(e)
        elif e["kind"].startswith("repo-"):
            pools["repo"].append(e)
        elif e["valid"]:
            pools["valid-sized" if e.get("sized") and e.get("nblocks", 0) >= 2 else "valid-other"].append(e)
        else:
            pools["invalid-sized" if e.get("sized") else "invalid-other"].append(e)
    return pools


def pick_pool(rng, pools):
    r = rng.random()
    for k, w in POOL_WEIGHTS:
        if r < w and pools[k]:
            return k
        r -= w
    return "valid-sized" if pools["valid-sized"] else next(k for k in pools if pools[k])


def line_of(p):
    return "run " + " ".join("%s=%s" % (k, v) for k, v in p.items())


def parse_result(s):
    d = {}
    for t in s.split():
        if "=" in t:
            k, v = t.split("=", 1)
            d[k] = v
    return d


# ---------------------------------------------------------------------------------------------
# the direct property oracle (independent of Lean): threaded == single-threaded
# ---------------------------------------------------------------------------------------------

def judge(p, e, r):
    """Returns a list of failure strings (empty = property held on this run)."""
    bad = []
    if "mt_ret" not in r:
        return ["harness printed no result: %r" % (r,)]
    mt, st = int(r["mt_ret"]), int(r["st_ret"])
    failfast = bool(int(p["flags"]) & F_FAILFAST)
    if int(r["ended"]):
        return bad               # early lzma_end: surviving without a sanitizer/scheduler report is the property
    if mt == 100:
        bad.append("no termination: call budget exhausted (status still LZMA_OK after %s calls)" % r["calls"])
        return bad
    if r["prefix"] != "1" and not (e.get("bcj") and st not in (1,)):
        bad.append("delivered output is not a prefix of the single-threaded output")
    if int(p.get("failat", 0)) and "pre" not in p:
        # an allocation of the threaded decoder was made to fail: LZMA_MEM_ERROR is a legitimate outcome (the single-threaded
        # reference ran without the failure); what must hold is memory safety (allocator / sanitizer) and the output prefix
        if mt == 5:
            return bad
    if failfast:
        if st == 1 and (mt != 1 or r["same"] != "1"):
            bad.append("fail-fast: valid input but status %s / output differs" % RET.get(mt, mt))
        if st != 1 and mt in (0, 1):
            bad.append("fail-fast: single-threaded decoder rejects (%s) but threaded returned %s" % (RET.get(st, st), RET.get(mt, mt)))
        return bad
    if mt != st:
        bad.append("final status differs: threaded %s, single-threaded %s" % (RET.get(mt, mt), RET.get(st, st)))
    # Rejected input decoded without any worker thread (direct mode): the "threaded" decoder ran the very same Block decoder
    # as the single-threaded one, with the application's slicing; how many bytes that decoder hands out in front of an error
    # can depend on the slicing (C06's subject; behind a BCJ filter the tail is not even filtered). There the status must be
    # equal and the output must be a prefix of a single-threaded output. With worker threads the comparison is exact (against
    # the three single-threaded reference slicings; behind BCJ: length only).
    direct_reject = st != 1 and int(r.get("thr", "1")) <= 1
    if direct_reject:
        if r["same"] != "1" and r["prefix"] != "1" and not e.get("bcj"):
            bad.append("direct mode, rejected input: output is not a prefix of the single-threaded output")
    elif r["mt_len"] != r["st_len"]:
        bad.append("output length differs: threaded %s, single-threaded %s" % (r["mt_len"], r["st_len"]))
    elif r["same"] != "1" and not (e.get("bcj") and st != 1):
        bad.append("output bytes differ")
    if r["mt_info"] != r["st_info"]:
        bad.append("informational returns differ: threaded %s, single-threaded %s" % (r["mt_info"], r["st_info"]))
    return bad


# ---------------------------------------------------------------------------------------------
# running op lines
# ---------------------------------------------------------------------------------------------

def run_chunk(exe, lines, env=None, timeout=900, stderr_log=None):
    """Runs the lines in one process; when the process dies, the remaining lines continue in a new process.
    Returns list of (line, result-dict | None, rc, stderr). `stderr_log` (a list) receives (lines, stderr) per process."""
    out = []
    todo = list(lines)
    while todo:
        rc, o, err = vlib.run_lines([exe], todo, timeout=timeout, env=env)
        if stderr_log is not None and err.strip():
            stderr_log.append((list(todo), err))
        n = len([x for x in o if x.startswith("mt_ret=")])
        for i in range(min(n, len(todo))):
            out.append((todo[i], parse_result(o[i]), 0, ""))
        if n >= len(todo):
            if rc != 0:
                # all lines answered but the process still failed (e.g. LeakSanitizer at exit): blame the whole chunk
                out.append(("\n".join(todo), None, rc, err))
            break
        out.append((todo[n], None, rc, err))
        todo = todo[n + 1:]
    return out


def file_blob(path):
    with open(path, "rb") as f:
        return base64.b64encode(f.read()).decode()


def build(ctx, variant):
    ok, log, bd = vlib.c_build(variant, targets=None if variant == "asan" else ["liblzma"])
    if not ok:
        ctx.obligation_broken("stage B: /repo does not build (%s)" % variant, log)
        return None
    ok, log, exe = vlib.harness_build("c07", HARNESS, variant, libs=schedlib.WRAP_LDFLAGS, tu=TU)
    if not ok:
        ctx.obligation_broken("stage B: C07 harness does not compile against /repo (%s)" % variant, log)
        return None
    return exe


TSAN_KNOWN = (
    # (key, regex for the one racing source statement, regex for the other). Both genuine on the unchanged tree
    # (findings/C07-tsan-races.md); matched on the source TEXT of the two racing statements so that any other race,
    # also on the same variables from other statements, gets a different key and stays a VIOLATION.
    ("C07:tsan-race:coder-progress-counters",
     re.compile(r"worker_decoder: thr->coder->progress_(in|out) \+= thr->(in|out)_pos;"),
     re.compile(r"stream_decode_mt: (coder->progress_(in|out) \+= \*(in|out)_pos - (in|out)_old;|\+\+coder->progress_in;)")),
    ("C07:tsan-race:thr-in-pointer-read-after-full-copy",
     re.compile(r"worker_decoder: thr->in = NULL;"),
     re.compile(r"stream_decode_mt: lzma_bufcpy\(in, in_pos, in_size, coder->thr->in,$")),
    ("C07:tsan-race:partial_update-enabled-unlocked",
     re.compile(r"worker_decoder: thr->partial_update = PARTIAL_ENABLED;"),
     re.compile(r"read_output_and_wait: if \(coder->thr != NULL && coder->thr->partial_update$")),
)


def tsan_reports(stderr, repo):
    """Split TSan output into reports; returns list of (key, summary, text)."""
    reps = []
    for blk in re.split(r"^==================\n", stderr, flags=re.M):
        if "WARNING: ThreadSanitizer" not in blk:
            continue
        kind = re.search(r"WARNING: ThreadSanitizer: ([^\n(]*)", blk).group(1).strip()
        tops = re.findall(r"^\s+#0 (\S+) (\S+?):(\d+)", blk, flags=re.M)
        stmts = []
        for fn, path, ln in tops[:2]:
            try:
                src = open(path).read().split("\n")[int(ln) - 1].strip()
            except Exception:
                src = "%s:%s" % (os.path.basename(path), ln)
            if os.path.basename(path).startswith(("c07_main", "vsched")) or "libsanitizer" in path:
                continue
            stmts.append("%s: %s" % (fn, src))
        key = None
        if kind == "data race" and len(stmts) == 2:
            for k, rx1, rx2 in TSAN_KNOWN:
                if (rx1.search(stmts[0]) and rx2.search(stmts[1])) or (rx1.search(stmts[1]) and rx2.search(stmts[0])):
                    key = k
        if key is None:
            key = "C07:tsan:%s:%s" % (kind.replace(" ", "-"), "|".join(sorted(stmts)))
        reps.append((key, kind + " " + " <-> ".join(stmts), blk[:6000]))
    return reps


W_STATES = ["THR_IDLE", "THR_RUN", "THR_EXIT"]
PU_MODES = ["PARTIAL_DISABLED", "PARTIAL_START", "PARTIAL_ENABLED"]
SEQ_NAMES = ["SEQ_STREAM_HEADER", "SEQ_BLOCK_HEADER", "SEQ_BLOCK_INIT", "SEQ_BLOCK_THR_INIT", "SEQ_BLOCK_THR_RUN",
             "SEQ_BLOCK_DIRECT_INIT", "SEQ_BLOCK_DIRECT_RUN", "SEQ_INDEX_WAIT_OUTPUT", "SEQ_INDEX_DECODE", "SEQ_STREAM_FOOTER",
             "SEQ_STREAM_PADDING", "SEQ_ERROR"]


def g_probe():
    """The constants as the compiler sees them (harness/c07_probe.c, built against the asan build of the tree under test).
    Returns a dict or None (probe does not compile / run: a name it uses is gone)."""
    try:
        ok, log, exe = vlib.harness_build("c07probe", ["c07_probe.c"], "asan", tu=TU)
        if not ok:
            return None
        rc, out = vlib.sh([exe], timeout=60, env=dict(os.environ, ASAN_OPTIONS="detect_leaks=0"))
        if rc != 0:
            return None
        v = dict((k, int(x)) for k, x in (l.split("=", 1) for l in out.split("\n") if "=" in l))

        def order(names):
            # an enum whose members are no longer 0,1,2,... in this order is a different protocol: keep the observed order
            return [n for n in sorted(names, key=lambda n: v[n])] if sorted(v[n] for n in names) == list(range(len(names))) else None
        return dict(factor=v["bufs_limit_factor"], wst=order(W_STATES), pum=order(PU_MODES), seqs=order(SEQ_NAMES),
                    rets=dict(ok=v["LZMA_OK"], end=v["LZMA_STREAM_END"], data=v["LZMA_DATA_ERROR"], prog=v["LZMA_PROG_ERROR"],
                              memlimit=v["LZMA_MEMLIMIT_ERROR"], timed=v["LZMA_TIMED_OUT"]))
    except Exception:
        return None


def g_regex():
    """The same constants read from the source text; every entry may be missing (None)."""
    def rd(rel):
        return open(os.path.join(vlib.REPO, rel)).read()

    def attempt(f):
        try:
            return f()
        except Exception:
            return None
    dec = attempt(lambda: rd("src/liblzma/common/stream_decoder_mt.c")) or ""
    oq = attempt(lambda: rd("src/liblzma/common/outqueue.c")) or ""
    base = attempt(lambda: rd("src/liblzma/api/lzma/base.h")) or ""
    common = attempt(lambda: rd("src/liblzma/common/common.h")) or ""

    def enum_names(src, typename):
        body = re.search(r"typedef enum \{([^{}]*)\}\s*" + typename + r"\s*;", src, re.S).group(1)
        body = re.sub(r"/\*.*?\*/", "", body, flags=re.S)
        body = re.sub(r"//[^\n]*", "", body)
        return [t.strip().split("=")[0].strip() for t in body.split(",") if t.strip()]

    def seqs():
        x = re.search(r"struct lzma_stream_coder \{\s*enum \{(.*?)\} sequence;", dec, re.S).group(1)
        return [t.strip() for t in re.sub(r"//[^\n]*", "", x).split(",") if t.strip()]

    def rets():
        r = dict((k, int(v)) for k, v in re.findall(r"^\s*(LZMA_[A-Z_0-9]+)\s*=\s*(\d+),", base, re.M))
        internal = re.search(r"#define LZMA_TIMED_OUT (LZMA_RET_INTERNAL\d)", common).group(1)
        return dict(ok=r["LZMA_OK"], end=r["LZMA_STREAM_END"], data=r["LZMA_DATA_ERROR"], prog=r["LZMA_PROG_ERROR"],
                    memlimit=r["LZMA_MEMLIMIT_ERROR"], timed=r[internal])
    return dict(
        factor=attempt(lambda: int(re.search(r"#define GET_BUFS_LIMIT\(threads\) \((\d+) \* \(threads\)\)", oq).group(1))),
        wst=attempt(lambda: enum_names(dec, "worker_state")), pum=attempt(lambda: enum_names(dec, "partial_update_mode")),
        seqs=attempt(seqs), rets=attempt(rets))


def stage_g(ctx):
    """Regenerate lean/XzVerif/Gen/C07.lean: the protocol constants the model depends on. Numeric constants come from a compiled
    probe (robust against macros becoming functions, code being moved, ...), with the source text as the fall-back; the enum
    member lists come from the source text (which also sees members the probe does not know about), with the probe as the
    fall-back. The obligation is broken only if a constant can be obtained in neither way."""
    pr = g_probe() or {}
    rx = g_regex()
    val = {}
    for k in ("factor", "rets"):
        val[k] = pr.get(k) if pr.get(k) is not None else rx.get(k)
    for k in ("wst", "pum", "seqs"):
        val[k] = rx.get(k) if rx.get(k) is not None else pr.get(k)
    missing = [k for k in ("factor", "rets", "wst", "pum", "seqs") if val[k] is None]
    if missing:
        ctx.obligation_broken("stage G: protocol constants can be obtained neither from the compiled probe (harness/c07_probe.c) nor "
                              "from the text of stream_decoder_mt.c / outqueue.c / base.h", "missing: %s; probe %s" %
                              (missing, "ran" if pr else "did not compile or run"))
        return False
    ctx.cov["stage-G"] = "probe" if pr else "regex only (the probe did not compile)"
    rets = val["rets"]
    body = ("/- REGENERATED by tools/props/c07.py (stage G) from src/liblzma/common/stream_decoder_mt.c, outqueue.c, common.h and\n"
            "   api/lzma/base.h (compiled probe harness/c07_probe.c, source text as fall-back). Do not edit. Bridged to\n"
            "   Model/MtDec.lean by `decide` theorems in Props/C07.lean. -/\n"
            "namespace XzVerif.Gen.C07\n\n"
            "def bufsLimitFactor : Nat := %d\n"
            "def workerStates : List String := %s\n"
            "def partialUpdateModes : List String := %s\n"
            "def sequences : List String := %s\n"
            "def retOK : Nat := %d\ndef retStreamEnd : Nat := %d\ndef retDataError : Nat := %d\ndef retProgError : Nat := %d\n"
            "def retMemlimitError : Nat := %d\ndef retTimedOut : Nat := %d\n\n"
            "end XzVerif.Gen.C07\n") % (
        val["factor"], json.dumps(val["wst"]), json.dumps(val["pum"]), json.dumps(val["seqs"]), rets["ok"], rets["end"],
        rets["data"], rets["prog"], rets["memlimit"], rets["timed"])
    vlib.write_if_changed(vlib.module_path("XzVerif.Gen.C07"), body)
    return True


def run(ctx):
    quick = ctx.quick()
    rng = ctx.rng
    ctx.cov["rule"] = ("one case = (input file, threads 1..8, memlimit_threading, memlimit_stop, timeout 0/1/50 ms, decoder flags, input/output "
                       "slicing incl. zero-length slices, FINISH policy, optional early lzma_end, scheduler strategy random/PCT/no-preempt with "
                       "forced time-out and spurious wake-up rates, schedule seed); files: valid multi-Block (sizes in headers / without), "
                       "per-Block filter chains, corrupted data/check/header/sizes in first/middle/last Block, truncated at six places, bad "
                       "Index/Footer, concatenated Streams with good/bad padding, BCJ, tests/files/*.xz; non-trivial = at least one worker thread "
                       "was created; distinct by the hash of the executed schedule")
    ctx.assumptions += [
        "pthread semantics as modelled by harness/vsched.c (mutual exclusion, wait releases atomically, signal wakes >= 1 waiter, spurious wake-ups, timed waits may expire at any time)",
        "preemption happens only at synchronisation operations in controlled runs; unsynchronised accesses are observed by TSan (thorough tier) only",
        "the block decoder is deterministic and slicing independent (C06), so the single-threaded decoder on the same bytes is the reference",
        "C side samples schedules (seeded); the universally quantified statements are the Lean theorems about Model/MtDec.lean",
    ]
    # ---- B (first: stage G's probe is compiled against this build)
    exe = build(ctx, "asan")
    # ---- G
    g_ok = stage_g(ctx)
    # ---- P
    p_ok = True
    have_lean = os.path.exists(vlib.module_path("XzVerif.Props.C07"))
    if have_lean:
        p_ok = ctx.lean_stage(["XzVerif.Props.C07"], exes=["xzm_c07"]) and g_ok
    else:
        ctx.obligation_broken("stage P: lean/XzVerif/Props/C07.lean is missing", "")
        p_ok = False
    drv_ok = p_ok
    if not p_ok:
        rc, out = vlib.lake(["build", "xzm_c07"])
        drv_ok = rc == 0
    if not schedlib.check_header_in_sync(vlib.ROOT):
        ctx.obligation_broken("tools/schedlib.py WRAPPED differs from SCHED_WRAPPED in harness/vsched.h", "")
    if exe is None:
        return "proof"
    # The corpus is produced by the xz built from the unmodified /repo when that build exists (a scratch worktree under
    # test may have a broken encoder; C07 is about the decoder), else by the tree's own xz.
    xz = os.path.join(vlib.LEANCACHE, "build-asan", "xz")
    if not os.path.exists(xz):
        xz = os.path.join(vlib.build_dir("asan"), "xz")
    # ---- corpus
    fdir = os.path.join(vlib.CACHE, "c07-files", "%s-seed%d" % (ctx.tier, ctx.seed))
    t = time.time()
    corpus = c07lib.Corpus(xz, fdir, rng)
    try:
        entries = corpus.build(quick, vlib.REPO)
    except RuntimeError as ex:
        ctx.obligation_broken("corpus generation: the xz encoder failed while producing the C07 input files", str(ex))
        return "proof"
    ctx.log("corpus: %d files in %.1fs" % (len(entries), time.time() - t))
    for e in entries:
        ctx.count("file-kind:" + e["kind"])
    # ---- K1: direct oracle under the controlled scheduler
    ncases = 20000 if quick else 160000
    cases = []
    pools = pools_of(entries)
    for i in range(ncases):
        e = rng.choice(pools[pick_pool(rng, pools)])
        cases.append((e, gen_case(rng, e, i, pre_pool=pools["valid-sized"])))
    bad_total = run_cases(ctx, exe, cases, "controlled", model_ok=drv_ok)
    # ---- K2 (thorough): real scheduling under ThreadSanitizer
    if not quick:
        texe = build(ctx, "tsan")
        if texe is not None:
            tcases = []
            for i in range(4000):
                e = rng.choice(pools[pick_pool(rng, pools)])
                tcases.append((e, gen_case(rng, e, i, real=True, pre_pool=pools["valid-sized"])))
            run_cases(ctx, texe, tcases, "tsan-real", model_ok=False, tsan=True)
    return "proof"


def run_cases(ctx, exe, cases, label, model_ok, tsan=False):
    t = time.time()
    per = 8 if tsan else 25
    parts = [cases[i:i + per] for i in range(0, len(cases), per)]
    env = {"TSAN_OPTIONS": "halt_on_error=0 exitcode=0 second_deadlock_stack=1", "ASAN_OPTIONS": "detect_leaks=1:abort_on_error=0"}

    tsan_err = []

    def work(part):
        return run_chunk(exe, [line_of(p) for _, p in part], env=env, timeout=600 if tsan else 900,
                         stderr_log=tsan_err if tsan else None)
    results = vlib.par_map(work, parts)
    nbad = 0
    tot = dict(steps=0, switches=0, waits=0, to=0, spur=0, cont=0)
    shashes = set()
    hook_seen = False
    trace_jobs = []
    for part, res in zip(parts, results):
        bylines = {line_of(p): (e, p) for e, p in part}
        for line, r, rc, err in res:
            if r is None:
                first = line.split("\n")[0]
                e, p = bylines.get(first, (None, None))
                verdict = schedlib.classify(rc, err)
                kind = {"deadlock": "deadlock: every thread blocked (controlled scheduler)", "budget": "no termination within the step budget",
                        "misuse": "pthread misuse detected by the scheduler"}.get(verdict)
                if kind is None:
                    kind = "timeout (hang under real scheduling?)" if rc == 124 else "implementation aborted (sanitizer/assert/crash), rc=%d" % rc
                nbad += 1
                if nbad <= 6:
                    ctx.violation(label + "-" + (verdict or "abort"), {
                        "kind": kind, "op": line, "stderr": err[-6000:], "file_name": e["name"] if e else None,
                        "file_b64": file_blob(e["path"]) if e else None,
                        "how_to_replay": "./check C07 --replay <this file>   (restores the input file, runs the op line in .cache/harness-*/c07)"}, True)
                continue
            e, p = bylines[line]
            fails = judge(p, e, r)
            nontrivial = int(r.get("thr", "0")) >= 2 or tsan
            ctx.case(("%s|%s" % (r.get("shash"), line)) if not tsan else line, nontrivial=nontrivial,
                     sample={"op": line[:300], "result": {k: r[k] for k in ("mt_ret", "mt_len", "st_ret", "st_len", "same", "calls", "steps", "thr")}} if ctx.cov["evaluations"] % 499 == 0 else None)
            ctx.count("%s:file:%s" % (label, e["kind"]))
            ctx.count("%s:mt_ret:%s" % (label, RET.get(int(r["mt_ret"]), r["mt_ret"])))
            ctx.count("%s:threads:%s" % (label, p["threads"]))
            ctx.count("%s:workers-created:%s" % (label, max(0, int(r["thr"]) - 1)))
            ctx.count("%s:mode:%s" % (label, p["mode"]))
            ctx.count("%s:timeout:%s" % (label, p["timeout"]))
            if int(r["ended"]):
                ctx.count(label + ":early-lzma_end")
            if int(p["flags"]) & F_FAILFAST:
                ctx.count(label + ":fail-fast")
            for k in tot:
                tot[k] += int(r.get(k, 0))
            shashes.add(r.get("shash"))
            if r.get("hook") == "1":
                hook_seen = True
                if model_ok and r.get("ev", "-") != "-" and len(r["ev"]) < 400000:
                    trace_jobs.append((e, p, line, r))
            if fails:
                nbad += 1
                if nbad <= 6:
                    ctx.violation(label + "-mismatch", {
                        "kind": "threaded decoder differs from the single-threaded decoder: " + "; ".join(fails), "op": line,
                        "result": {k: v for k, v in r.items() if k != "ev"}, "file_name": e["name"], "file_b64": file_blob(e["path"]),
                        "how_to_replay": "./check C07 --replay <this file>"}, True)
    # TSan reports (attributed to the process = chunk of op lines that produced them)
    ntsan = 0
    if tsan:
        seen = set()
        bypath = {line_of(p): e for e, p in cases}
        for lines_, err in tsan_err:
            for key, summary, text in tsan_reports(err, vlib.REPO):
                ntsan += 1
                ctx.count("tsan-report:" + key[:120])
                if key in seen:
                    continue
                seen.add(key)
                es = {bypath[ln]["name"]: bypath[ln] for ln in lines_ if ln in bypath}
                ctx.violation("tsan", {"kind": "ThreadSanitizer report under real scheduling: " + summary, "ops": lines_,
                                       "report": text, "files_b64": {n: file_blob(e["path"]) for n, e in es.items()},
                                       "how_to_replay": "./check C07 --replay <this file>   (TSan build, real scheduling; races are timing dependent: the replay repeats the chunk up to 20 times)"},
                              True, key=key)
    ctx.cov["correspondence"].setdefault("stages", {})[label] = {
        "runs": len(cases), "failing": nbad, "distinct_schedules": len(shashes), "scheduling_points": tot["steps"], "context_switches": tot["switches"],
        "cond_waits": tot["waits"], "forced_timeouts": tot["to"], "spurious_wakeups": tot["spur"], "contended_locks": tot["cont"],
        "tsan_reports": ntsan, "h3_hook_present": hook_seen, "wall_s": round(time.time() - t, 1)}
    ctx.log("%s: %d runs, %d failing, %d distinct schedules, %.1fs" % (label, len(cases), nbad, len(shashes), time.time() - t))
    if trace_jobs:
        if ctx.quick():
            trace_jobs = [j for j in trace_jobs if len(j[3]["ev"]) < 150000]
            if len(trace_jobs) > 2000:
                trace_jobs = trace_jobs[::max(1, len(trace_jobs) // 2000)]
        else:
            cap = int(os.environ.get("C07_TRACE_CAP", "8000"))
            if len(trace_jobs) > cap:
                trace_jobs = trace_jobs[::max(1, len(trace_jobs) // cap)]
        trace_inclusion(ctx, trace_jobs, label)
    return nbad


def trace_inclusion(ctx, jobs, label):
    mexe = vlib.model_exe("xzm_c07")
    if not os.path.exists(mexe):
        ctx.obligation_broken("model driver xzm_c07 missing", "")
        return
    lines = []
    for e, p, line, r in jobs:
        lines.append("trace threads=%s failfast=%d timed=%d ev=%s" % (p["threads"], 1 if int(p["flags"]) & F_FAILFAST else 0, 1 if int(p["timeout"]) else 0, r["ev"]))
    # balance by trace length: longest first, dealt round-robin over 2*NCPU model processes
    order = sorted(range(len(lines)), key=lambda i: -len(lines[i]))
    nparts = max(1, min(len(lines), 2 * vlib.NCPU))
    parts = [order[k::nparts] for k in range(nparts)]
    res = vlib.par_map(lambda ix: vlib.run_lines([mexe], [lines[i] for i in ix]), parts)
    rejected = 0
    answered = 0
    skipped = 0
    for ix, (rc, out, err) in zip(parts, res):
        if len(out) != len(ix):
            ctx.obligation_broken("model driver xzm_c07 failed to answer every trace", err[-2000:])
            continue
        for i, o in zip(ix, out):
            answered += 1
            if o.startswith("skip"):
                skipped += 1
                continue
            if not o.startswith("accept"):
                rejected += 1
                e, p, line, r = jobs[i]
                if os.environ.get("C07_DEBUG"):
                    with open(os.path.join(vlib.CACHE, "c07-rejects.txt"), "a") as f:
                        f.write("%s\t%s\n" % (o[:300], line))
                if rejected <= 3:
                    fails = judge(p, e, r)
                    if fails:
                        continue   # already reported by the direct oracle
                    ctx.obligation_broken("trace inclusion C07: the implementation's protocol trace is not a behaviour of Model/MtDec.lean (%s)" % o[:200],
                                          json.dumps({"op": line, "model": o[:2000], "events": r["ev"][:4000]}))
    ctx.cov["correspondence"].setdefault("stages", {})[label + "-trace-inclusion"] = {"traces": answered, "rejected": rejected, "skipped_unmodelled": skipped}
    ctx.log("%s: trace inclusion %d traces, %d rejected" % (label, answered, rejected))


def replay(ctx, path):
    import replaylib
    r = replaylib.load(ctx, path)
    if "no_longer_checks" in r and "ops" not in r and "op" not in r:
        return replaylib.obligations("C07", run, r, path)
    d = os.path.join(vlib.CACHE, "c07-replay")
    os.makedirs(d, exist_ok=True)
    tsan = "ops" in r
    exe = build(ctx, "tsan" if tsan else "asan")
    if exe is None:
        print("build failed")
        return 2

    def restore(name, b64, line):
        p = os.path.join(d, name + ".xz")
        with open(p, "wb") as f:
            f.write(base64.b64decode(b64))
        return re.sub(r"file=\S+", "file=" + p, line)
    if tsan:
        lines = []
        for ln in r["ops"]:
            nm = re.search(r"file=\S*/([^/\s]+)\.xz", ln).group(1)
            lines.append(restore(nm, r["files_b64"][nm], ln))
        for attempt in range(20):
            rc, o, err = vlib.run_lines([exe], lines, timeout=600, env={"TSAN_OPTIONS": "halt_on_error=0 exitcode=66"})
            reps = tsan_reports(err, vlib.REPO)
            if reps:
                for key, summary, text in reps:
                    print(summary)
                return replaylib.failed(ctx, "C07", r, path, keys=[key for key, _, _ in reps])
        print("replay passes (no TSan report in 20 attempts)")
        return 0
    line = restore(r.get("file_name") or "replay", r["file_b64"], r["op"].split("\n")[0])
    res = run_chunk(exe, [line])
    ln, rr, rc, err = res[0]
    print("op:", line)
    if rr is None:
        print("rc=%d\n%s" % (rc, err[-3000:]))
        print("VIOLATION property=C07 replay=%s" % path)
        return 1
    p = parse_result(line)
    fails = judge(p, {"bcj": "x86" in line or "arm64" in line or "bcj" in line}, rr)
    print("result:", {k: v for k, v in rr.items() if k != "ev"})
    if fails:
        print("; ".join(fails))
        print("VIOLATION property=C07 replay=%s" % path)
        return 1
    print("replay passes")
    return 0
