"""C10 — allocation failure at any point is reported cleanly and nothing leaks."""
import json, os, re
import vlib

META = {
    "category": "proof",
    "text": "Lean theorems over an executable model of liblzma's allocation discipline (heap of live block ids, arbitrary failure oracle, lzma_next_coder trees with the lzma_next_coder_init / lzma_next_strm_init / lzma_next_end / lzma_next_filter_init / lzma_end macros, one allocation script per coder, lzma_index_* and lzma_filters_copy): for ALL histories of API calls on one handle and ALL failure sets no block is freed twice, a failed init leaves nothing, and after lzma_end the heap equals the heap before; atomicity of filters_copy / index_cat / index_append / index_dup. Tie: the real code runs under a failing, tracking lzma_allocator (ASan build) for every k-th allocation of every scenario; the alloc/free trace (sizes from sizeof probes regenerated each run) must be accepted by the model scripts, and a direct oracle checks return codes, leaks, double frees, caller-owned objects and handle usability independently of Lean.",
    "note": "Trusted: Lean kernel + propext/Classical.choice/Quot.sound; the harness allocator and its live table; ASan. Modelled, not verified: the scripts are a hand abstraction of ~30 init/end/code functions (kept honest by trace replay over all k). Threaded coders: direct oracle only (no model replay). pthread failures (F4) are outside the allocator quantifier.",
    "technique": "Lean 4 proof over an executable model + trace inclusion under injected allocation failures (all k, from-k, random subsets)",
}

HARNESS = ["c10_main.c"]

# ------------------------------------------------------------------------------------------------
# stage G: sizeof / constants probe (one source compiled once per PART, see harness/gen_c10.c)
# ------------------------------------------------------------------------------------------------
NPARTS = 24


def gen_c10():
    outdir = os.path.join(vlib.CACHE, "gen", "c10")
    os.makedirs(outdir, exist_ok=True)
    flags = [f for f in vlib.lib_flags("asan") if not f.startswith("-W") and f != "-fvisibility=hidden"]
    src = os.path.join(vlib.ROOT, "harness", "gen_c10.c")

    def one(p):
        o = os.path.join(outdir, "p%d.o" % p)
        rc, out = vlib.sh(["cc"] + flags + ["-w", "-DPART=%d" % p, "-c", src, "-o", o], timeout=300)
        return rc, out, o

    with vlib.Lock("gen-c10"):
        res = vlib.par_map(one, range(NPARTS))
        for rc, out, _ in res:
            if rc:
                return False, "gen_c10 part does not compile:\n" + out[-3000:]
        exe = os.path.join(outdir, "gen_c10")
        lflags = [f for f in flags if f.startswith("-fsanitize") or f in ("-g", "-pthread")]
        rc, out = vlib.sh(["cc"] + lflags + [o for _, _, o in res] + ["-o", exe, os.path.join(vlib.build_dir("asan"), "liblzma.a"), "-lpthread"], timeout=300)
        if rc:
            return False, "gen_c10 does not link:\n" + out[-3000:]
        rc, out = vlib.sh([exe], timeout=60)
        if rc or "def sizes" not in out:
            return False, "gen_c10 failed:\n" + out[-2000:]
    vlib.write_if_changed(vlib.module_path("XzVerif.Gen.C10"), out)
    return True, ""


# ------------------------------------------------------------------------------------------------
# scenarios
# ------------------------------------------------------------------------------------------------
L2a = "lzma2,65536,4,32,1"        # hc4
L2b = "lzma2,1048576,20,64,2"     # bt4, normal mode
L2c = "lzma2,262144,3,128,1"      # hc3
L2d = "lzma2,65536,18,32,2"       # bt2
L2e = "lzma2,98304,19,48,2"       # bt3, 3*2^15
L1a = "lzma1,65536,4,32,1"
L1b = "lzma1,1048576,20,64,2"
L1c = "lzma1,262144,3,64,1"
X86 = "bcj,x86,-1"
X86o = "bcj,x86,16"
X86z = "bcj,x86,0"
ARM64 = "bcj,arm64,-1"
ARM = "bcj,arm,-1"
ARMT = "bcj,armthumb,4"
PPC = "bcj,powerpc,-1"
IA64 = "bcj,ia64,-1"
SPARC = "bcj,sparc,-1"
RISCV = "bcj,riscv,-1"
L2bad = "lzma2,65536,4,32,0"      # invalid mode: LZMA_OPTIONS_ERROR (after the LZMA encoder structs were allocated)
L1bad = "lzma1,65536,4,32,0"
D1 = "delta,1"
D4 = "delta,4"


def xz(chain, ln=1500, nb=1, ns=1, check="crc32"):
    return "xz/%s/%s/%d/%d/%d" % (check, chain, ln, nb, ns)


def xzmt(chain, ln=3000, nb=3, ns=1, check="crc32"):
    """written by the threaded encoder (sizes in the Block Headers): the MT decoder really uses its worker threads"""
    return "xzmt/%s/%s/%d/%d/%d" % (check, chain, ln, nb, ns)


INIT_STEPS = ("easyenc", "senc", "sencmt", "aenc", "mlenc", "renc", "benc", "sdec", "sdecmt", "adec", "alonedec", "lzipdec", "rdec", "bdec", "mldec",
              "sdecml", "adecml", "sdecmtml")
SMALL, SMALL2, BIG = 40000, 50000, 1 << 40     # memory limits: above LZMA_MEMUSAGE_BASE but too small for any Block here / plenty


def hexs(s):
    return s.encode().hex()


TAIL = ["nofail", None, "finish:300", "sdec:0:" + xz(L2a, 700, 1, 1), "dcode", "end"]   # None = easyenc (needs presets)


class Gen:
    def __init__(self, presets):
        self.presets = presets       # {preset: "dict,mf,nice,mode"}

    def easy(self, p, check="crc32"):
        return "easyenc:%d:%s:lzma2,%s" % (p, check, self.presets[p])

    def ebuf(self, p, ln, check="crc32"):
        return "ebufenc:%d:%s:%d:lzma2,%s" % (p, check, ln, self.presets[p])

    def tail(self):
        t = list(TAIL)
        t[1] = self.easy(0)
        return t

    def assemble(self, steps, slots=()):
        """scenario body + failure-free tail. If the body works on the handle only and starts with an init, the tail first
        REPEATS THE WHOLE BODY on the same handle, without lzma_end in between: after "allocation k failed" every coder kind of
        the scenario is re-initialised on the handle the failure left behind, and has to work completely (same return codes as
        in the failure-free run, outputs verified). Then lzma_end and the generic easy-encoder / stream-decoder round trip."""
        steps = list(steps)
        while steps and steps[-1] == "end":
            steps.pop()
        handle_only = (not slots and steps and steps[0].split(":")[0] in INIT_STEPS
                       and not any(st.startswith(("ix_", "idec", "fidec", "ienc")) for st in steps))
        if handle_only:
            return steps + ["nofail"] + steps + ["end"] + self.tail()[1:] + ["ix_end:%d" % s for s in sorted(slots)]
        return steps + ["end"] + self.tail() + ["ix_end:%d" % s for s in sorted(slots)]

    def base_scenarios(self, quick):
        S = []

        def add(name, steps, slots=(), mt=False):
            S.append((name, self.assemble(steps, slots), mt))

        # --- encoders -------------------------------------------------------------------------
        add("easy0", [self.easy(0), "run:1000", "finish:500"])
        add("easy1-flushes", [self.easy(1, "crc64"), "run:900", "sync:100", "run:50", "full:200", "full:100", "finish:10"])
        add("senc-x86-delta-lzma2", ["senc:%s+%s+%s:crc64" % (X86, D4, L2a), "run:3000", "full:100", "finish:10"])
        add("senc-4filters", ["senc:%s+%s+%s+%s:sha256" % (D1, ARM64, X86o, L2a), "finish:2000"])
        add("senc-bt4-1M", ["senc:%s+%s:crc32" % (ARM, L2b), "run:5000", "finish:0"])
        add("senc-bt2-bt3", ["senc:%s:none" % L2d, "finish:700", "senc:%s:crc32" % L2e, "finish:700"])
        add("senc-empty", ["senc:%s:crc32" % L2a, "finish:0"])
        add("senc-update-between-blocks", ["senc:%s:crc32" % L2a, "run:500", "full:100", "upd:%s+%s" % (X86, L2c), "run:400",
                                            "full:0", "upd:%s+%s" % (D4, L2a), "finish:300"])
        add("senc-update-mid-block", ["senc:%s+%s:crc32" % (D4, L2a), "run:500", "sync:100", "upd:%s+%s" % (D1, L2a), "finish:300"])
        add("senc-update-before-data", ["senc:%s:crc32" % L2a, "upd:%s+%s" % (PPC, L2d), "finish:900"])
        add("alone-enc", ["aenc:%s" % L1a, "run:400", "finish:800", "aenc:%s" % L1b, "finish:500"])
        add("raw-enc-dec", ["renc:%s+%s" % (D1, L2a), "run:100", "finish:900", "rdec:raw/%s+%s/1200" % (D1, L2a), "dcode",
                            "renc:%s+%s" % (IA64, L1a), "finish:300", "rdec:raw/%s+%s/800" % (SPARC, L1c), "dcode"])
        add("block-enc-dec", ["benc:%s:crc32" % L2a, "finish:1000", "bdec:blk/%s/crc32/1000" % L2a, "dcode",
                              "benc:%s+%s:sha256" % (RISCV, L2c), "run:200", "finish:100",
                              "benc:%s+%s:crc32" % (D1, L2c), "sync:200", "finish:100",
                              "bdec:blk/%s+%s+%s/crc64/900" % (X86o, D4, L2a), "dcode"])
        add("microlzma", ["mlenc:%s" % L1a, "finish:500", "mldec:mlz/%s/500" % L1a, "dcode", "mldec:mlz/%s/700" % L1c, "dcode",
                          "mldec:mlz/%s/500" % L1a, "dcode", "mlenc:%s" % L1c, "finish:100"])
        # --- decoders -------------------------------------------------------------------------
        add("sdec-2blocks", ["sdec:0:" + xz(L2a, 2000, 2, 1), "dcode"])
        add("sdec-filters-concat", ["sdec:8:" + xz("%s+%s+%s" % (X86o, D4, L2a), 1200, 2, 2, "crc64"), "dcode",
                                    "sdec:0:" + xz("%s+%s" % (ARMT, L2c), 900, 1, 1, "sha256"), "dcode",
                                    "sdec:0:" + xz("%s+%s" % (X86z, L2a), 900, 1, 1, "none"), "dcode"])
        add("sdec-empty-stream", ["sdec:0:" + xz(L2a, 0, 0, 1), "dcode"])
        # F6: re-init of the same handle after a failed decode-time init, old dictionary size again
        add("alonedec-reinit-dictsizes", ["alonedec:0:lzma/%s/1000" % L1a, "dcode", "alonedec:0:lzma/%s/1000" % L1b, "dcode",
                                          "alonedec:0:lzma/%s/1000" % L1a, "dcode", "alonedec:0:lzma/%s/900" % L1b, "dcode"])
        add("lzipdec-reinit-dictsizes", ["lzipdec:0:lz/16/2000", "dcode", "lzipdec:0:lz/20/1500", "dcode", "lzipdec:0:lz/16/2000", "dcode"])
        add("mldec-reinit-dictsizes", ["mldec:mlz/%s/600" % L1a, "dcode", "mldec:mlz/%s/600" % L1b, "dcode", "mldec:mlz/%s/600" % L1a, "dcode"])
        add("autodec-all-formats", ["adec:0:lz/16/2000", "dcode", "adec:0:lzma/%s/1000" % L1a, "dcode",
                                    "adec:0:" + xz(L2a, 2000, 2, 1), "dcode", "adec:8:" + xz("%s+%s" % (D1, L2a), 500, 1, 2), "dcode",
                                    "adec:0:lzma/%s/1000" % L1b, "dcode", "adec:0:lzma/%s/1000" % L1a, "dcode"])
        add("index-decoder", ["idec:0:idx/700", "dcode", "ix_end:0", "idec:0:idx/0", "dcode", "idec:1:idx/3", "dcode"], slots=(0, 1))
        add("file-info", ["fidec:0:" + xz(L2a, 800, 2, 2), "dcode", "ix_end:0", "fidec:0:" + xz(L2a, 500, 1, 3), "dcode",
                          "fidec:1:" + xz(L2a, 0, 0, 1), "dcode"], slots=(0, 1))
        add("index-encoder", ["ix_init:0", "ix_app:0:5", "ienc:0", "iencode", "ienc:0", "iencode"], slots=(0,))
        # --- one handle, many coders, never ended in between -----------------------------------
        add("reinit-enc-dec-mix", [self.easy(0), "run:300", "sdec:0:" + xz(L2a, 2000, 2, 1), "dcode", "aenc:%s" % L1a, "finish:200",
                                   "adec:0:lzma/%s/1000" % L1a, "dcode", "senc:%s+%s:crc32" % (X86, L2a), "run:100",
                                   "idec:0:idx/40", "dcode", "benc:%s:crc32" % L2a, "finish:10", "lzipdec:0:lz/16/2000", "dcode",
                                   "fidec:1:" + xz(L2a, 300, 1, 2), "dcode", "mlenc:%s" % L1a, "finish:100", "rdec:raw/%s/300" % L2a, "dcode"],
            slots=(0, 1))
        add("reinit-same-coder-sizes", ["senc:%s:crc32" % L2a, "finish:100", "senc:%s:crc32" % L2b, "finish:100", "senc:%s:crc32" % L2a,
                                        "run:100", "senc:%s+%s:crc32" % (X86, L2a), "finish:100", "senc:%s+%s+%s:crc32" % (X86, D4, L2a),
                                        "finish:10", "senc:%s+%s:crc32" % (D4, L2a), "finish:10", "senc:%s:crc32" % L2d, "finish:10"])
        add("reinit-decoders", ["sdec:0:" + xz(L2a, 500, 1, 1), "dcode", "sdec:0:" + xz(L2b, 500, 1, 1), "dcode",
                                "sdec:0:" + xz("%s+%s" % (X86o, L2a), 500, 1, 1), "dcode", "sdec:0:" + xz("%s+%s" % (D4, L2a), 500, 2, 1), "dcode",
                                "bdec:blk/%s/crc32/400" % L2b, "dcode", "bdec:blk/%s+%s/crc32/400" % (D4, L2b), "dcode"])
        add("end-and-reuse", ["senc:%s:crc32" % L2a, "run:10", "end", "sdec:0:" + xz(L2a, 500, 1, 1), "end", "end", "alonedec:0:lzma/%s/100" % L1a, "dcode"])
        # --- REFUSED operations: they must cost nothing and leak nothing, with or without allocation failures ------
        # (mid-Block / mid-chunk lzma_filters_update, changed Filter IDs, update after the last Block, invalid options)
        add("senc-refused-updates", ["senc:%s:crc32" % L2a, "run:600", "upd:%s" % L2c, "upd:%s+%s" % (D4, L2a), "sync:100",
                                     "upd:%s+%s" % (X86, L2a), "upd:%s" % L2c, "run:300", "upd:%s" % L2a, "upd:%s+%s" % (D1, L2b), "full:50",
                                     "upd:%s" % L2bad, "upd:%s+%s" % (D4, L2bad), "run:200", "upd:%s" % L2bad, "finish:100", "upd:%s" % L2a,
                                     "upd:%s+%s" % (D4, L2a)])
        add("senc-bcj-refused-updates", ["senc:%s+%s+%s:crc64" % (X86, D4, L2a), "run:900", "upd:%s+%s+%s" % (X86, D4, L2c),
                                         "upd:%s+%s" % (D4, L2a), "upd:%s+%s+%s+%s" % (D1, X86, D4, L2a), "full:10", "run:700",
                                         "upd:%s+%s+%s" % (ARM64, D4, L2a), "finish:0", "upd:%s+%s+%s" % (X86, D4, L2a)])
        add("refused-inits-on-used-handle", ["senc:%s:crc32" % L2a, "run:100", "sdecbad", self.easy(0), "run:10", "senc:%s:crc32" % L2bad,
                                             "sdec:0:" + xz(L2a, 500, 1, 1), "adecbad", "lzipdec:0:lz/16/2000", "lzipdecbad", "aenc:%s" % L1a,
                                             "aenc:%s" % L1bad, "renc:%s+%s" % (D1, L2a), "renc:%s+%s" % (D1, L2bad), "benc:%s:crc32" % L2a,
                                             "benc:%s+%s:crc32" % (X86, L2bad), "mlenc:%s" % L1bad, "senc:%s+%s:crc32" % (D4, L2a), "finish:100",
                                             "senc:%s+%s:crc32" % (D4, L2bad), "adecbad", "sdecbad", "sdec:0:" + xz(L2a, 500, 1, 1), "dcode"])
        add("raw-block-refused-updates", ["renc:%s+%s" % (D1, L2a), "run:500", "upd:%s+%s" % (D1, L2c), "upd:%s" % L2a, "finish:100", "upd:%s+%s" % (D1, L2a),
                                          "benc:%s:crc32" % L2a, "run:400", "upd:%s" % L2c, "upd:%s+%s" % (D4, L2a), "sync:10", "upd:%s" % L2c,
                                          "upd:%s" % L2bad, "finish:10", "upd:%s" % L2a, "renc:%s" % L1a, "run:100", "upd:%s" % L1c, "finish:1"])
        add("memlimit-badaction", ["memlimit:1", "badaction", "sdec:0:" + xz(L2a, 2000, 2, 1), "memlimit:1", "badaction", "dcode", "memlimit:1",
                                   "alonedec:0:lzma/%s/1000" % L1a, "memlimit:1", "dcode", "adec:0:" + xz(L2a, 500, 1, 1), "badaction", "memlimit:1",
                                   "dcode", "senc:%s:crc32" % L2a, "memlimit:1", "run:100", "badaction", "finish:10", "badaction",
                                   "idec:0:idx/10", "memlimit:1", "dcode", "fidec:1:" + xz(L2a, 300, 1, 2), "memlimit:1", "dcode"], slots=(0, 1))
        # --- RECOVERABLE codes without any allocation failure: LZMA_MEMLIMIT_ERROR at Block init (the Block Header's filter
        # options are allocated at that point), the LZMA_OPTIONS_ERROR twin (chain not usable), notifications; followed by
        # lzma_end, by a re-init, or by lzma_memlimit_set + retry (0..3 retries at still-too-small limits). The allocator must
        # balance on every one of these paths and the output, when finished, must be right.
        X1, X2 = xz("%s+%s" % (D4, L2a), 1500, 2, 1), xz("%s+%s" % (X86o, L2a), 1200, 2, 2, "crc64")
        add("sdec-memlimit-then-end", ["sdecml:0:%d:%s" % (SMALL, X1), "dcode"])
        add("sdec-memlimit-retry", ["sdecml:0:%d:%s" % (SMALL, X1), "dcode", "memlimit:%d" % BIG, "dcont",
                                    "sdecml:8:%d:%s" % (SMALL, X2), "dcode", "memlimit:%d" % SMALL2, "dcont", "memlimit:1", "dcont", "dcont",
                                    "memlimit:%d" % BIG, "dcont",
                                    "sdecml:0:%d:%s" % (SMALL2, X1), "memlimit:%d" % SMALL, "dcode", "dcont", "sdecml:0:%d:%s" % (SMALL, X2), "dcode",
                                    "sdecml:0:%d:%s" % (BIG, X1), "memlimit:%d" % SMALL, "dcode", "memlimit:%d" % BIG, "dcont",
                                    "sdecml:0:1:%s" % xz(L2a, 800, 1, 1), "dcode", "memlimit:%d" % BIG, "dcont"])
        add("adec-memlimit-retry", ["adecml:0:%d:%s" % (SMALL, X1), "dcode", "memlimit:%d" % SMALL2, "dcont", "memlimit:%d" % BIG, "dcont",
                                    # lzma_memlimit_set between a RE-init of the auto decoder and its first lzma_code: must answer for the NEW
                                    # session (limit = init limit, usage = base), not for the previous file's sub-decoder (fixed in 1344d82)
                                    "adecml:0:%d:%s" % (SMALL, X2), "memlimit:1", "memlimit:%d" % SMALL2, "dcode", "memlimit:1", "memlimit:%d" % SMALL2, "dcont",
                                    "adecml:8:%d:%s" % (BIG, X2), "memlimit:%d" % SMALL, "dcode", "memlimit:%d" % BIG, "dcont",
                                    "adecml:8:%d:%s" % (BIG, X2), "dcode", "adecml:0:%d:%s" % (SMALL, X1), "memlimit:%d" % BIG, "dcode",
                                    "adecml:0:%d:%s" % (SMALL, X1), "dcode"])
        add("block-init-options-error", ["sdec:0:badxz/%s" % D4, "dcode", "sdec:0:badxz/%s+%s" % (L2a, D4), "dcode", "adec:0:badxz/%s+%s" % (X86o, D1), "dcode",
                                         "sdecml:0:%d:badxz/%s+%s+%s" % (SMALL, D1, L2a, L2a), "dcode", "sbufdec:0:badxz/%s+%s" % (D4, D1),
                                         "sdec:0:" + X1, "dcode"])
        add("notifications-then-end-or-continue", ["sdec:4:" + X1, "dstop", "sdec:4:" + X1, "dstop", "dcont", "sdec:1:" + xz("%s+%s" % (D1, L2a), 900, 1, 1, "none"),
                                                   "dstop", "dcont", "sdecml:4:%d:%s" % (SMALL, X1), "dstop", "dcont", "memlimit:%d" % BIG, "dcont",
                                                   "adec:4:" + X2, "dstop", "adecml:5:%d:%s" % (SMALL, xz("%s+%s" % (X86o, L2a), 700, 2, 1, "none")), "dstop", "dcont",
                                                   "memlimit:%d" % BIG, "dcont", "sdec:4:" + X1, "dstop"])
        # --- lzma_index_* ---------------------------------------------------------------------
        add("index-ops", ["ix_init:0", "ix_app:0:600", "ix_init:1", "ix_app:1:3", "ix_cat:0:1", "ix_dup:1:0", "ix_app:1:2", "ix_end:0",
                          "ix_init:0", "ix_cat:1:0", "ix_dup:2:1", "ix_end:1"], slots=(0, 1, 2))
        add("index-cat-shrink", ["ix_init:0", "ix_app:0:2", "ix_init:1", "ix_cat:0:1", "ix_init:1", "ix_app:1:513", "ix_cat:0:1", "ix_init:2",
                                 "ix_app:2:1", "ix_cat:2:0", "ix_dup:0:2", "ix_dup:1:0"], slots=(0, 1, 2))
        add("index-bufdec", ["ix_bufdec:0:idx/100", "ix_bufdec:1:idx/0", "ix_dup:2:0", "ix_cat:0:2", "ix_cat:1:0"], slots=(0, 1, 2))
        # --- filters / headers / strings ------------------------------------------------------
        add("filters-copy", ["fcopy:%s+%s+%s" % (X86o, D4, L2a), "fcopy:%s+%s" % (X86, L2a), "fcopy:%s+%s+%s+%s" % (D1, D4, ARM64, L1a),
                             "fcopy:%s" % L2b])
        add("block-header-decode", ["bhdec:%s+%s+%s" % (X86o, D4, L2a), "bhdec:%s+%s" % (X86z, L2c), "bhdec:%s+%s+%s+%s" % (D1, ARMT, D4, L2b),
                                    "bhdec:%s" % L2a])
        add("filter-flags-props", ["ffdec:%s" % D4, "ffdec:%s" % L2a, "ffdec:%s" % X86o, "ffdec:%s" % X86, "propdec:%s" % L2a, "propdec:%s" % L1a,
                                   "propdec:%s" % D1, "propdec:%s" % ARMT, "propdec:%s" % X86z])
        add("string-conversion", ["str2f:%s:0:p" % hexs("6"), "str2f:%s:0:c1" % hexs("lzma2:dict=1MiB"),
                                  "str2f:%s:0:c3" % hexs("x86 delta:dist=4 lzma2:preset=1"), "str2f:%s:0:c2" % hexs("arm64--lzma2"),
                                  "str2f:%s:0:c2p" % hexs("x86 lzma2:foo=1"), "str2f:%s:1:c1" % hexs("lzma1:dict=64KiB"),
                                  "str2f:%s:0:c1p" % hexs("delta:dist=300 lzma2"), "str2f:%s:0:c2v" % hexs("x86 delta:dist=2"),
                                  "str2f:%s:0:c4" % hexs("x86:start=16 arm delta lzma2:dict=64KiB,mf=hc3"),
                                  "f2str:%s+%s:16" % (D4, L2a), "f2str:%s+%s+%s:32" % (X86o, D1, L2b), "strlist:16", "strlist:0"])
        # --- single-call API with an allocator ------------------------------------------------
        add("buffer-api", ["sbufdec:0:" + xz(L2a, 2000, 2, 1), "sbufdec:8:" + xz("%s+%s" % (X86o, L2a), 600, 1, 2),
                           "sbufenc:%s:crc32:1000" % L2a, "sbufenc:%s+%s+%s:crc64:700" % (X86, D4, L2c), self.ebuf(0, 1000), self.ebuf(1, 100, "sha256"),
                           "rbufenc:%s:500" % L2a, "rbufdec:%s:500" % L2a, "rbufenc:%s+%s:500" % (D4, L1a), "rbufdec:%s+%s:500" % (PPC, L1a),
                           "bbufenc:%s:crc32:500" % L2a, "bbufdec:%s:crc32:500" % L2a, "bbufdec:%s+%s:crc64:800" % (X86o, L2c)])
        # --- threaded coders: direct oracle only -----------------------------------------------
        add("mt-encoder", ["sencmt:%s:crc32:2:8192" % L2a, "run:30000", "finish:100", "sencmt:%s:crc64:3:4096" % L2a, "run:9000", "full:100", "finish:5000",
                           "sencmt:%s+%s:crc64:3:4096" % (X86, L2a), "finish:5000"], mt=True)
        add("mt-decoder", ["sdecmt:0:2:" + xz(L2a, 3000, 3, 1), "dcode", "sdecmt:8:3:" + xzmt(L2a, 2000, 2, 2), "dcode",
                           "sdecmt:0:1:" + xzmt("%s+%s" % (D4, L2a), 2000, 2, 1), "dcode"], mt=True)
        # threaded decoding proper (sizes in the Block Headers): a decode that ends mid-Block with a worker assigned - because an
        # allocation failed (every k) or because the input simply stops (dpart) - then RE-INIT of the same handle without
        # lzma_end, a complete decode, and (tail) all of it once more
        A, B = xzmt(L2a, 3000, 3, 1), xzmt("%s+%s" % (D4, L2c), 2500, 4, 1, "crc64")
        add("mt-decoder-reinit-after-failure", ["sdecmt:0:2:" + A, "dcode", "sdecmt:0:2:" + B, "dcode", "sdecmt:0:3:" + A, "dcode"], mt=True)
        add("mt-decoder-abandon-midblock", ["sdecmt:0:2:" + A, "dpart:700", "sdecmt:0:2:" + A, "dcode", "sdecmt:0:3:" + B, "dpart:2500",
                                            "sdecmt:0:2:" + B, "dpart:60", "sdecmt:0:2:" + A, "dcode", "sdecmt:0:2:" + A, "dpart:1500"], mt=True)
        add("mt-encoder-reinit-after-failure", ["sencmt:%s:crc32:2:8192" % L2a, "run:20000", "sencmt:%s:crc32:2:8192" % L2a, "run:20000", "finish:100",
                                                "sencmt:%s:crc64:3:4096" % L2c, "run:9000", "sencmt:%s:crc64:3:4096" % L2c, "finish:9000"], mt=True)
        add("mt-refused-updates", ["sencmt:%s:crc32:2:8192" % L2a, "run:20000", "upd:%s" % L2c, "upd:%s+%s" % (D4, L2a), "full:100", "upd:%s" % L2c,
                                   "run:5000", "upd:%s" % L2bad, "upd:%s" % L2a, "finish:10", "upd:%s" % L2a, "sdecmt:0:2:" + xz(L2a, 3000, 3, 1), "memlimit:1",
                                   "badaction", "dcode"], mt=True)
        M1 = xzmt("%s+%s" % (D4, L2a), 3000, 3, 1)
        add("mt-decoder-memlimit", ["sdecmtml:0:2:%d:%s" % (SMALL, M1), "dcode", "memlimit:%d" % BIG, "dcont", "sdecmtml:0:2:%d:%s" % (SMALL, M1), "dcode",
                                    "sdecmtml:0:2:%d:%s" % (SMALL, X1), "dcode", "memlimit:%d" % SMALL2, "dcont", "memlimit:%d" % BIG, "dcont",
                                    "sdecmtml:4:2:%d:%s" % (SMALL, M1), "dstop", "dcont", "sdecmt:0:2:badxz/%s+%s" % (L2a, D4), "dcode"], mt=True)
        # LZMA_SEEK_NEEDED then lzma_end / continue (the file-info decoder's seeks are not modelled: direct oracle only)
        BIGF = xz(L2a, 9000, 2, 3)
        add("seek-needed-then-end-or-continue", ["fidec:0:" + BIGF, "dstop", "end", "fidec:0:" + BIGF, "dstop", "dcont", "ix_end:0",
                                                 "fidec:0:" + BIGF, "dstop", "fidec:1:" + xz(L2a, 500, 1, 2), "dcode", "ix_end:1",
                                                 "fidec:1:" + BIGF, "dcode"], slots=(0, 1), mt=True)
        add("mt-mixed", ["sencmt:%s:crc32:2:8192" % L2a, "run:20000", "sdecmt:0:2:" + xz(L2a, 3000, 3, 1), "dcode", "senc:%s:crc32" % L2a,
                         "finish:100", "sdecmt:0:2:" + xz(L2a, 3000, 3, 1), "sencmt:%s:crc32:2:8192" % L2a, "finish:20000"], mt=True)
        return S

    # random compositions (thorough tier): many orders of re-initialising one handle
    def random_scenarios(self, rng, count):
        encs = [L2a, L2b, L2c, L2d, L2e]
        pre = ["", X86 + "+", D4 + "+", X86o + "+" + D1 + "+", ARM64 + "+", D1 + "+" + PPC + "+" + D4 + "+", RISCV + "+"]
        l1 = [L1a, L1b, L1c]
        S = []
        for i in range(count):
            steps, slots = [], set()
            for _ in range(rng.randrange(3, 9)):
                r = rng.randrange(16)
                ch = rng.choice(pre) + rng.choice(encs)
                if r == 0:
                    steps += [self.easy(rng.choice((0, 1))), "run:%d" % rng.randrange(1, 2000)] + (["finish:%d" % rng.randrange(0, 500)] if rng.random() < .6 else [])
                elif r == 1:
                    steps += ["senc:%s:%s" % (ch, rng.choice(("none", "crc32", "crc64", "sha256")))]
                    anybcj = "bcj" in ch
                    for _ in range(rng.randrange(0, 5)):
                        # BCJ filters reject LZMA_SYNC_FLUSH (LZMA_OPTIONS_ERROR): not an allocation matter, keep it out.
                        # A failed lzma_filters_update keeps the OLD chain, so no chain of this run may contain a BCJ filter.
                        acts = ("run", "full", "finish") if anybcj else ("run", "sync", "full", "finish")
                        act = rng.choice(acts)
                        # (a BCJ filter holds back its last few bytes, so a 1-byte LZMA_RUN would not reach the LZMA2 encoder;
                        # keep the "inside an LZMA2 chunk" state unambiguous)
                        lens = (0, 300, 2500) if anybcj else (0, 1, 300, 2500)
                        if act == "run":
                            # two lzma_code(LZMA_RUN) calls in a row without input make no progress: the second one is
                            # LZMA_BUF_ERROR by the API's rule, not an allocation matter -> no empty LZMA_RUN steps
                            lens = lens[1:]
                        steps.append(act + ":%d" % rng.choice(lens))
                        # lzma_filters_update in ANY state: accepted between Blocks, mostly refused elsewhere
                        if rng.random() < .35:
                            cur = rng.choice(pre) + rng.choice(encs + [L2bad])
                            anybcj = anybcj or "bcj" in cur
                            steps.append("upd:" + cur)
                elif r == 2:
                    steps += ["sdec:%d:%s" % (rng.choice((0, 8)), xz(ch, rng.choice((0, 400, 1500)), rng.randrange(1, 4), 1))] + (["dcode"] if rng.random() < .8 else [])
                elif r == 3:
                    if rng.random() < .5:
                        steps += ["sdec:8:" + xz(ch, 600, rng.randrange(1, 3), rng.randrange(2, 4)), "dcode"]
                    else:
                        # memory limit too small at Block init, then end / re-init / lzma_memlimit_set + retry
                        dec = rng.choice(("sdecml", "adecml"))
                        steps += ["%s:%d:%d:%s" % (dec, rng.choice((0, 4, 8)), rng.choice((1, SMALL, SMALL2)), xz(ch, 600, rng.randrange(1, 3), 1))]
                        if rng.random() < .3:
                            steps += ["memlimit:%d" % rng.choice((1, SMALL, SMALL2, BIG))]      # before the first lzma_code, also after a re-init
                        steps += [rng.choice(("dcode", "dstop"))]
                        for _ in range(rng.randrange(0, 4)):
                            steps += ["memlimit:%d" % rng.choice((1, SMALL, SMALL2)), "dcont"]
                        if rng.random() < .7:
                            steps += ["memlimit:%d" % BIG, "dcont"]
                elif r == 4:
                    steps += ["alonedec:0:lzma/%s/%d" % (rng.choice(l1), rng.choice((10, 900))), "dcode"]
                elif r == 5:
                    steps += ["lzipdec:0:lz/%d/%d" % (rng.choice((12, 16, 20)), rng.choice((10, 1500))), "dcode"]
                elif r == 6:
                    rec = rng.choice(["lz/16/2000", "lzma/%s/1000" % rng.choice(l1), xz(ch, 700, 2, 1)])
                    steps += ["adec:0:" + rec, "dcode"]
                elif r == 7:
                    steps += ["aenc:%s" % rng.choice(l1), "finish:%d" % rng.randrange(0, 900)]
                elif r == 8:
                    steps += ["renc:%s" % ch, "finish:%d" % rng.randrange(1, 900)] if rng.random() < .5 else ["rdec:raw/%s/%d" % (ch, rng.randrange(1, 900)), "dcode"]
                elif r == 9:
                    # (lzma_block_buffer_encode stores tiny incompressible input as uncompressed LZMA2 chunks with a different
                    # Block Header chain; the recipe builder rejects that, so keep the block recipes compressible)
                    steps += ["benc:%s:crc32" % ch, "finish:%d" % rng.randrange(1, 900)] if rng.random() < .5 else ["bdec:blk/%s/crc32/%d" % (ch, rng.randrange(400, 1200)), "dcode"]
                elif r == 10:
                    s = rng.randrange(3)
                    steps += ["ix_end:%d" % s, "idec:%d:idx/%d" % (s, rng.choice((0, 1, 30, 600))), "dcode"]
                    slots.add(s)
                elif r == 11:
                    s = rng.randrange(3)
                    steps += ["ix_end:%d" % s, "fidec:%d:%s" % (s, xz(L2a, 300, rng.randrange(0, 3), rng.randrange(1, 4))), "dcode"]
                    slots.add(s)
                elif r == 12:
                    l = rng.choice(l1)
                    steps += ["mlenc:%s" % l, "finish:300"] if rng.random() < .5 else ["mldec:mlz/%s/400" % l, "dcode"]
                elif r == 13:
                    steps += [rng.choice(["end", "sdecbad", "adecbad", "lzipdecbad", "memlimit:1", "badaction", "aenc:" + L1bad,
                                          "senc:%s:crc32" % (rng.choice(pre) + L2bad)])]
                elif r == 14:
                    s, d = rng.sample(range(3), 2)
                    steps += ["ix_end:%d" % s, "ix_end:%d" % d, "ix_init:%d" % s, "ix_app:%d:%d" % (s, rng.choice((0, 1, 5, 520))), "ix_dup:%d:%d" % (d, s),
                              "ix_app:%d:%d" % (d, rng.choice((0, 3))), "ix_cat:%d:%d" % (s, d)]
                    slots.update((s, d))
                else:
                    steps += [rng.choice(["fcopy:" + ch, "bhdec:" + ch, "sbufenc:%s:crc32:300" % ch, "rbufdec:%s:300" % ch, "bbufdec:%s:crc32:300" % ch,
                                          "sbufdec:0:" + xz(ch, 300, 2, 1)])]
            S.append(("random-%d" % i, self.assemble(steps, slots), False))
        return S


def parse_out(o):
    m = re.match(r"n=(\d+) nf=(\d+) live=(\d+) bytes=(\d+) err=(\S+) rets=(\S*) T=(.*)$", o)
    if not m:
        return None
    return {"n": int(m.group(1)), "nf": int(m.group(2)), "live": int(m.group(3)), "bytes": int(m.group(4)), "err": m.group(5),
            "rets": [int(x) for x in m.group(6).split(",") if x], "T": m.group(7)}


def attempts_before_tail(steps, trace):
    """number of allocation attempts of the count run that happen before the `nofail` tail"""
    nmain = steps.index("nofail")
    n, cur = 0, None
    for t in trace.split(","):
        if t.startswith("["):
            cur = int(t[1:])
        elif t.startswith("]"):
            pass
        elif t and t[0] in "ax" and cur is not None and cur < nmain:
            n += 1
    return n


def direct_oracle(steps, base, res, mt):
    """Property verdict for one failure run, independent of the Lean model. Returns a list of problems."""
    probs = []
    if res["err"] != "-":
        probs.append("harness oracle: " + res["err"])
    if res["live"] != 0 or res["bytes"] != 0:
        probs.append("memory still allocated at the end: %d blocks, %d bytes" % (res["live"], res["bytes"]))
    if len(res["rets"]) != len(base["rets"]):
        probs.append("number of step results differs from the failure-free run")
        return probs
    ntail = len(steps) - 1 - steps.index("nofail")      # steps after nofail
    steps_wo_nofail = [st for st in steps if st != "nofail"]
    nsteps = len(res["rets"])
    for i, (r, b) in enumerate(zip(res["rets"], base["rets"])):
        in_tail = i >= nsteps - ntail
        if in_tail:
            if r != b:
                probs.append("handle not usable after the failures: tail step %d returned %d (failure-free: %d)" % (i, r, b))
        elif res["nf"] == 0:
            if r != b and not mt:
                probs.append("step %d returned %d without any failed allocation (failure-free: %d)" % (i, r, b))
        elif steps_wo_nofail[i].startswith("memlimit:") and r in (0, 6):
            # lzma_memlimit_set is accepted or refused depending on the memory usage the decoder has computed so far, which an
            # earlier failure legitimately changes
            pass
        elif r not in (b, 5, 98, 99):
            # after an earlier failure a later step may see a different but legal state (e.g. coding skipped);
            # anything else than the failure-free code, LZMA_MEM_ERROR, NULL or "skipped" is a wrong report
            probs.append("step %d returned %d (failure-free: %d; allowed: that, LZMA_MEM_ERROR, NULL)" % (i, r, b))
    return probs


def run_batch(exe, lines):
    """run op lines through the harness; a crash is attributed to its line by re-running one by one"""
    rc, out, err = vlib.run_lines([exe], lines, timeout=3000)
    if rc == 0 and len(out) == len(lines):
        return [(o, None) for o in out]
    res = []
    for ln in lines:
        rc1, o1, e1 = vlib.run_lines([exe], [ln], timeout=300)
        if rc1 != 0 or len(o1) != 1:
            why = "watchdog: the scenario did not finish within 90 s (hang)\n" if rc1 in (-14, 124, 142) else ""
            res.append((None, "%sexit code %d\n%s" % (why, rc1, e1)))
        else:
            res.append((o1[0], None))
    return res


def run(ctx):
    ctx.cov["rule"] = ("scenario = sequence of public API calls on ONE lzma_stream (inits of different coders without lzma_end in between, coding, "
                       "lzma_filters_update, lzma_end) and on caller-owned lzma_index / filter arrays, followed by a failure-free usability tail "
                       "(easy encoder + stream decoder round trip on the same handle); for every scenario: the failure-free run, every single "
                       "k-th allocation failing, every 'all allocations from k on fail', and (thorough) random subsets; non-trivial = at least one "
                       "allocation failed; distinct by op line")
    ctx.assumptions += [
        "Lean 4 kernel; the allocation scripts in Model/Alloc.lean mirror the C code (checked by replaying the real alloc/free trace of every run through them)",
        "the harness allocator (harness/c10_alloc.h) reports every allocation/free faithfully; AddressSanitizer for what the live table cannot see",
        "threaded coders: only the direct oracle (return codes, balance, no double free), no model replay; pthread primitive failures are outside the property's quantifier (see findings/F4)",
    ]
    quick = ctx.quick()
    # B first (the G probe needs the build's flags)
    okb, log, _ = vlib.c_build("asan", targets=["liblzma"])
    if not okb:
        ctx.obligation_broken("stage B: /repo does not build", log)
        return "proof"
    ok, log = gen_c10()
    if not ok:
        ctx.obligation_broken("stage G: Gen/C10.lean (sizeof / constants) cannot be regenerated from the sources", log)
    p_ok = ctx.lean_stage(["XzVerif.Props.C10"], exes=["xzm_c10"]) if ok else False
    okh, log, exe = vlib.harness_build("c10", HARNESS)
    if not okh:
        ctx.obligation_broken("stage B: C10 harness does not compile against /repo", log)
        return "proof"
    rc, out, err = vlib.run_lines([exe], ["presets"])
    if rc != 0 or not out:
        ctx.violation("harness-abort", {"kind": "harness aborted on `presets`", "op": "presets", "stderr": err}, True)
        return "proof"
    presets = {int(t.split(":")[0]): t.split(":")[1] for t in out[0].split()}
    g = Gen(presets)
    scen = g.base_scenarios(quick)
    if not quick:
        scen += g.random_scenarios(ctx.rng, 160)
    else:
        scen += g.random_scenarios(ctx.rng, 10)

    # --- failure-free runs: count the allocations -------------------------------------------------
    base_lines = ["F=none " + " ".join(st) for _, st, _ in scen]
    base_res = [r for part in vlib.par_map(lambda ls: run_batch(exe, ls), vlib.chunks(base_lines, vlib.NCPU)) for r in part]
    jobs = []        # (scenario index, op line)
    bases = []
    for si, ((name, steps, mt), ln, (o, crash)) in enumerate(zip(scen, base_lines, base_res)):
        if crash is not None:
            ctx.violation("crash-" + name, {"kind": "implementation aborted (sanitizer/assert/crash) without any allocation failure", "op": ln, "stderr": crash}, True)
            bases.append(None)
            continue
        res = parse_out(o)
        if res is None:
            raise RuntimeError("C10 harness rejected a generated scenario (%s): %s / %s" % (name, o, ln))
        bases.append(res)
        jobs.append((si, ln))
        nmain = attempts_before_tail(steps, res["T"])
        ctx.count("allocations:" + name, nmain)
        body = " ".join(steps)
        ks = list(range(nmain))
        for k in ks:
            jobs.append((si, "F=k:%d %s" % (k, body)))
            jobs.append((si, "F=from:%d %s" % (k, body)))
        nrand = (2 if quick else 12) if not mt else (1 if quick else 6)
        for _ in range(nrand):
            jobs.append((si, "F=rand:%d:%d %s" % (ctx.rng.randrange(1, 1 << 30), ctx.rng.choice((30, 100, 250, 500)), body)))
        if not quick and nmain > 2:
            for _ in range(6):
                pick = sorted(ctx.rng.sample(range(nmain), min(nmain, ctx.rng.randrange(2, 5))))
                jobs.append((si, "F=set:%s %s" % (",".join(map(str, pick)), body)))
    # --- run everything ----------------------------------------------------------------------------
    lines = [ln for _, ln in jobs]
    # interleave so that every worker gets a mix of cheap and expensive scenarios
    order = sorted(range(len(lines)), key=lambda i: (i % (vlib.NCPU * 4), i))
    parts = vlib.chunks([lines[i] for i in order], vlib.NCPU * 4)
    flat = [r for part in vlib.par_map(lambda ls: run_batch(exe, ls), parts) for r in part]
    results = [None] * len(lines)
    for pos, i in enumerate(order):
        results[i] = flat[pos]
    ctx.log("harness: %d runs over %d scenarios" % (len(lines), len(scen)))
    # --- model replay ------------------------------------------------------------------------------
    model_out = None
    if p_ok and ok:
        mexe = vlib.model_exe("xzm_c10")
        mlines, midx = [], []
        for i, (o, crash) in enumerate(results):
            if o is not None and not scen[jobs[i][0]][2]:
                mlines.append(lines[i] + " @ " + o)
                midx.append(i)
        mparts = vlib.chunks(mlines, vlib.NCPU)
        mres = vlib.par_map(lambda ls: vlib.run_lines([mexe], ls, timeout=3000), mparts)
        mflat = [o for (_, out, _) in mres for o in out]
        if len(mflat) != len(mlines):
            ctx.obligation_broken("model driver xzm_c10 failed to answer every trace", str([e for (_, _, e) in mres])[:2000])
        else:
            model_out = dict(zip(midx, mflat))
    # --- verdicts ----------------------------------------------------------------------------------
    nviol = mism = nontriv = replayed = 0
    for i, (o, crash) in enumerate(results):
        si, ln = jobs[i]
        name, steps, mt = scen[si]
        if crash is not None:
            nviol += 1
            if nviol <= 8:
                ctx.violation("crash-" + name, {"kind": "implementation aborted (sanitizer / assert / crash) under allocation failures", "scenario": name,
                                                 "op": ln, "stderr": crash[-3000:],
                                                 "how_to_replay": "echo '<op>' | .cache/harness-asan/c10"}, True,
                              key="C10:crash:" + name)
            continue
        res = parse_out(o)
        if res is None:
            raise RuntimeError("unparsable harness answer: " + o[:200])
        ctx.case(ln, nontrivial=res["nf"] > 0, sample={"scenario": name, "op": ln[:300], "answer": o[:300]} if i % 977 == 0 else None)
        ctx.count("mode:" + ln.split()[0].split(":")[0][2:])
        if res["nf"] > 0:
            nontriv += 1
            ctx.count("runs-with-failure:" + ("mt" if mt else "st"))
            for r in set(res["rets"]):
                ctx.count("ret:%d" % r)
        probs = direct_oracle(steps, bases[si], res, mt)
        if probs:
            nviol += 1
            if nviol <= 8:
                ctx.violation("oracle-" + name, {"kind": "allocation-failure property violated on the implementation (direct oracle)", "scenario": name,
                                                  "op": ln, "problems": probs, "answer": o[:4000],
                                                  "how_to_replay": "echo '<op>' | .cache/harness-asan/c10"}, True,
                              key="C10:oracle:" + name)
            continue
        if model_out is not None and i in model_out:
            replayed += 1
            mo = model_out[i]
            if not mo.startswith("ok"):
                mism += 1
                ctx.count("model-mismatch:" + name)
                if mism <= 5:
                    ctx.obligation_broken("correspondence C10: the model does not accept the implementation's allocation trace (%s)" % name,
                                          json.dumps({"op": ln, "model": mo, "answer": o[:3000]}))
    ctx.cov["correspondence"] = {"runs": len(lines), "scenarios": len(scen), "runs_with_failed_allocation": nontriv,
                                 "traces_replayed_through_model": replayed, "model_mismatches": mism,
                                 "direct_oracle_violations": nviol, "model_ran": model_out is not None}
    # S: the direct oracle above already judged every run on the implementation alone; if an obligation or the
    # correspondence broke and no run violated the property, finish() reports "no-failing-input-found".
    if ctx.broken and not ctx.violations:
        ctx.cov["search"] = {"runs_judged_by_direct_oracle": len(lines), "failing": 0}
    f4_probe(ctx)
    return "proof"


F4_OPS = ("dec-mutex", "dec-cond", "enc-mutex", "enc-cond")
F4_LIBS = ["-Wl,--wrap=pthread_mutex_init", "-Wl,--wrap=pthread_cond_init"]


def f4_run(exe, which):
    rc, out, err = vlib.run_lines([exe], [which], timeout=120)
    m = re.match(r"ret=(\d+) double_free=(\d+) unknown_free=(\d+) live=(\d+) T=(\S*)", out[0]) if out else None
    if rc != 0 or not m:
        return {"rc": rc, "crash": True, "stderr_tail": err[-2500:]}
    return {"ret": int(m.group(1)), "double_free": int(m.group(2)), "unknown_free": int(m.group(3)), "live": int(m.group(4)), "trace": m.group(5)}


def f4_bad(o):
    return bool(o.get("crash") or o.get("double_free") or o.get("unknown_free") or o.get("live"))


def f4_probe(ctx):
    """F4 (fixed in /repo as dde1e33): lzma_stream_{de,en}coder_mt() when pthread_mutex_init / pthread_cond_init fails.
    The trigger is OUTSIDE the allocator quantifier of C10 (a pthread primitive fails, no allocation does), but the effect
    (the coder struct freed twice through the allocator) is exactly what C10 forbids, so a recurrence is reported."""
    okh, log, exe = vlib.harness_build("c10_f4", ["c10_f4.c"], libs=F4_LIBS)
    if not okh:
        ctx.obligation_broken("stage B: harness/c10_f4.c (pthread-failure probe) does not build against /repo", log)
        return
    outs = {w: f4_run(exe, w) for w in F4_OPS}
    ctx.cov["f4_probe"] = {"note": "pthread_mutex_init/pthread_cond_init forced to fail (link-time --wrap); outside the allocator quantifier of C10",
                           "results": outs}
    for w, o in outs.items():
        ctx.case("f4:" + w, nontrivial=True)
        ctx.count("f4-probe")
        if f4_bad(o):
            ctx.violation("f4-pthread-init-failure-" + w,
                          {"kind": "a block is freed twice / leaked / the call crashes when a pthread primitive fails during lzma_stream_%scoder_mt() "
                                   "(outside the allocator quantifier of C10; same forbidden effect)" % ("de" if w.startswith("dec") else "en"),
                           "f4_op": w, "answer": o,
                           "how_to_replay": "./check C10 --replay <this file>   (harness/c10_f4.c, linked with --wrap=pthread_mutex_init,--wrap=pthread_cond_init)"}, True)


def replay(ctx, path):
    import replaylib
    r = replaylib.load(ctx, path)
    if "op" not in r and "f4_op" not in r:
        return replaylib.obligations("C10", run, r, path)
    vlib.c_build("asan", targets=["liblzma"])
    okh, log, exe = vlib.harness_build("c10", HARNESS)
    if not okh:
        print("harness does not build:", log[-2000:])
        return 2
    if "f4_op" in r:
        okh, log, fexe = vlib.harness_build("c10_f4", ["c10_f4.c"], libs=F4_LIBS)
        if not okh:
            print("probe does not build:", log[-2000:])
            return 2
        o = f4_run(fexe, r["f4_op"])
        print("f4 probe", r["f4_op"], "->", o)
        if f4_bad(o):
            print("VIOLATION property=C10 replay=%s" % path)
            return 1
        print("replay passes")
        return 0
    if "op" not in r:
        print("this replay names proof obligations / correspondences that no longer check (no failing input):")
        print(json.dumps(r.get("no_longer_checks", r), indent=1)[:4000])
        print("VIOLATION property=C10 replay=%s no-failing-input-found" % path)
        return 1
    body = r["op"].split(None, 1)[1]
    steps = body.split()
    res = run_batch(exe, ["F=none " + body, r["op"]])
    (bo, bcrash), (o, crash) = res
    print("op:", r["op"][:400])
    if crash is not None:
        print("implementation aborted:\n" + crash[-3000:])
        print("VIOLATION property=C10 replay=%s" % path)
        return 1
    print("answer:", o[:1500])
    base, cur = parse_out(bo) if bo else None, parse_out(o)
    if base is None or cur is None:
        print("harness rejected the op line")
        return 2
    probs = direct_oracle(steps, base, cur, any(s.startswith(("sencmt", "sdecmt")) for s in steps)) if "nofail" in steps else \
        ([] if cur["err"] == "-" and cur["live"] == 0 else ["harness oracle: " + cur["err"]])
    if probs:
        print("problems:", probs)
        print("VIOLATION property=C10 replay=%s" % path)
        return 1
    print("replay passes")
    return 0
