"""C02 — encoder output is a valid instance of the published file formats; stored metadata is truthful;
single-call encoders never run out of space at the bound."""
import json, os, struct
import vlib
import c02lib as L
import kernels_stage

META = {
    "category": "proof",
    "text": "Lean theorems over an executable model of every container-level codec of liblzma (VLI, Stream Header/Footer, "
            "Block Header, Filter Flags and per-filter properties, Index, size arithmetic, bound functions, LZMA2 dictionary byte, "
            "lc/lp/pb byte): decode(encode x) = x, accepted encodings are minimal, header sizes are truthful, declared dictionary "
            "covers the requested one, the bound functions cover the worst-case uncompressed-chunk Block and return 0 exactly on "
            "their overflow guards. Tie to the code: constants/tables and finite-domain functions regenerated from /repo by running "
            "the real code (Gen/C02.lean, bridged by decide); every codec is run C-vs-model in both directions on valid, boundary and "
            "malformed inputs; the bytes produced by the REAL encoders (easy/stream/block buffer encoders, multi-call stream encoder "
            "with flushes, threaded encoder, .lzma encoder) are validated field by field by the Lean structural validator and, "
            "independently, by a Python parser written from the format document, plus a round trip through the C decoder and the "
            "system's liblzma; single-call encoders are run with out_size = bound(n) on incompressible data. "
            "Whole containers: executable models of the container ENCODERS (multi-call Stream encoder, single-call Block/Stream encoders "
            "with the uncompressed fall-back, the threaded encoder's late-written Block Headers, .lzma header), parametric in the payload "
            "encoder, are proved to write only files that the container DECODER model accepts and decodes to the input, hence instances of "
            "the declarative grammar ValidXz (every size field, Index Record, Backward Size, flags, CRC32, Check, padding truthful), given "
            "the payload contract decode(encode x ++ rest) = x; and lzma_stream_buffer_encode with out_size = lzma_stream_buffer_bound(n) "
            "is proved never to return LZMA_BUF_ERROR for any payload encoder. Tie of those encoder models: fed with the C encoder's own "
            "per-Block Compressed Data they must reproduce the C output byte for byte (all seven encoder APIs, incl. the fall-back decision).",
    "note": "Trusted: Lean kernel (+ one bv_decide lemma about the dictionary-size bit smearing, namespace XzVerif.BitWords); the probe "
            "that prints Gen/C02.lean; the harness; the C compiler. The LZMA payload itself is decoded by the C decoder (and Python's "
            "liblzma), not yet by a Lean LZMA decoder; 'no match reaches farther back than the declared dictionary' is therefore only "
            "observed through those decoders. SHA-256 Check values are verified by Python hashlib, not by the Lean validator. "
            "The container-encoder theorems take the payload contract as a hypothesis; it is discharged for the concrete LZMA2/LZMA1 + "
            "delta/BCJ models in Props/C01EndToEnd.lean (payload_contract_std_on, uncomp_contract_std, xz_roundtrip_std*, checked by "
            "./check C01), where only the parser remains abstract under its Describes contract (the chunker accepts its trace), which "
            "the H2 hook checks per run; the model decides the single-call fall-back by 'complete payload longer than the limit', which equals the C "
            "behaviour if the raw encoder's output does not depend on the output space offered (C06); output slicing is not modelled here.",
    "technique": "Lean 4 proof over an executable model + regenerated tables/kernels + differential correspondence + structural validation of real encoder output",
}

HARNESS = ["c02_func.c", "c02_rel.c", "c02_main.c"]
U64 = (1 << 64) - 1
VLI_MAX = L.VLI_MAX
BCJ_IDS = sorted(L.BCJ)
KNOWN_IDS = [L.LZMA1, L.LZMA1EXT, L.LZMA2, L.DELTA] + BCJ_IDS
COMPRESSED_SIZE_MAX = (VLI_MAX - 1024 - 64) & ~3

ENCODER_OPS = ("vlienc", "shenc", "sfenc", "propenc", "ffenc", "bhenc", "bhenc2", "idxenc", "idxgen", "bound", "buenc")


NO_RET_OPS = ("vlisize", "chksize", "unpadded", "idxarith", "bound")


def hexs(b):
    return bytes(b).hex() if len(b) else "-"


def unhex(s):
    return b"" if s == "-" else bytes.fromhex(s)


# ------------------------------------------------------------------------------------------------
# generators: functional ops
# ------------------------------------------------------------------------------------------------

def vli_boundary():
    vs = {0, 1, 2, 126, 127, 128, 129, 255, 256, 300, VLI_MAX - 1, VLI_MAX, VLI_MAX + 1, VLI_MAX + 2, 1 << 63, U64 - 1, U64}
    for k in range(1, 10):
        for d in (-2, -1, 0, 1, 2):
            v = (1 << (7 * k)) + d
            if 0 <= v <= U64:
                vs.add(v)
    for k in (8, 16, 24, 31, 32, 33, 34, 48, 62, 63):
        for d in (-1, 0, 1):
            vs.add((1 << k) + d)
    return sorted(v for v in vs if 0 <= v <= U64)


def rand_vli(rng, allow_big=True):
    r = rng.random()
    if r < 0.1 and allow_big:
        return rng.choice((VLI_MAX, VLI_MAX + 1, U64 - 1, U64, 1 << 63))
    bits = rng.randrange(0, 64)
    return rng.getrandbits(bits) if bits else 0


def ftok_raw(tok):
    """(id, raw props) the format requires for a VALID functional filter token, else None."""
    t = tok.split(":")
    if t[0] == "lzma2":
        return L.LZMA2, bytes([L.dict_code_for(int(t[1]))])
    if t[0] == "bcj":
        off = int(t[2])
        return int(t[1]), (L.le32(off) if off else b"")
    if t[0] == "bcjn":
        return int(t[1]), b""
    if t[0] == "delta":
        d = int(t[1])
        return (L.DELTA, bytes([d - 1])) if 1 <= d <= 256 else None
    if t[0] == "lzma1":
        lc, lp, pb = int(t[2]), int(t[3]), int(t[4])
        if lc <= 4 and lp <= 4 and lc + lp <= 4 and pb <= 4:
            return int(t[1]), bytes([(pb * 5 + lp) * 9 + lc]) + L.le32(int(t[5]))
    return None


def rand_dict(rng):
    r = rng.random()
    if r < 0.3:
        n = rng.randrange(10, 33)
        base = rng.choice((1 << n, 3 << (n - 1)))
        return max(0, min(0xFFFFFFFF, base + rng.choice((-2, -1, 0, 1, 2))))
    if r < 0.4:
        return rng.choice((0, 1, 4095, 4096, 4097, 0xFFFFFFFF, 0xFFFFFFFE, 0xC0000000, 0xC0000001, 0x80000000, 0x80000001))
    return rng.getrandbits(rng.randrange(1, 33))


def rand_ftok(rng, kind=None):
    k = kind or rng.choice(("lzma2", "lzma2", "bcj", "bcjn", "delta", "lzma1", "other"))
    if k == "lzma2":
        return "lzma2:%d" % rand_dict(rng)
    if k == "bcj":
        return "bcj:%d:%d" % (rng.choice(BCJ_IDS), rng.choice((0, 0, 1, 2, 4, 8, 16, 4096, rng.getrandbits(32))))
    if k == "bcjn":
        return "bcjn:%d" % rng.choice(BCJ_IDS)
    if k == "delta":
        return "delta:%d" % rng.choice((0, 1, 2, 3, 4, 255, 256, 257, rng.randrange(1, 257), rng.getrandbits(32)))
    if k == "lzma1":
        lc, lp, pb = (rng.randrange(0, 6) for _ in range(3))
        if rng.random() < 0.5:
            lc, lp, pb = rng.randrange(0, 5), 0, rng.randrange(0, 5)
            lp = rng.randrange(0, 5 - lc)
        return "lzma1:%d:%d:%d:%d:%d" % (rng.choice((L.LZMA1, L.LZMA1EXT)), lc, lp, pb, rand_dict(rng))
    while True:
        i = rng.choice((0, 1, 2, 12, 13, 0x20, 0x22, 0x7F, 0x80, (1 << 62) - 1, 1 << 62, (1 << 62) + 3, VLI_MAX, VLI_MAX + 1, U64 - 1, rng.getrandbits(rng.randrange(1, 64))))
        if i not in KNOWN_IDS and i != U64:
            return "other:%d" % i


def rand_chain_toks(rng):
    """Filter token lists for Block Headers: mostly well-formed chains, sometimes arbitrary."""
    r = rng.random()
    if r < 0.7:
        n = rng.randrange(0, 4)
        toks = [rand_ftok(rng, rng.choice(("bcj", "bcjn", "delta"))) for _ in range(n)]
        return toks + [rand_ftok(rng, "lzma2")]
    n = rng.choice((1, 1, 2, 3, 4, 5, 6))
    return [rand_ftok(rng) for _ in range(n)]


def idxgen_records(n, seed):
    """The pseudo-random Records of the `idxgen` op (same LCG in harness/c02_func.c and Driver/C02.lean)."""
    x, recs = seed, []
    for _ in range(n):
        x = (x * 6364136223846793005 + 1442695040888963407) & U64
        recs.append((5 + (x >> 33) % 100000, (x >> 11) % (1 << 30)))
    return recs


def vstr(v):
    return "u" if v is None else str(v)


def rand_size_field(rng):
    r = rng.random()
    if r < 0.3:
        return None
    if r < 0.4:
        return rng.choice((0, 1, VLI_MAX, VLI_MAX + 1, U64 - 1, L.UNPADDED_MAX, L.UNPADDED_MAX - 12 - 4, L.UNPADDED_MAX - 12 - 3, 1 << 62))
    return rand_vli(rng, False)


def mutate(rng, b, fix=None):
    """A few byte-level mutations of a valid field; `fix(bytes)` recomputes the trailing CRC when given."""
    b = bytearray(b)
    r = rng.random()
    if not b:
        return bytes([rng.getrandbits(8)])
    if r < 0.35:
        i = rng.randrange(len(b))
        b[i] ^= 1 << rng.randrange(8)
    elif r < 0.5:
        i = rng.randrange(len(b))
        b[i] = rng.choice((0, 0x80, 0xFF, 0x7F))
    elif r < 0.65:
        del b[rng.randrange(len(b))]
        b.append(0)
    elif r < 0.8:
        b.insert(rng.randrange(len(b) + 1), rng.choice((0, 0x80, 0x81)))
    else:
        i = rng.randrange(len(b))
        b[i:] = bytes(rng.getrandbits(8) for _ in range(len(b) - i))
    b = bytes(b)
    if fix is not None and rng.random() < 0.7:
        b = fix(b)
    return b


def fix_tail_crc(b):
    return b[:-4] + L.le32(L.crc32(b[:-4])) if len(b) >= 4 else b


def gen_func(ctx):
    rng, quick = ctx.rng, ctx.quick()
    out = []

    def add(cat, line):
        out.append((cat, line))

    K = 3 if quick else 8
    bvals = vli_boundary()
    # --- VLI
    for v in bvals:
        add("vlisize", "vlisize %d" % v)
        for avail in (0, 1, 2, 8, 9, 10, len(L.vli_enc(min(v, VLI_MAX))), max(0, len(L.vli_enc(min(v, VLI_MAX))) - 1)):
            add("vlienc", "vlienc %d %d" % (v, avail))
    for _ in range(300 * K):
        v = rand_vli(rng)
        add("vlisize", "vlisize %d" % v)
        add("vlienc", "vlienc %d %d" % (v, rng.randrange(0, 12)))
        add("vliencm", "vliencm %d %d %d" % (v, rng.choice((0, 0, 1, 2, 3, 5, 8, 9, 10, 11)), rng.randrange(0, 12)))
    for v in bvals:
        for pos in (0, 1, 8, 9):
            add("vliencm", "vliencm %d %d %d" % (v, pos, rng.randrange(0, 11)))
    for v in bvals + [rand_vli(rng) for _ in range(200 * K)]:
        if v > VLI_MAX:
            continue
        e = L.vli_enc(v)
        add("vlidec", "vlidec " + hexs(e + bytes(rng.getrandbits(8) for _ in range(rng.randrange(0, 3)))))
        add("vlidec", "vlidec " + hexs(e[:-1]))                                     # truncated
        add("vlidec", "vlidec " + hexs(e[:-1] + bytes([e[-1] | 0x80, 0])))           # non-minimal
        add("vlidec", "vlidec " + hexs(e[:-1] + bytes([e[-1] | 0x80]) + b"\x80" * rng.randrange(0, 9) + b"\x01"))
        add("vlidec", "vlidec " + hexs(mutate(rng, e)))
        # multi-call: a consistent split state and an inconsistent one
        pos = rng.randrange(0, len(e) + 1)
        part = v & ((1 << (7 * pos)) - 1)
        add("vlidecm", "vlidecm %d %d %s" % (part, pos, hexs(e[pos:pos + rng.randrange(0, 10)])))
        add("vlidecm", "vlidecm %d %d %s" % (rand_vli(rng), rng.choice((0, 1, 2, 8, 9, 10)), hexs(mutate(rng, e))))
    for _ in range(150 * K):
        add("vlidec", "vlidec " + hexs(bytes(rng.choice((0, 0x80, 0xFF, 0x7F, rng.getrandbits(8))) for _ in range(rng.randrange(0, 12)))))
    add("vlidec", "vlidec " + hexs(b"\xff" * 8 + b"\x7f"))
    add("vlidec", "vlidec " + hexs(b"\xff" * 9 + b"\x01"))
    add("vlidec", "vlidec " + hexs(b"\xff" * 8 + b"\x80"))
    # --- check sizes
    for c in list(range(0, 20)) + [255, 256, 1 << 31, (1 << 32) - 1]:
        add("chksize", "chksize %d" % c)
    # --- stream header / footer
    for ver in (0, 1, 7):
        for c in range(0, 18):
            add("shenc", "shenc %d %d" % (ver, c))
            add("sfenc", "sfenc %d %d %s" % (ver, c, rng.choice(("4", "8", "24", str(L.BACKWARD_MAX), "u", "0", "6"))))
    for bs in [0, 1, 3, 4, 5, 8, 12, L.BACKWARD_MAX - 4, L.BACKWARD_MAX, L.BACKWARD_MAX + 1, L.BACKWARD_MAX + 4, 1 << 35, VLI_MAX, U64 - 1, None] + \
            [4 * rng.randrange(1, 1 << 32) for _ in range(60 * K)] + [rng.getrandbits(36) for _ in range(30 * K)]:
        add("sfenc", "sfenc 0 %d %s" % (rng.choice((0, 1, 4, 10)), vstr(bs)))
    for c in range(16):
        h, f = L.stream_header(c), L.stream_footer(c, 4 * rng.randrange(1, 1 << 32))
        add("shdec", "shdec " + hexs(h))
        add("sfdec", "sfdec " + hexs(f))
        for _ in range(6 * K):
            add("shdec", "shdec " + hexs((mutate(rng, h) + bytes(12))[:12]))
            add("sfdec", "sfdec " + hexs((mutate(rng, f) + bytes(12))[:12]))
    for fl0 in (0, 1, 0x80):
        for fl1 in (0, 1, 4, 10, 15, 16, 0x14, 0x80, 0xFF):          # reserved bits with a correct CRC
            fl = bytes([fl0, fl1])
            add("shdec", "shdec " + hexs(L.HEADER_MAGIC + fl + L.le32(L.crc32(fl))))
            body = L.le32(rng.getrandbits(32)) + fl
            add("sfdec", "sfdec " + hexs(L.le32(L.crc32(body)) + body + L.FOOTER_MAGIC))
    for _ in range(20 * K):
        body = L.le32(rng.choice((0, 1, 0xFFFFFFFF, 0xFFFFFFFE, rng.getrandbits(32)))) + bytes([0, rng.randrange(16)])
        add("sfdec", "sfdec " + hexs(L.le32(L.crc32(body)) + body + L.FOOTER_MAGIC))
    for _ in range(80 * K):
        a = (rng.choice((0, 0, 0, 1)), rng.choice((0, 1, 4, 10, 15, 16, 99)), rng.choice((None, 4, 8, 6, 0, L.BACKWARD_MAX, L.BACKWARD_MAX + 4)))
        b = (rng.choice((0, 0, 0, 1)), rng.choice((a[1], a[1], 1, 4, 16)), rng.choice((None, a[2], a[2], 4, 12)))
        add("sfcmp", "sfcmp %d %d %s %d %d %s" % (a[0], a[1], vstr(a[2]), b[0], b[1], vstr(b[2])))
    # --- properties / filter flags
    for c in range(42):
        d = L.dict_of_code(min(c, 40))
        for dd in (d - 1, d, d + 1):
            if 0 <= dd <= 0xFFFFFFFF:
                add("propenc", "propenc lzma2:%d" % dd)
    for _ in range(250 * K):
        t = rand_ftok(rng)
        add("propsize", "propsize " + t)
        add("propenc", "propenc " + t)
        add("ffsize", "ffsize " + t)
        add("ffenc", "ffenc %s %d" % (t, rng.choice((0, 1, 2, 3, 5, 6, 7, 8, 16, 20))))
    for lc in range(6):
        for lp in range(6):
            for pb in range(6):
                add("propenc", "propenc lzma1:%d:%d:%d:%d:%d" % (L.LZMA1, lc, lp, pb, rng.getrandbits(32)))
    for byte in range(256):
        add("propdec", "propdec %d %02x" % (L.LZMA2, byte))
        add("propdec", "propdec %d %02x" % (L.DELTA, byte))
        add("propdec", "propdec %d %02x%s" % (rng.choice((L.LZMA1, L.LZMA1EXT)), byte, bytes(rng.getrandbits(8) for _ in range(4)).hex()))
    for fid in KNOWN_IDS + [0, 1, 2, 12, 0x20, 0x22, 1 << 62, VLI_MAX, U64 - 1]:
        for n in range(0, 7):
            add("propdec", "propdec %d %s" % (fid, hexs(bytes(rng.choice((0, 1, 4, rng.getrandbits(8))) for _ in range(n)))))
    for _ in range(250 * K):
        t = rand_ftok(rng, rng.choice(("lzma2", "bcj", "bcjn", "delta")))
        raw = ftok_raw(t)
        if raw is None:
            continue
        ff = L.filter_flags(*raw)
        tail = bytes(rng.getrandbits(8) for _ in range(rng.randrange(0, 4)))
        add("ffdec", "ffdec " + hexs(ff + tail))
        add("ffdec", "ffdec " + hexs(ff[:rng.randrange(0, len(ff))]))
        add("ffdec", "ffdec " + hexs(mutate(rng, ff) + tail))
    for fid in [0, 1, 2, 3, 4, 11, 12, 0x21, 0x22, (1 << 62) - 1, 1 << 62, VLI_MAX]:
        for ps in (0, 1, 2, 4, 5, 6, 200, VLI_MAX):
            add("ffdec", "ffdec " + hexs(L.vli_enc(fid) + L.vli_enc(ps) + bytes(rng.getrandbits(8) for _ in range(min(ps, 6)))))
    ids_pool = KNOWN_IDS + [0, 1, 12, 0x22, 1 << 62]
    for _ in range(300 * K):
        n = rng.choice((0, 1, 1, 2, 2, 3, 3, 4, 4, 5, 6, 9))
        if rng.random() < 0.5:
            ids = [rng.choice(BCJ_IDS + [L.DELTA]) for _ in range(max(0, n - 1))] + [rng.choice((L.LZMA2, L.LZMA2, L.LZMA1, L.DELTA))]
        else:
            ids = [rng.choice(ids_pool) for _ in range(n)]
        add("chain", "chain " + " ".join(str(i) for i in ids))
    # --- block header
    for _ in range(400 * K):
        toks = rand_chain_toks(rng)
        cs, us = rand_size_field(rng), rand_size_field(rng)
        ver = rng.choice((0, 0, 0, 1, 1, 2, 3))
        add("bhsize", "bhsize %d %s %s %s" % (ver, vstr(cs), vstr(us), " ".join(toks)))
        chk = rng.choice((0, 1, 4, 10, 15, 16, 3))
        add("bhenc2", "bhenc2 %d %s %s %s" % (chk, vstr(cs), vstr(us), " ".join(toks)))
        # explicit header sizes around the needed one
        need = 6 + (L.vli_size(cs) if cs is not None else 0) + (L.vli_size(us) if us is not None else 0)
        for t in toks:
            raw = ftok_raw(t)
            need += len(L.filter_flags(*raw)) if raw and raw[0] < L.RESERVED_START else 3
        need = (need + 3) // 4 * 4
        hs = rng.choice((need, need, need, need + 4, need + 8, need - 4, need - 8, 8, 12, 1020, 1024, 1028, need + 1, need + 2, 4, 0, 1 << 20, (1 << 32) - 4))
        add("bhenc", "bhenc %d %d %d %s %s %s" % (ver, max(0, hs), chk, vstr(cs), vstr(us), " ".join(toks)))
    for _ in range(500 * K):
        toks = rand_chain_toks(rng)[:4]
        raws = [ftok_raw(t) for t in toks]
        if any(r is None or r[0] >= L.RESERVED_START for r in raws):
            continue
        cs = rng.choice((None, None, rand_vli(rng, False), rng.randrange(1, 1 << 30), 0, L.UNPADDED_MAX, L.UNPADDED_MAX - 24, VLI_MAX))
        us = rng.choice((None, None, rand_vli(rng, False), rng.randrange(0, 1 << 40), VLI_MAX))
        chk = rng.choice((0, 1, 4, 10, 15, 16))
        extra = rng.choice((0, 0, 0, 1, 2, 5))
        h = L.block_header(cs, us, raws, extra_pad=extra)
        if len(h) > 1024:
            continue
        pad = bytes(rng.randrange(0, 8))
        add("bhdec", "bhdec %d %d %s" % (len(h), chk, hexs(h + pad)))
        r = rng.random()
        if r < 0.25:
            m = L.block_header(cs, us, raws, extra_pad=max(extra, 1), pad_byte=rng.choice((1, 0x80, 0xFF)))      # non-zero padding
        elif r < 0.4:
            m = L.block_header(cs, us, raws, flags_or=rng.choice((0x04, 0x08, 0x10, 0x20, 0x3C)))              # reserved flag bits
        elif r < 0.5:
            m = L.block_header(cs, us, raws, nfilters_field=rng.randrange(4))                                 # wrong filter count
        elif r < 0.6:
            m = L.block_header(cs, us, raws, fix_crc=False)
        else:
            m = mutate(rng, h, fix_tail_crc)
        m = (m + bytes(8))[:max(len(m), 8)]
        hs = rng.choice((len(h), len(h), (m[0] + 1) * 4, (m[0] + 1) * 4, len(h) + 4, 8))
        need_len = max(hs, (m[0] + 1) * 4, len(m))
        add("bhdec", "bhdec %d %d %s" % (hs, chk, hexs((m + bytes(1100))[:need_len])))
    for _ in range(100 * K):       # noise with a correct CRC
        n = 4 * rng.randrange(2, 12)
        body = bytearray(rng.choice((0, 0, 0x21, 1, 3, 4, 0x80, rng.getrandbits(8))) for _ in range(n - 4))
        body[0] = n // 4 - 1
        body[1] = rng.choice((0, 0, 1, 2, 3, 0x40, 0x80, 0xC0, 0xC3, rng.getrandbits(8)))
        add("bhdec", "bhdec %d %d %s" % (n, rng.choice((0, 1, 4, 10)), hexs(bytes(body) + L.le32(L.crc32(bytes(body))))))
    # --- block_util
    for _ in range(300 * K):
        ver = rng.choice((0, 0, 1, 1, 2))
        hs = rng.choice((8, 12, 16, 1020, 1024, 1028, 4, 0, 10, 13, 4 * rng.randrange(1, 260), rng.getrandbits(12)))
        chk = rng.choice((0, 1, 4, 10, 15, 16, rng.randrange(0, 18)))
        cs = rng.choice((None, 0, 1, rand_vli(rng), L.UNPADDED_MAX - hs - 64, L.UNPADDED_MAX - hs - 65, L.UNPADDED_MAX - hs - 63,
                         L.UNPADDED_MAX - hs, VLI_MAX - hs, VLI_MAX))
        if cs is not None and cs < 0:
            cs = 0
        add("unpadded", "unpadded %d %d %d %s" % (ver, hs, chk, vstr(cs)))
        up = rng.choice((0, hs, hs + 4, hs + 64, hs + 65, hs + 5, rand_vli(rng), (cs or 0) + hs + 8, (cs or 0) + hs + L.CHECK_SIZES[chk % 16]))
        add("compsize", "compsize %d %d %d %s %d" % (ver, hs, chk, vstr(cs), min(up, U64 - 1)))
    # --- index
    def rand_records(n):
        recs = []
        for _ in range(n):
            r = rng.random()
            u = rng.choice((5, 6, 7, 8, 127, 128, 16383, 16384)) if r < 0.2 else 5 + rng.getrandbits(rng.randrange(1, 40))
            c = rng.choice((0, 1, 127, 128)) if r < 0.2 else rng.getrandbits(rng.randrange(1, 44))
            recs.append((u, c))
        return recs
    for _ in range(200 * K):
        recs = rand_records(rng.choice((0, 1, 1, 2, 3, 4, 5, 7, 10, 30, 60)))
        size = len(L.index_field(recs))
        avail = rng.choice((size, size, size, size - 1, size + 1, 0, 1, size + 100, max(0, size - 4)))
        add("idxenc", "idxenc %d %s" % (max(0, avail), " ".join("%d:%d" % r for r in recs)))
    for recs in ([(4, 0)], [(5, VLI_MAX)], [(5, VLI_MAX + 1)], [(L.UNPADDED_MAX, 0)], [(L.UNPADDED_MAX + 1, 0)], [(L.UNPADDED_MAX + 4, 0)],
                 [(L.UNPADDED_MAX - 100, 5), (200, 5)], [(1 << 62, 1), (1 << 62, 1)], [(5, VLI_MAX), (5, 1)], [(5, VLI_MAX - 1), (5, 1)],
                 [(L.UNPADDED_MAX - 40, 1)], [(L.UNPADDED_MAX - 60, 1)], [(L.UNPADDED_MAX - 36, 1)], [(L.UNPADDED_MAX - 32, 1)],
                 [(0, 0)], [(U64 - 1, 0)], [(5, U64 - 1)]):
        add("idxenc", "idxenc 200 " + " ".join("%d:%d" % r for r in recs))
    for n in (61, 126, 127, 128, 129, 513, 16383, 16384) + tuple(rng.randrange(1, 3000) for _ in range(10 * K)):
        seed = rng.getrandbits(32)
        size = len(L.index_field(idxgen_records(n, seed)))
        add("idxgen", "idxgen %d %d %d" % (n, seed, rng.choice((size, size, size + 5, size - 1))))
    for _ in range(250 * K):
        recs = rand_records(rng.choice((0, 1, 1, 2, 3, 4, 5, 8, 20)))
        f = L.index_field(recs)
        add("idxdec", "idxdec " + hexs(f + bytes(rng.getrandbits(8) for _ in range(rng.randrange(0, 3)))))
        r = rng.random()
        if r < 0.15:
            m = L.index_field(recs, count=len(recs) + rng.choice((1, -1, 2, 1000)) if len(recs) else 1)
        elif r < 0.3:
            m = L.index_field(recs, pad=rng.randrange(0, 8))
        elif r < 0.4:
            m = L.index_field(recs, indicator=rng.choice((1, 2, 0xFF)))
        elif r < 0.5:
            m = f[:rng.randrange(0, len(f))]
        elif r < 0.6:
            m = L.index_field(recs + [(rng.randrange(0, 5), 7)])
        elif r < 0.7 and recs:
            body = bytearray([0]) + L.vli_enc(len(recs))
            for u, c in recs:
                body += L.vli_enc(u)[:-1] + bytes([L.vli_enc(u)[-1] | 0x80, 0]) + L.vli_enc(c)        # non-minimal VLI in a Record
            body += b"\0" * ((-len(body)) % 4)
            m = bytes(body) + L.le32(L.crc32(bytes(body)))
        else:
            m = mutate(rng, f, fix_tail_crc)
        add("idxdec", "idxdec " + hexs(m))
    for recs in ([(L.UNPADDED_MAX, 0)], [(L.UNPADDED_MAX - 100, 5), (200, 5)], [(1 << 62, 1), (1 << 62, 1)], [(5, VLI_MAX), (5, 1)],
                 [(5, VLI_MAX - 1), (5, 1)], [(L.UNPADDED_MAX - 40, 1)], [(L.UNPADDED_MAX - 36, 1)], [(L.UNPADDED_MAX - 32, 1)],
                 [(L.UNPADDED_MAX + 4, 0)], [(4, 1)]):
        add("idxdec", "idxdec " + hexs(L.index_field(recs)))
    for _ in range(100 * K):
        add("idxarith", "idxarith %d %d %d" % (rng.getrandbits(rng.randrange(1, 50)), rng.getrandbits(rng.randrange(1, 50)), 4 * rng.getrandbits(rng.randrange(1, 50))))
    # --- the uncompressed-chunk Block encoder, modelled exactly (Check None/CRC32/CRC64; SHA-256 is not modelled)
    for _ in range(150 * K):
        n = rng.choice((0, 1, 2, 3, 5, 100, 65535, 65536, 65537, 131072, 131073, rng.randrange(0, 3000), rng.randrange(0, 200000)))
        if quick and n > 70000 and rng.random() < 0.7:
            n = rng.randrange(0, 70000)
        data = rng.randbytes(n) if rng.random() < 0.5 else bytes([rng.getrandbits(8)]) * n
        chk = rng.choice((0, 1, 1, 4, 4, 2, 3, 5, 15, 16, 99))
        exact = L.worst_case_block_size(n, L.CHECK_SIZES[chk % 16])
        bound = 92 + (n + (n + 65535) // 65536 * 3 + 1 + 3) // 4 * 4
        avail = rng.choice((bound, bound, exact, exact, exact - 1, exact - 4, exact + 1, exact + 3, bound - 1, 0, 1, 4, 8, 12, 20, rng.randrange(0, exact + 8)))
        add("buenc", "buenc %d %d %s" % (chk, max(0, avail), hexs(data)))
    # --- bound functions: boundary grid up to 2^64-1
    ns = {0, 1, 2, 3, 4, 5, U64, U64 - 1, 1 << 63, (1 << 63) - 1, VLI_MAX, COMPRESSED_SIZE_MAX, COMPRESSED_SIZE_MAX + 1, COMPRESSED_SIZE_MAX - 1}
    for k in range(1, 40):
        for d in (-2, -1, 0, 1, 2):
            ns.add(max(0, k * 65536 + d))
    for k in range(8, 64):
        for d in (-2, -1, 0, 1, 2):
            ns.add((1 << k) + d)
    # the overflow guard of lzma2_bound: largest n with n + overhead(n) <= COMPRESSED_SIZE_MAX, found by bisection
    lo, hi = 0, COMPRESSED_SIZE_MAX
    while lo < hi:
        mid = (lo + hi + 1) // 2
        if mid + (mid + 65535) // 65536 * 3 + 1 <= COMPRESSED_SIZE_MAX:
            lo = mid
        else:
            hi = mid - 1
    for d in range(-70000, 70001, 8191):
        ns.add(lo + d)
    for d in range(-6, 7):
        ns.add(lo + d)
        ns.add(COMPRESSED_SIZE_MAX + d)
        ns.add(lo // 65536 * 65536 + d)
    for _ in range(200 * K):
        ns.add(rng.getrandbits(rng.randrange(1, 65)))
    for n in sorted(x for x in ns if 0 <= x <= U64):
        add("bound", "bound %d" % n)
    return out


# ------------------------------------------------------------------------------------------------
# S-stage oracle for encoder-side functional ops: is the C answer a valid encoding of the input? (Python only)
# ------------------------------------------------------------------------------------------------

def judge_func(line, c_out):
    """None = the implementation's answer is acceptable to the independent Python reference (or cannot be judged);
    otherwise a string saying how the produced bytes violate the format."""
    t = line.split()
    o = c_out.split()
    op = t[0]
    try:
        if op == "vlienc" and o[0] == "0":
            v = int(t[1])
            b = unhex(o[1])
            r = L.vli_dec(b)
            if r is None or r != (v, len(b)):
                return "lzma_vli_encode(%d) produced %s, which decodes to %r" % (v, o[1], r)
        elif op == "shenc" and o[0] == "0":
            if unhex(o[1]) != L.stream_header(int(t[2])):
                return "Stream Header differs from the format definition"
        elif op == "sfenc" and o[0] == "0":
            if unhex(o[1]) != L.stream_footer(int(t[2]), int(t[3])):
                return "Stream Footer differs from the format definition (Backward Size / flags / CRC32)"
        elif op == "propenc" and o[0] == "0" and t[1].startswith("lzma2:"):
            d = int(t[1].split(":")[1])
            code = unhex(o[1])[0]
            if code > 40 or L.dict_of_code(code) < max(d, 4096):
                return "LZMA2 dictionary byte %d declares %d < requested %d" % (code, L.dict_of_code(min(code, 40)), d)
        elif op in ("propenc", "ffenc") and o[0] == "0":
            raw = ftok_raw(t[1])
            if raw is not None:
                want = raw[1] if op == "propenc" else L.filter_flags(*raw)
                got = unhex(o[1])
                if op == "ffenc" and raw[0] == L.LZMA2:
                    if got[:-1] != want[:-1] or got[-1] > 40 or L.dict_of_code(got[-1]) < L.dict_of_code(want[-1]):
                        return "Filter Flags for LZMA2 are not a valid encoding of the options"
                elif got != want:
                    return "%s produced %s, format requires %s" % (op, got.hex(), want.hex())
        elif op in ("bhenc", "bhenc2") and o[0] == "0":
            if op == "bhenc":
                chk, cs, us, toks = int(t[3]), t[4], t[5], t[6:]
            else:
                chk, cs, us, toks = int(t[1]), t[2], t[3], t[4:]
            h = unhex(o[1])
            try:
                p = L.parse_block_header(h + bytes(4), 0, chk % 16)
            except L.Bad as e:
                # chains that are not valid for a Block (e.g. LZMA2 not last) are still encodable; only judge well-formed ones
                raws = [ftok_raw(x) for x in toks]
                if all(r is not None for r in raws) and raws and raws[-1][0] == L.LZMA2 and all(r[0] != L.LZMA2 for r in raws[:-1]) \
                        and all(L.props_ok(*r) for r in raws) and "filter" not in str(e):
                    return "Block Header does not parse: %s" % e
                return None
            if p["hs"] != len(h) or len(h) % 4 or not 8 <= len(h) <= 1024:
                return "Block Header size byte untruthful"
            if vstr(p["cs"]) != cs or vstr(p["us"]) != us:
                return "Block Header size fields differ from the block's sizes"
            raws = [ftok_raw(x) for x in toks]
            if all(r is not None for r in raws):
                for (fid, props), (wid, wprops) in zip(p["filters"], raws):
                    if fid != wid or (fid != L.LZMA2 and props != wprops) or (fid == L.LZMA2 and L.dict_of_code(props[0]) < L.dict_of_code(wprops[0])):
                        return "Block Header filter flags differ from the options"
                if len(p["filters"]) != len(raws):
                    return "Block Header filter count differs"
        elif op in ("idxenc", "idxgen") and o[0] == "0":
            recs = [tuple(int(x) for x in r.split(":")) for r in t[2:]] if op == "idxenc" else idxgen_records(int(t[1]), int(t[2]))
            if unhex(o[2]) != L.index_field(recs):
                return "Index field differs from the format definition"
            if int(o[1]) != len(L.index_field(recs)):
                return "lzma_index_size() differs from the real size of the Index field"
        elif op == "buenc" and o[0] == "0":
            st, summ, _ = L.parse_lone_block(unhex(o[1]), int(t[1]), unhex(t[3]))
            if st != "ok":
                return "Block written by lzma_block_uncomp_encode is invalid: " + summ
            if len(unhex(o[1])) > int(t[2]):
                return "lzma_block_uncomp_encode wrote more than out_size"
        elif op == "bound":
            n = int(t[1])
            l2, b64, b, s = (int(x) for x in o)
            if n <= (1 << 62) and (b64 == 0 or s == 0):
                return "bound function returns 0 for a representable size"
            if b64 != 0 and b64 < L.worst_case_block_size(n):
                return "lzma_block_buffer_bound64(%d) = %d < worst-case Block size %d" % (n, b64, L.worst_case_block_size(n))
            if s != 0 and s < L.worst_case_block_size(n) + 12 + 12 + len(L.index_field([(L.worst_case_block_size(n), n)] if n else [])):
                return "lzma_stream_buffer_bound(%d) = %d is smaller than the worst-case Stream" % (n, s)
    except (ValueError, IndexError, struct.error) as e:
        return "unparsable answer %r (%s)" % (c_out, e)
    return None


# ------------------------------------------------------------------------------------------------
# generators: relational ops (real encoders)
# ------------------------------------------------------------------------------------------------

WORDS = [b"the ", b"quick ", b"brown ", b"fox ", b"jumps ", b"over ", b"lazy ", b"dog ", b"lzma ", b"xz ", b"\n", b"0123456789 ", b"\x00\x00\x00\x00", b"\xe8\x10\x00\x00\x00"]


def gen_data(rng, n, kind):
    if n == 0:
        return b""
    if kind == 0:
        return rng.randbytes(n)
    if kind == 1:
        return bytes([rng.getrandbits(8)]) * n
    if kind == 2:
        out = bytearray()
        while len(out) < n:
            out += rng.choice(WORDS)
        return bytes(out[:n])
    out = bytearray()
    while len(out) < n:
        r = rng.random()
        ln = min(n - len(out), rng.randrange(1, 9000))
        if r < 0.3:
            out += rng.randbytes(ln)
        elif r < 0.55 and out:
            back = rng.randrange(1, len(out) + 1)
            for i in range(ln):
                out.append(out[-back])
        elif r < 0.7:
            out += bytes([rng.getrandbits(8)]) * ln
        else:
            while ln > 0:
                w = rng.choice(WORDS)
                out += w[:ln]
                ln -= len(w)
    return bytes(out[:n])


def rand_size(rng, quick):
    r = rng.random()
    if r < 0.08:
        return rng.choice((0, 1, 2, 3, 4, 5))
    if r < 0.35:
        return rng.randrange(6, 3000)
    if r < 0.6:
        return rng.randrange(3000, 70000)
    if r < 0.8:
        return rng.choice((65535, 65536, 65537, 131071, 131072, 131073)) + rng.choice((0, 0, -1, 1, 17))
    if quick:
        return rng.randrange(70000, 400000)
    if r < 0.93:
        return rng.randrange(70000, 1200000)
    return rng.choice(((1 << 21) - 1, 1 << 21, (1 << 21) + 1, rng.randrange(1 << 21, 5 << 20)))


def rand_lzma_tok(rng, name, big_ok):
    preset = rng.choice((0, 0, 1, 2, 3, 4, 5, 6, 6, 7, 8, 9))
    if rng.random() < 0.15:
        preset |= 1 << 31
    dict_size = rng.choice((4096, 4097, 6000, 8192, 65536, 1 << 20, 3 << 19, (1 << 20) + 1, 1 << 22)) if rng.random() < 0.8 or (preset & 31) >= 7 else -1
    if big_ok and rng.random() < 0.05:
        dict_size = 1 << 24
    if rng.random() < 0.6:
        lc, lp, pb = -1, -1, -1
    else:
        lc = rng.randrange(0, 5)
        lp = rng.randrange(0, 5 - lc)
        pb = rng.randrange(0, 5)
    mode = rng.choice((-1, -1, 1, 2))
    nice = rng.choice((-1, -1, 2, 3, 8, 32, 64, 128, 273))
    mf = rng.choice((-1, -1, 3, 4, 0x12, 0x13, 0x14))
    depth = rng.choice((-1, -1, 0, 1, 4, 100))
    return "%s:%d:%d:%d:%d:%d:%d:%d:%d:%d" % (name, preset, dict_size, lc, lp, pb, mode, nice, mf, depth)


BCJ_TOK = {"X86": (4, 1), "PPC": (5, 4), "IA64": (6, 16), "ARM": (7, 4), "ARMT": (8, 2), "SPARC": (9, 4), "ARM64": (10, 4), "RISCV": (11, 2)}


def rand_rel_chain(rng, big_ok):
    toks = []
    r = rng.random()
    if r > 0.55:
        for _ in range(rng.choice((1, 1, 1, 2, 3))):
            if rng.random() < 0.4:
                toks.append("DELTA:%d" % rng.choice((1, 2, 3, 4, 16, 255, 256)))
            else:
                nm = rng.choice(sorted(BCJ_TOK))
                al = BCJ_TOK[nm][1]
                toks.append(nm if rng.random() < 0.6 else "%s:%d" % (nm, al * rng.randrange(0, 1 << 20)))
    toks.append(rand_lzma_tok(rng, "L2", big_ok))
    return toks


def chain_ids(toks):
    ids = []
    for t in toks:
        nm = t.split(":")[0]
        ids.append(L.LZMA2 if nm == "L2" else L.LZMA1 if nm == "L1" else L.DELTA if nm == "DELTA" else BCJ_TOK[nm][0])
    return ids


def chain_matches(info, ids):
    """The Block Header lists the configured chain, or — when the encoder fell back to uncompressed LZMA2 chunks
    (block_encode_uncompressed) — LZMA2 alone with the minimum dictionary size."""
    return info["ids"] == ids or info["filters"] == [(L.LZMA2, b"\x00")]


def gen_rel(ctx):
    rng, quick = ctx.rng, ctx.quick()
    cases = []       # dict(line, kind, check, data, ids)
    n_cases = 400 if quick else 2000
    checks = (0, 1, 4, 10)
    for i in range(n_cases):
        api = rng.choice(("easy", "sbe", "sbe", "bbe", "bue", "strm", "strm", "mt", "mt", "alone"))
        n = rand_size(rng, quick)
        if api in ("mt", "strm") and n > (1 << 20) and rng.random() < 0.5:
            n = rng.randrange(0, 1 << 20)
        data = gen_data(rng, n, rng.choice((0, 1, 2, 3, 3, 3)))
        check = rng.choice(checks)
        extra = rng.choice((0, 0, 1, 3, 64, 4096))
        hx = hexs(data)
        if api == "easy":
            preset = rng.choice((0, 1, 2, 3, 4, 5, 6)) | ((1 << 31) if rng.random() < 0.1 else 0)
            line, ids = "easy %d %d %d %s" % (preset, check, extra, hx), [L.LZMA2]
        elif api == "sbe":
            toks = rand_rel_chain(rng, not quick)
            line, ids = "sbe %d %d %s %s" % (check, extra, hx, " ".join(toks)), chain_ids(toks)
        elif api == "bbe":
            toks = rand_rel_chain(rng, not quick)
            line, ids = "bbe %d %d %s %s" % (check, extra, hx, " ".join(toks)), chain_ids(toks)
        elif api == "bue":
            line, ids = "bue %d %d %s" % (check, extra, hx), [L.LZMA2]
        elif api == "strm":
            toks = rand_rel_chain(rng, not quick)
            pure = all(t.startswith(("L2", "DELTA")) for t in toks)
            fm = rng.choice((0, 0, 1, 2, 3)) if pure else rng.choice((0, 0, 2, 3))
            line, ids = "strm %d %d %d %s %s" % (check, rng.getrandbits(30), fm, hx, " ".join(toks)), chain_ids(toks)
        elif api == "mt":
            toks = rand_rel_chain(rng, False)
            # several encoder instances at once: keep each one's dictionary small
            toks[-1] = ":".join(toks[-1].split(":")[:2] + [str(rng.choice((4096, 65536, 1 << 20)))] + toks[-1].split(":")[3:])
            bs = rng.choice((0, 4096, 5000, 65536, 65537, 100000, 1 << 20))
            if rng.random() < 0.25:
                # block sizes whose VLI is a byte shorter than that of lzma_block_buffer_bound64(block_size) (the worker must reserve
                # the Block Header space from the larger one), often with a chain that puts the header right at a multiple of four
                bs = rng.choice((100, 127, 128, 16290, 16383, 16384))
                if rng.random() < 0.6:
                    toks = ["DELTA:%d" % rng.choice((1, 4, 256))] + toks[-1:]
                data = data[:40 * bs]
                n, hx = len(data), hexs(data)
            if n > 200000 and bs and bs < 65536:
                bs = 65536
            line = "mt %d %d %d %d %d %s %s" % (check, rng.choice((1, 2, 3, 4)), bs, rng.getrandbits(30), rng.choice((0, 0, 2, 3)), hx, " ".join(toks))
            ids = chain_ids(toks)
        else:
            tok = rand_lzma_tok(rng, "L1", False)
            line, ids = "alone %d %s %s" % (rng.getrandbits(30), hx, tok), [L.LZMA1]
        cases.append(dict(line=line, api=api, check=check, data=data, ids=ids, weight=n + 2000))
    return cases


def rand_triple(rng):
    lc = rng.randrange(0, 5)
    return lc, rng.randrange(0, 5 - lc), rng.randrange(0, 5)


def gen_upd(ctx):
    """Relational cases that change the filters with lzma_filters_update(): lc/lp/pb after LZMA_SYNC_FLUSH (inside a Block),
    the whole chain after LZMA_FULL_FLUSH / LZMA_FULL_BARRIER (between Blocks); single-threaded and threaded Stream encoders."""
    rng, quick = ctx.rng, ctx.quick()
    cases = []
    for i in range(70 if quick else 400):
        mode = rng.choice(("sync", "sync", "full", "mixed", "mt", "mt"))
        n = rng.choice((rng.randrange(300, 6000), rng.randrange(6000, 90000), rng.randrange(90000, 260000 if quick else 900000)))
        data = gen_data(rng, n, rng.choice((2, 2, 3, 3, 3, 0)))
        check = rng.choice((0, 1, 4, 10))

        def l2tok(dict_size):
            lc, lp, pb = rand_triple(rng)
            return "L2:%d:%d:%d:%d:%d:%d:%d:%d:%d" % (rng.choice((0, 1, 3, 4, 6)), dict_size, lc, lp, pb, rng.choice((-1, 1, 2)),
                                                      rng.choice((-1, 8, 64, 273)), rng.choice((-1, 3, 4, 0x14)), rng.choice((-1, 0, 4)))

        def plain_chain(dict_size):
            pre = ["DELTA:%d" % rng.choice((1, 2, 4, 256))] if rng.random() < 0.3 else []
            return pre + [l2tok(dict_size)]

        trips = []
        if mode == "sync":
            fm, kind, chains = 1, "st", [plain_chain(rng.choice((4096, 65536, 1 << 20)))]
        elif mode == "full":
            fm, kind = rng.choice((2, 3)), "st"
            chains = [rand_rel_chain(rng, False) for _ in range(rng.choice((2, 3, 4)))]
        elif mode == "mixed":
            fm, kind = 4, "st"
            chains = [plain_chain(rng.choice((4096, 65536, 1 << 20))) for _ in range(rng.choice((2, 3)))]
        else:
            fm, kind = rng.choice((2, 3)), "mt"
            chains = []
            for _ in range(rng.choice((2, 3))):
                toks = rand_rel_chain(rng, False)
                toks[-1] = ":".join(toks[-1].split(":")[:2] + [str(rng.choice((4096, 65536, 1 << 20)))] + toks[-1].split(":")[3:])
                chains.append(toks)
        if fm in (1, 4):
            while len(trips) < rng.choice((2, 3, 4)):
                t = rand_triple(rng)
                if not trips or t != trips[-1]:
                    trips.append(t)
        threads, bs = (rng.choice((1, 2, 3)), rng.choice((0, 5000, 65536, 100000))) if kind == "mt" else (1, 0)
        line = "upd %s %d %d %d %d %d %s %s" % (kind, check, threads, bs, rng.getrandbits(30), fm, hexs(data), " / ".join(" ".join(c) for c in chains))
        if trips:
            line += " = " + " ".join("P:%d:%d:%d" % t for t in trips)
        cases.append(dict(line=line, api="upd", check=check, data=data, ids=chain_ids(chains[0]), chains=[chain_ids(c) for c in chains],
                          mode=mode, weight=3 * n + 2000))
    return cases


def judge_upd(c, events_tok, blocks, out):
    """Expectations specific to `upd` cases; returns a reason string or None."""
    events = []
    for e in events_tok.split(","):
        off, kind, idx, props, ret = e.split(":")
        if ret != "0":
            return "lzma_filters_update returned %s (event %s)" % (ret, e)
        events.append((int(off), kind, int(idx), int(props)))
    dpos = 0
    for b in blocks:
        idx = [ev[2] for ev in events if ev[1] in "IF" and ev[0] <= dpos][-1]
        if not chain_matches(b, c["chains"][idx]):
            return "Block at data offset %d lists filters %s, but chain %d %s was in force" % (dpos, b["ids"], idx, c["chains"][idx])
        dpos += b["us"]
    eff = None
    for off, pb in L.stream_chunk_props(out, c["check"]):
        if pb is not None:
            eff = pb
        want = [ev[3] for ev in events if ev[0] <= off][-1]
        if eff != want:
            return "LZMA chunk at data offset %d is under properties byte %s, but lc/lp/pb byte %d was in force there" % (off, eff, want)
    return None


def gen_bound_cases(ctx):
    rng, quick = ctx.rng, ctx.quick()
    lines = []
    grid = [0, 1, 2, 65535, 65536, 65537, 131071, 131072, 131073, 3 * 65536 - 1, 3 * 65536, 3 * 65536 + 1]
    if not quick:
        grid += [(1 << 21) - 1, 1 << 21, (1 << 21) + 1, 33 * 65536 - 1, 33 * 65536 + 1, rng.randrange(1 << 21, 6 << 20)]
        grid += [k * 65536 + d for k in (4, 5, 8, 16) for d in (-1, 0, 1)]
    grid += [rng.randrange(3, 200000) for _ in range(6 if quick else 30)]
    for n in grid:
        apis = ["easy0", "easy6", "sbe", "bbe", "bue"] if (n <= 300000 or not quick) else ["easy0", "bue"]
        if n > (3 << 20):
            apis = ["easy0", "easy1", "bbe", "bue"]
        for api in apis:
            for kind in ((0,) if quick else (0, 3)):
                check = rng.choice((0, 1, 4, 10, 10))
                chain = ""
                if api in ("sbe", "bbe"):
                    toks = rand_rel_chain(rng, False) if n < (1 << 21) else ["L2:%d:-1:-1:-1:-1:-1:-1:-1:-1" % rng.choice((0, 1))]
                    chain = " " + " ".join(toks)
                lines.append("xbound %s %d %d %d %d%s" % (api, check, n, kind, rng.getrandbits(30), chain))
    return lines


# ------------------------------------------------------------------------------------------------
# running
# ------------------------------------------------------------------------------------------------

def run_parts(exe, lines, weights=None, env=None, timeout=2400):
    """Runs op lines through a line-protocol program on all cores (greedy balancing by weight). Returns (outputs or None per line, first failure)."""
    n = len(lines)
    if n == 0:
        return [], None
    k = min(vlib.NCPU, n)
    order = sorted(range(n), key=lambda i: -(weights[i] if weights else 1))
    bins, load = [[] for _ in range(k)], [0] * k
    for i in order:
        j = load.index(min(load))
        bins[j].append(i)
        load[j] += weights[i] if weights else 1
    for b in bins:
        b.sort()
    res = vlib.par_map(lambda idxs: vlib.run_lines([exe], [lines[i] for i in idxs], timeout=timeout, env=env) if idxs else (0, [], ""), bins)
    outs, fail = [None] * n, None
    for idxs, (rc, out, err) in zip(bins, res):
        for i, o in zip(idxs, out):
            outs[i] = o
        if (rc != 0 or len(out) != len(idxs)) and fail is None:
            fail = (idxs, rc, err, len(out))
    return outs, fail


def find_abort(ctx, exe, lines, fail):
    """A part of the harness run died: replay its lines one by one to find the op that aborts."""
    idxs, rc, err, got = fail
    start = max(0, got - 1)
    for i in idxs[start:]:
        rc1, o1, e1 = vlib.run_lines([exe], [lines[i]], timeout=600)
        if rc1 != 0 or len(o1) != 1:
            ln = lines[i]
            ctx.violation("harness-abort", {"kind": "the implementation aborted (sanitizer / assertion / crash) on this op",
                                            "op": ln,
                                            "stderr": e1[-3000:], "how_to_replay": "echo '<op>' | .cache/harness-asan/c02"}, True)
            return True
    ctx.obligation_broken("harness c02 failed (rc=%d) but no single op reproduces it" % rc, err)
    return False


def build(ctx):
    okb, log, _ = vlib.c_build("asan", targets=["liblzma"])
    if not okb:
        ctx.obligation_broken("stage B: /repo does not build", log)
        return None
    okh, log, exe = vlib.harness_build("c02", HARNESS)
    if not okh:
        ctx.obligation_broken("stage B: C02 harness does not compile against /repo", log)
        return None
    return exe


def huge_index_count(line):
    b = unhex(line.split()[1])
    r = L.vli_dec(b, 1) if len(b) > 1 else None
    return r is not None and r[0] > (1 << 24)


def gen_stage():
    """Stage G: build harness/gen_c02.c against the build under test (it #includes the .c files that own private macros and
    static tables and links liblzma.a to run the real functions), run it, rewrite Gen/C02.lean iff the content changed."""
    okg, log, gexe = vlib.harness_build("gen_c02", ["gen_c02.c"])
    if not okg:
        return False, "probe does not compile:\n" + log
    rc, out = vlib.sh([gexe], timeout=300, env={"ASAN_OPTIONS": "detect_leaks=0"})
    if rc != 0 or "end XzVerif.Gen.C02" not in out:
        return False, "probe failed:\n" + out[-2000:]
    vlib.write_if_changed(vlib.module_path("XzVerif.Gen.C02"), out)
    return True, ""


def second_decoder(out, data, fmt):
    """Round trip through the system's liblzma (a different build/version of the decoder) via Python's lzma module.
    Returns None if fine or not applicable, else a reason."""
    try:
        import lzma
    except ImportError:
        return None
    try:
        got = lzma.decompress(out, format=lzma.FORMAT_XZ if fmt == "xz" else lzma.FORMAT_ALONE)
    except lzma.LZMAError as e:
        msg = str(e)
        if "nsupported" in msg or "Invalid or unsupported options" in msg or "Memory" in msg:
            return None
        return "system liblzma rejects the output: " + msg
    except MemoryError:
        return None
    return None if got == data else "system liblzma decodes the output to different data"


# ------------------------------------------------------------------------------------------------
# container-encoder tie: the Lean encoder models (Model/XzEncode.lean) reassemble the container from the C encoder's own
# per-Block Compressed Data and must reproduce the C output byte for byte
# ------------------------------------------------------------------------------------------------

TIE_MAX_INPUT = 1 << 20      # the List-based model is fed at most this many input bytes per case


def tie_bounds(n):
    """lzma2_bound, lzma_block_buffer_bound64, lzma_stream_buffer_bound for a small n (no overflow guards needed)."""
    l2 = n + (n + 65535) // 65536 * 3 + 1
    bb = 92 + (l2 + 3) // 4 * 4
    return l2, bb, bb + 48


def tie_uncompressed_chunks(data):
    out, first = bytearray(), True
    for i in range(0, len(data), 65536):
        ch = data[i:i + 65536]
        out += bytes([1 if first else 2, (len(ch) - 1) >> 8, (len(ch) - 1) & 0xFF]) + ch
        first = False
    return bytes(out) + b"\0"


def tie_chain_line(c):
    """The harness op that resolves the case's chain into functional filter tokens (presets -> dictionary size)."""
    toks, api = c["line"].split(), c["api"]
    if api == "easy":
        return "relchain L2:%s:-1:-1:-1:-1:-1:-1:-1:-1" % toks[1]
    if api in ("sbe", "bbe"):
        return "relchain " + " ".join(toks[4:])
    if api == "strm":
        return "relchain " + " ".join(toks[5:])
    if api == "mt":
        return "relchain " + " ".join(toks[7:])
    if api == "alone":
        return "relchain " + toks[3]
    return None


def tie_lines(c, ftoks, stats):
    """-> (list of alternative model ops, expectation suffix) or a string saying why the case is not tied.
    One alternative normally; two when "fell back to uncompressed chunks" cannot be told from the bytes alone."""
    api, out, data, check = c["api"], c["out"], c["data"], c["check"]
    if api == "upd":
        return "filters-updated-mid-stream"
    toks = c["line"].split()
    if len(data) > TIE_MAX_INPUT:
        return "input-too-large"
    if api == "alone":
        t = ftoks[0].split(":")
        return ["encalone %s %s %s %s %s %s" % (hexs(out), t[2], t[3], t[4], t[5], hexs(out[13:]))], ""
    csz = L.CHECK_SIZES[check]
    if api in ("bbe", "bue"):
        st, _, info = L.parse_lone_block(out, check, data)
        blocks, pos = [info], 0
    else:
        st, _, blocks = L.parse_xz(out, check, data)
        pos = 12
    if st != "ok":
        return "not-parsed"
    cfg_is_min = len(ftoks) == 1 and ftoks[0].startswith("lzma2:") and L.dict_code_for(int(ftoks[0].split(":")[1])) == 0
    pairs, ambiguous, dpos, seen = [], False, 0, {}
    for b in blocks:
        payload = out[pos + b["hs"]:pos + b["hs"] + b["cs"]]
        piece = data[dpos:dpos + b["us"]]
        tok = hexs(payload)
        if api != "strm" and b["filters"] == [(L.LZMA2, b"\x00")] and payload == tie_uncompressed_chunks(piece):
            if cfg_is_min and api != "bue":
                ambiguous = True
                stats["fallback-or-not-ambiguous"] = stats.get("fallback-or-not-ambiguous", 0) + 1
            else:
                tok = "!"
                stats["fallback-blocks"] = stats.get("fallback-blocks", 0) + 1
        if seen.setdefault(piece, tok) != tok:
            return "same-piece-different-payload"
        pairs.append((hexs(piece), tok))
        stats["blocks"] = stats.get("blocks", 0) + 1
        pos += b["hs"] + b["cs"] + (-b["cs"]) % 4 + csz
        dpos += b["us"]
    f = "%d %s" % (len(ftoks), " ".join(ftoks)) if ftoks else "0"

    def ptoks(force_fallback):
        return " ".join("%s %s" % (d, "!" if force_fallback else p) for d, p in pairs)

    alts = [False, True] if ambiguous else [False]
    if api in ("bbe", "bue"):
        avail = tie_bounds(len(data))[1] + int(toks[2])
        b = blocks[0]
        return (["encblock %d %d %d %s %s %s" % (1 if api == "bbe" else 0, avail, check, hexs(out), f, ptoks(a)) for a in alts],
                " %d %d" % (b["hs"] + b["cs"] + csz, b["us"]))
    if api in ("easy", "sbe"):
        avail = tie_bounds(len(data))[2] + int(toks[3] if api == "easy" else toks[2])
        head = "encxz sc %d %d" % (avail, check)
    elif api == "mt":
        bs = int(toks[3])
        if bs == 0:
            bs = max([int(t.split(":")[1]) * 3 for t in ftoks if t.startswith("lzma2:")] + [1 << 20])
        head = "encxz mt %d %d" % (bs, check)
    else:
        head = "encxz st %d" % check
    return ["%s %s %s %d %s" % (head, hexs(out), f, len(pairs), ptoks(a)) for a in alts], ""


def run_tie(ctx, exe, mexe, cases, idxs):
    """Stage K, container-encoder tie over the relational cases `idxs` (those whose C output passed every check above)."""
    chain_lines, chain_idx = [], []
    for i in idxs:
        ln = tie_chain_line(cases[i])
        if ln is not None:
            chain_lines.append(ln)
            chain_idx.append(i)
    c_out, fail = run_parts(exe, chain_lines)
    if fail is not None:
        ctx.obligation_broken("harness c02 failed on a relchain op", str(fail[2])[:2000])
        return
    ftoks = {i: (o or "").split() for i, o in zip(chain_idx, c_out)}
    ops, owner, expect, stats = [], [], {}, {}
    for i in idxs:
        c = cases[i]
        r = tie_lines(c, ftoks.get(i, []), stats)
        if isinstance(r, str):
            ctx.count("tie-skipped:" + r)
            continue
        alts, suffix = r
        expect[i] = suffix
        for a in alts:
            ops.append(a)
            owner.append(i)
    for k, v in sorted(stats.items()):
        ctx.count("tie-" + k, v)
    m_out, mfail = run_parts(mexe, ops, [len(o) for o in ops])
    if mfail is not None:
        ctx.obligation_broken("model driver xzm_c02 failed on a container-encoder tie op", str(mfail[2])[:2000])
        return
    verdict = {}
    for i, o in zip(owner, m_out):
        c = cases[i]
        good = (o or "") == "ok %d%s" % (len(c["out"]), expect[i])
        verdict.setdefault(i, []).append((good, o))
    bad = 0
    for i, vs in verdict.items():
        c = cases[i]
        ctx.count("tie:" + c["api"])
        if any(g for g, _ in vs):
            continue
        bad += 1
        if bad <= 3:
            ctx.obligation_broken("correspondence C02: the container encoder model (Model/XzEncode.lean), fed with the C encoder's own "
                                  "payload bytes, does not reproduce the C output (%s)" % c["api"],
                                  json.dumps({"op": c["line"][:2000], "chain": ftoks.get(i), "model": [o for _, o in vs],
                                              "c_output_len": len(c["out"]), "c_output_head": c["out"][:64].hex()}))
    ctx.cov["correspondence"].update({"container_tie_cases": len(verdict), "container_tie_mismatches": bad})


# ------------------------------------------------------------------------------------------------
# reused encoder handles (several encodings on one lzma_stream without lzma_end) and several files in one xz process
# ------------------------------------------------------------------------------------------------

# Fraction of the relational budget that runs as 2nd/3rd... encoding on a reused handle (override: VERIF_C02_REUSE=0.5).
REUSE_FRACTION = float(os.environ.get("VERIF_C02_REUSE", "0.3"))


def gen_reuse(ctx, n_rel):
    """Cases for the `reuse` op: 2-4 encodings on ONE lzma_stream; the earlier ones finished, abandoned or failed."""
    rng, quick = ctx.rng, ctx.quick()
    cases = []
    for _ in range(max(8, int(n_rel * REUSE_FRACTION))):
        n = rng.choice((rng.randrange(0, 40), rng.randrange(40, 5000), rng.randrange(5000, 70000 if quick else 300000)))
        data = gen_data(rng, n, rng.choice((0, 2, 3, 3)))
        same = rng.random() < 0.7
        kind0 = rng.choice(("st", "st", "st", "easy", "easy", "mt", "alone", "raw"))
        k = rng.choice((2, 2, 3, 3, 4))
        streams, specs = [], []
        for j in range(k):
            kind = kind0 if same or j == 0 else rng.choice(("st", "easy", "mt", "alone", "raw"))
            if kind == "st" and kind0 in ("st", "easy") and same and rng.random() < 0.3:
                kind = "easy"                      # lzma_easy_encoder and lzma_stream_encoder share the coder
            end = "f" if j == k - 1 else rng.choice(("f", "f", "f", "a", "e"))
            check = rng.choice((0, 1, 4, 10))
            pct = rng.choice((100, 100, 50, 7, 0)) if end == "f" else rng.choice((100, 60, 10))
            fm, threads, bs = 0, 1, 0
            if kind == "easy":
                preset = rng.choice((0, 1, 2, 3, 6)) | ((1 << 31) if rng.random() < 0.1 else 0)
                toks, ids = ["E:%d" % preset], [L.LZMA2]
            elif kind == "alone":
                toks, ids = [rand_lzma_tok(rng, "L1", False)], [L.LZMA1]
            else:
                toks = rand_rel_chain(rng, False)
                if kind == "mt":
                    toks[-1] = ":".join(toks[-1].split(":")[:2] + [str(rng.choice((4096, 65536, 1 << 20)))] + toks[-1].split(":")[3:])
                    threads, bs, fm = rng.choice((1, 2, 3)), rng.choice((0, 4096, 65536)), rng.choice((0, 0, 2, 3))
                elif kind == "st":
                    pure = all(t.startswith(("L2", "DELTA")) for t in toks)
                    fm = rng.choice((0, 0, 1, 2, 3)) if pure else rng.choice((0, 0, 2, 3))
                ids = chain_ids(toks)
            specs.append("%s:%d:%d:%d:%d:%s:%d %s" % (kind, check, threads, bs, fm, end, pct, " ".join(toks)))
            streams.append(dict(kind=kind, end=end, check=check, ids=ids, data=data[:len(data) * pct // 100]))
        line = "reuse %d %s %s" % (rng.getrandbits(30), hexs(data), " / ".join(specs))
        cases.append(dict(line=line, streams=streams, weight=k * n + 3000))
    return cases


def judge_stream_bytes(st, out, rt):
    """Judges one finished encoding with the Python oracle (+ system liblzma). -> (reason or None, model op or None, expected model answer)."""
    kind, data, check = st["kind"], st["data"], st["check"]
    if rt != "ok":
        return "the C decoder does not give the input back: " + rt, None, None
    if kind == "alone":
        s, summ = L.parse_alone(out)
        if s != "ok" or not summ.endswith("usize=%d" % U64):
            return ".lzma header invalid: " + summ, None, None
        w = second_decoder(out, data, "alone")
        return (w, None, None) if w else (None, "valalone " + hexs(out[:64]), summ)
    if kind == "raw":
        try:
            end, usum, _ = L.walk_chunks(out, 0, (data, 0) if len(st["ids"]) == 1 else None)
        except L.Bad as e:
            return "raw LZMA2 stream invalid: %s" % e, None, None
        if end != len(out) or usum != len(data):
            return "raw LZMA2 chunk sizes do not tile the output (%d/%d, %d/%d)" % (end, len(out), usum, len(data)), None, None
        return None, None, None
    s, summ, blocks = L.parse_xz(out, check, data)
    if s != "ok":
        return "Stream is not valid / metadata untruthful: " + summ, None, None
    if any(not chain_matches(b, st["ids"]) for b in blocks):
        return "Block Header filter chain differs from the configuration: " + summ, None, None
    w = second_decoder(out, data, "xz")
    return (w, None, None) if w else (None, "valxz %d %s %s" % (check, hexs(data), hexs(out)), summ)


def run_reuse(ctx, exe, mexe, model_ok, n_rel):
    cases = gen_reuse(ctx, n_rel)
    lines = [c["line"] for c in cases]
    outs, fail = run_parts(exe, lines, [c["weight"] for c in cases])
    if fail is not None:
        find_abort(ctx, exe, lines, fail)
        return False
    bad, vlines, vexp, vcase = 0, [], [], []
    for c, o in zip(cases, outs):
        toks = (o or "").split(" ")
        ctx.case(c["line"][:40] + str(hash(c["line"])), nontrivial=True)
        if len(toks) != len(c["streams"]):
            ctx.obligation_broken("harness answered a reuse op with the wrong number of encodings", (o or "")[:300])
            continue
        for j, (st, tk) in enumerate(zip(c["streams"], toks)):
            f = tk.split(":", 4)
            pos = "1st" if j == 0 else "2nd+"
            ctx.count("reuse:%s:%s:%s" % (st["kind"], st["end"], pos))
            if j > 0:
                ctx.count("reuse-after:" + c["streams"][j - 1]["end"] + ("-same-coder" if c["streams"][j - 1]["kind"] == st["kind"] else "-other-coder"))
            why = None
            if f[1] != "0":
                why = "encoder initialisation on the %s handle returned %s" % ("fresh" if j == 0 else "reused", f[1])
            elif st["end"] == "f":
                if f[2] != "0":
                    why = "encoder returned lzma_ret %s" % f[2]
                else:
                    why, vop, exp = judge_stream_bytes(st, unhex(f[3]), f[4])
                    if why is None and vop is not None:
                        vlines.append(vop); vexp.append(exp); vcase.append((c, j))
            if why:
                bad += 1
                if bad <= 4:
                    ctx.violation("reuse-" + st["kind"], {"kind": "encoding #%d on a reused lzma_stream (%s, previous encodings: %s): %s" % (
                        j + 1, st["kind"], ",".join(x["kind"] + ":" + x["end"] for x in c["streams"][:j]) or "none", why),
                        "op": c["line"], "stream_index": j, "how_to_replay": "echo '<op>' | .cache/harness-asan/c02"}, True)
    mm = 0
    if model_ok and vlines:
        v_out, vfail = run_parts(mexe, vlines, [len(v) for v in vlines])
        if vfail is not None:
            ctx.obligation_broken("model driver xzm_c02 failed on a validation op (reuse)", str(vfail[2])[:2000])
        else:
            for vo, exp, (c, j) in zip(v_out, vexp, vcase):
                if vo != exp:
                    mm += 1
                    if mm <= 3:
                        if (vo or "").startswith("bad "):
                            ctx.violation("reuse-model", {"kind": "the Lean structural validator rejects encoding #%d of a reused handle: %s" % (j + 1, vo),
                                                          "op": c["line"], "stream_index": j, "python_parser": exp}, True)
                        else:
                            ctx.obligation_broken("correspondence C02: Lean validator and Python parser measure different structures (reuse)",
                                                  json.dumps({"op": c["line"][:2000], "lean": vo, "python": exp}))
    ctx.cov["correspondence"].update({"reuse_cases": len(cases), "reuse_encodings_validated": len(vlines), "reuse_failures": bad,
                                      "reuse_model_vs_python_mismatches": mm})
    return True


def run_cli(ctx, mexe, model_ok):
    """Several files compressed by ONE xz process (`xz -T1 a b c`, also -T2 and --format=lzma): every output file must be a
    valid container that decodes to its input (Python parser, system liblzma, Lean validator)."""
    rng, quick = ctx.rng, ctx.quick()
    ok, log, bd = vlib.c_build("rel", targets=["xz"])
    xz = os.path.join(bd, "xz")
    if not ok or not os.path.exists(xz):
        ctx.obligation_broken("stage B: the xz tool does not build", log)
        return
    import shutil, tempfile
    base = os.path.join(vlib.CACHE, "c02-cli")
    os.makedirs(base, exist_ok=True)
    bad, vlines, vexp, vwhat = 0, [], [], []
    for inv in range(5 if quick else 16):
        d = tempfile.mkdtemp(dir=base)
        try:
            # the first two invocations are always single-threaded .xz (one encoder handle reused for every file)
            fmt = "xz" if inv < 2 else rng.choice(("xz", "xz", "xz", "lzma"))
            threads = 1 if inv < 2 else (rng.choice((1, 1, 2, 0)) if fmt == "xz" else 1)
            check = rng.choice(("none", "crc32", "crc64", "sha256"))
            preset = rng.choice((0, 1, 3, 6))
            files = []
            for k in range(rng.choice((3, 3, 4)) if inv < 2 else rng.choice((2, 3, 4))):
                data = gen_data(rng, rng.choice((0, 1, rng.randrange(2, 3000), rng.randrange(3000, 150000))), rng.choice((0, 2, 3)))
                nm = os.path.join(d, "f%d" % k)
                with open(nm, "wb") as f:
                    f.write(data)
                files.append((nm, data))
            cmd = [xz, "-k", "-T%d" % threads, "-%d" % preset, "--format=" + fmt] + (["--check=" + check] if fmt == "xz" else []) + [nm for nm, _ in files]
            rc, out = vlib.sh(cmd, timeout=600)
            desc = " ".join(os.path.basename(x) if x.startswith(d) else x for x in cmd[1:])
            ctx.count("cli:%s:T%d" % (fmt, threads))
            if rc != 0:
                bad += 1
                ctx.violation("cli", {"kind": "xz exited with %d compressing several files in one process" % rc, "cmd": desc, "output": out[-1000:],
                                      "files_hex": [hexs(x)[:20000] for _, x in files]}, True)
                continue
            cid = {"none": 0, "crc32": 1, "crc64": 4, "sha256": 10}[check]
            for k, (nm, data) in enumerate(files):
                ctx.case("cli" + desc + str(k) + str(len(data)), nontrivial=True)
                try:
                    comp = open(nm + (".xz" if fmt == "xz" else ".lzma"), "rb").read()
                except OSError:
                    comp = None
                why = None
                if comp is None:
                    why = "output file missing"
                elif fmt == "xz":
                    s, summ, blocks = L.parse_xz(comp, cid, data)
                    why = None if s == "ok" else "output file is not a valid .xz Stream: " + summ
                    why = why or second_decoder(comp, data, "xz")
                    if why is None:
                        vlines.append("valxz %d %s %s" % (cid, hexs(data), hexs(comp))); vexp.append(summ); vwhat.append((desc, k))
                else:
                    s, summ = L.parse_alone(comp)
                    why = None if s == "ok" else ".lzma header invalid: " + summ
                    why = why or second_decoder(comp, data, "alone")
                if why:
                    bad += 1
                    if bad <= 3:
                        ctx.violation("cli", {"kind": "file #%d written by one xz process (%s): %s" % (k + 1, desc, why), "cmd": desc,
                                              "files_hex": [hexs(x)[:200000] for _, x in files], "output_head": (comp or b"")[:64].hex(),
                                              "how_to_replay": "write the files, run xz with the arguments of `cmd`, parse file #k+1 with tools/c02lib.py parse_xz"}, True)
        finally:
            shutil.rmtree(d, ignore_errors=True)
    mm = 0
    if model_ok and vlines:
        v_out, vfail = run_parts(mexe, vlines, [len(v) for v in vlines])
        if vfail is None:
            for vo, exp, (desc, k) in zip(v_out, vexp, vwhat):
                if vo != exp:
                    mm += 1
                    if mm <= 2:
                        ctx.violation("cli-model", {"kind": "the Lean structural validator rejects file #%d written by `xz %s`: %s" % (k + 1, desc, vo),
                                                    "python_parser": exp}, (vo or "").startswith("bad "))
    ctx.cov["correspondence"].update({"cli_files_validated": len(vlines), "cli_failures": bad})


def run(ctx):
    ctx.cov["rule"] = ("functional: op lines for every L0-L2 codec generated from the seeded PRNG (boundary VLI values 2^(7k)±2, every check ID, "
                       "every dictionary/lclppb byte, valid fields built by an independent Python encoder, their byte/bit mutations with and "
                       "without CRC fix-up, truncations, reserved bits, noise; bound grid k*2^16±2, 2^k±2, overflow guards up to 2^64-1); "
                       "relational: (encoder API, filter chain, options, check, data kind, size around LZMA2 chunk limits, slicing/flush seed); "
                       "non-trivial = the op reaches the codec with a non-degenerate argument; distinct by full op line")
    ctx.assumptions += [
        "Lean 4 kernel; axioms propext/Classical.choice/Quot.sound and one bv_decide axiom (XzVerif.BitWords.dictSmear_*) for the dictionary-size bit smearing",
        "the C compiler and sanitizer runtime; harness/c02_*.c pass the stated arguments to the real functions and print results honestly",
        "harness/gen_c02.c prints the constants, tables and tabulated functions of the build under test into Gen/C02.lean",
        "LZMA payloads are judged by the C decoder and by the system's liblzma (Python lzma module), not by a Lean LZMA decoder; "
        "SHA-256 Check values by Python hashlib",
        "size_t is 64 bits (recorded in Gen/C02.lean and bridged)",
    ]
    # B first: the Gen probe needs the build's flags
    exe = build(ctx)
    if exe is None:
        return "proof"
    # G
    ok, log = gen_stage()
    if not ok:
        ctx.obligation_broken("stage G: Gen/C02.lean cannot be regenerated from /repo", log)
    # G (scalar kernels translated from the clang AST: Gen/Kernels.lean + Gen/KernelsGrid.lean; bridged in Props/Kernels.lean)
    kmods = kernels_stage.run_stage(ctx)
    # P
    p_ok = ctx.lean_stage(["XzVerif.Props.C02"] + kmods, exes=["xzm_c02"]) if ok else False
    mexe = vlib.model_exe("xzm_c02")
    model_ok = os.path.exists(mexe)
    if model_ok and not p_ok:
        # the proofs broke; the driver may still be current if only Props/Gen changed: try to (re)build just the driver
        rc, out = vlib.lake(["build", "xzm_c02"])
        model_ok = rc == 0
    if model_ok:
        rc, o, e = vlib.run_lines([mexe], ["selftest"])
        if o != ["ok"]:
            ctx.obligation_broken("model driver self test (fast CRC vs reference CRC) failed", str(o) + e)
            model_ok = False

    # ---------------- K (functional) ----------------
    func = gen_func(ctx)
    lines = [ln for _, ln in func]
    for cat, _ in func:
        ctx.count("func:" + cat)
    c_out, fail = run_parts(exe, lines)
    if fail is not None:
        find_abort(ctx, exe, lines, fail)
        return "proof"
    m_out = None
    if model_ok:
        m_out, mfail = run_parts(mexe, lines)
        if mfail is not None:
            ctx.obligation_broken("model driver xzm_c02 failed to answer every functional op", str(mfail[2])[:2000])
            m_out = None
    mism = func_viol = 0
    rets = {}
    broken_ops = set()
    for i, ln in enumerate(lines):
        co = c_out[i]
        opn = ln.split(" ", 1)[0]
        if opn not in NO_RET_OPS:
            first = opn + ":" + (co.split(" ")[0] if co else "?")
            rets[first] = rets.get(first, 0) + 1
        ctx.case(ln, nontrivial=True, sample={"op": ln[:200], "impl": co[:200]} if i % 1499 == 0 else None)
        if co == "bad-op":
            ctx.obligation_broken("generator produced an op the harness rejects", ln[:300])
            break
        if m_out is not None and m_out[i] != co:
            if opn == "idxdec" and co == "5" and huge_index_count(ln):
                # lzma_index_append could not allocate the group for a declared Record count of millions (allocation
                # failure is outside the model; the model assumes the allocator succeeds)
                ctx.count("skipped:idxdec-allocation-failure")
                continue
            mism += 1
            why = judge_func(ln, co) if (opn in ENCODER_OPS and func_viol < 4) else None
            rep = {"op": ln, "impl": co[:5000], "model": (m_out[i] or "")[:5000]}   # the op is kept whole: --replay re-runs it
            if why:
                func_viol += 1
                rep["kind"] = "an encoder-side function of the implementation produced bytes that violate the format: " + why
                rep["how_to_replay"] = "echo '<op>' | .cache/harness-asan/c02"
                ctx.violation("func-" + opn, rep, True)
            elif opn not in broken_ops:
                broken_ops.add(opn)
                ctx.obligation_broken("correspondence C02: model and implementation disagree on `%s`" % opn, json.dumps(rep))
    for k, v in sorted(rets.items()):
        ctx.count("func-ret:" + k, v)
    ctx.cov["correspondence"] = {"functional_ops": len(lines), "functional_mismatches": mism, "model_ran": m_out is not None}

    # ---------------- K (relational) ----------------
    cases = gen_rel(ctx) + gen_upd(ctx)
    rlines = [c["line"] for c in cases]
    r_out, fail = run_parts(exe, rlines, [c["weight"] for c in cases])
    if fail is not None:
        find_abort(ctx, exe, rlines, fail)
        return "proof"
    vlines, vidx = [], []
    rel_bad = 0
    for i, c in enumerate(cases):
        ctx.count("rel:" + c["api"] + (":" + c["mode"] if c["api"] == "upd" else ""))
        ctx.count("rel-check:%d" % c["check"])
        ctx.count("rel-size:" + ("0" if not c["data"] else "<64K" if len(c["data"]) < 65536 else "<2M" if len(c["data"]) < (1 << 21) else ">=2M"))
        t = (r_out[i] or "").split(" ")
        desc = c["line"][:60] + "#%d" % len(c["data"])
        ctx.case(c["line"][:40] + str(hash(c["line"])), nontrivial=len(c["data"]) > 0,
                 sample={"op": c["line"][:120] + "...", "impl": " ".join(t)[:120]} if i % 97 == 0 else None)

        def viol(kind, extra=None):
            nonlocal rel_bad
            rel_bad += 1
            if rel_bad <= 4:
                rep = {"kind": kind, "op": c["line"], "impl_ret": t[0], "how_to_replay": "echo '<op>' | .cache/harness-asan/c02 ; judge with tools/c02lib.py parse_xz"}
                if extra:
                    rep.update(extra)
                ctx.violation("rel-" + c["api"], rep, True)

        if t[0] != "0":
            viol("encoder returned lzma_ret %s on a valid configuration" % t[0])
            continue
        out = unhex(t[1])
        c["out"] = out
        if t[2] != "ok":
            viol("the C decoder does not give the input back from the encoder's output: " + t[2])
            continue
        if c["api"] == "alone":
            st, summ = L.parse_alone(out)
            c["py"] = (st, summ)
            if st != "ok" or not summ.endswith("usize=%d" % U64):
                viol(".lzma header invalid: " + summ)
                continue
            w = second_decoder(out, c["data"], "alone")
            if w:
                viol(w)
                continue
            vlines.append("valalone " + hexs(out[:64]))
        elif c["api"] in ("bbe", "bue"):
            st, summ, info = L.parse_lone_block(out, c["check"], c["data"])
            c["py"] = (st, summ)
            if st != "ok":
                viol("Block produced by the encoder is not valid / metadata untruthful: " + summ)
                continue
            if [info["hs"], info["cs"], info["us"]] != [int(x) for x in t[3:6]]:
                viol("lzma_block fields after encoding differ from the real sizes", {"lzma_block": t[3:6], "measured": summ})
                continue
            if not chain_matches(info, c["ids"]) or not (info["has_cs"] and info["has_us"]):
                viol("Block Header filters/size fields differ from the configuration: " + summ)
                continue
            vlines.append("valblock %d %s %s" % (c["check"], hexs(c["data"]), hexs(out)))
        else:
            st, summ, blocks = L.parse_xz(out, c["check"], c["data"])
            c["py"] = (st, summ)
            if st != "ok":
                viol("Stream produced by the encoder is not valid / metadata untruthful: " + summ)
                continue
            if c["api"] == "upd":
                why = judge_upd(c, t[3], blocks, out)
                if why:
                    viol("after lzma_filters_update(): " + why, {"events": t[3], "measured": summ})
                    continue
                c["py"] = (st, summ + " props=" + L.show_chunk_props(L.stream_chunk_props(out, c["check"])))
                ctx.count("rel-upd-events:" + ("1" if t[3].count(",") == 0 else "2-4" if t[3].count(",") < 4 else ">=5"))
            elif any(not chain_matches(b, c["ids"]) for b in blocks):
                viol("Block Header filter chain differs from the configuration: " + summ)
                continue
            if (c["api"] == "mt" or c.get("mode") == "mt") and not all(b["has_cs"] and b["has_us"] for b in blocks):
                viol("threaded encoder left a size field out of a Block Header: " + summ)
                continue
            w = second_decoder(out, c["data"], "xz")
            if w:
                viol(w)
                continue
            ctx.count("rel-blocks:" + ("0" if not blocks else "1" if len(blocks) == 1 else "2-9" if len(blocks) < 10 else ">=10"))
            vlines.append("%s %d %s %s" % ("valxzp" if c["api"] == "upd" else "valxz", c["check"], hexs(c["data"]), hexs(out)))
        vidx.append(i)
    rel_model_mism = 0
    if model_ok and vlines:
        v_out, vfail = run_parts(mexe, vlines, [len(v) for v in vlines])
        if vfail is not None:
            ctx.obligation_broken("model driver xzm_c02 failed on a validation op", str(vfail[2])[:2000])
        else:
            for i, vo in zip(vidx, v_out):
                c = cases[i]
                if vo != c["py"][1]:
                    rel_model_mism += 1
                    if rel_model_mism <= 3:
                        if vo.startswith("bad "):
                            ctx.violation("rel-model-" + c["api"], {"kind": "the Lean structural validator rejects bytes produced by the encoder: " + vo,
                                                                    "op": c["line"], "python_parser": c["py"][1]}, True)
                        else:
                            ctx.obligation_broken("correspondence C02: Lean validator and Python parser measure different structures",
                                                  json.dumps({"op": c["line"][:2000], "lean": vo, "python": c["py"][1]}))
    ctx.cov["correspondence"].update({"relational_cases": len(cases), "relational_failures": rel_bad,
                                      "validated_by_model": len(vlines) if model_ok else 0, "model_vs_python_mismatches": rel_model_mism})

    # ---------------- K (container-encoder tie: Model/XzEncode.lean reassembles the C output) ----------------
    if model_ok and vidx:
        run_tie(ctx, exe, mexe, cases, vidx)

    # ---------------- K (reused handles; several files in one xz process) ----------------
    if not run_reuse(ctx, exe, mexe, model_ok, len(cases)):
        return "proof"
    run_cli(ctx, mexe, model_ok)

    # ---------------- K (bound guarantee) ----------------
    blines = gen_bound_cases(ctx)
    b_out, fail = run_parts(exe, blines, [int(b.split()[3]) + 50000 for b in blines])
    if fail is not None:
        find_abort(ctx, exe, blines, fail)
        return "proof"
    bbad = 0
    for ln, o in zip(blines, b_out):
        ctx.count("xbound:" + ln.split()[1])
        ctx.case(ln, nontrivial=int(ln.split()[3]) > 0)
        t = (o or "").split(" ")
        if t[0] == "nobound":
            continue
        if t[0] != "0" or t[-1] != "ok" or int(t[2]) > int(t[1]):
            bbad += 1
            if bbad <= 3:
                what = "LZMA_BUF_ERROR with out_size = bound(n)" if t[0] == "10" else "ret=%s roundtrip=%s" % (t[0], t[-1])
                ctx.violation("bound", {"kind": "single-call encoder given exactly the bound: " + what, "op": ln, "impl": o,
                                        "how_to_replay": "echo '<op>' | .cache/harness-asan/c02   (columns: ret bound out_len roundtrip)"}, True)
    ctx.cov["correspondence"].update({"bound_cases": len(blines), "bound_failures": bbad})

    # ---------------- S ----------------
    if ctx.broken and not any(fi for _, fi in ctx.violations):
        # Some obligation or correspondence broke but nothing above pinned a failing input: judge every encoder-side
        # answer of the implementation with the Python reference alone (no Lean involved).
        bad = 0
        for ln, co in zip(lines, c_out):
            if ln.split()[0] in ENCODER_OPS:
                why = judge_func(ln, co)
                if why:
                    bad += 1
                    if bad <= 3:
                        ctx.violation("search-" + ln.split()[0], {"kind": "search stage (Python oracle): " + why, "op": ln, "impl": co[:5000],
                                                                 "how_to_replay": "echo '<op>' | .cache/harness-asan/c02"}, True)
        ctx.cov["search"] = {"encoder_ops_judged_by_python": sum(1 for ln in lines if ln.split()[0] in ENCODER_OPS), "failing": bad,
                             "relational_cases_judged_by_python": len(cases), "bound_cases": len(blines)}
    return "proof"


def replay(ctx, path):
    import replaylib
    r = replaylib.load(ctx, path)
    if "op" not in r:
        return replaylib.obligations("C02", run, r, path)
    exe = build(ctx)
    if exe is None:
        return 2
    rc, out, err = vlib.run_lines([exe], [r["op"]])
    print("op:", r["op"][:300])
    print("impl:", (out[0][:300] if out else None), "rc", rc)
    op = r["op"].split()[0]
    if rc != 0 or not out:
        print(err[-2000:])
        print("VIOLATION property=C02 replay=%s" % path)
        return 1
    bad = None
    t = out[0].split(" ")
    if op in ENCODER_OPS:
        bad = judge_func(r["op"], out[0])
    elif op == "xbound":
        bad = None if (t[0] == "0" and t[-1] == "ok") else "ret=%s" % t[0]
    elif op == "reuse":
        toks = r["op"].split()
        data = unhex(toks[2])
        specs = " ".join(toks[3:]).split(" / ")
        for j, (sp, tk) in enumerate(zip(specs, t)):
            f, q = tk.split(":", 4), sp.split()[0].split(":")
            if q[5] != "f":
                continue
            if f[1] != "0" or f[2] != "0" or f[4] != "ok":
                bad = "encoding #%d: init=%s ret=%s rt=%s" % (j + 1, f[1], f[2], f[4])
                break
            if q[0] in ("st", "easy", "mt"):
                st_, summ, _ = L.parse_xz(unhex(f[3]), int(q[1]), data[:len(data) * int(q[6]) // 100])
                if st_ != "ok":
                    bad = "encoding #%d: %s" % (j + 1, summ)
                    break
    elif op in ("easy", "sbe", "strm", "mt", "upd"):
        toks = r["op"].split()
        hexpos = {"easy": 4, "sbe": 3, "strm": 4, "mt": 6, "upd": 7}[op]
        data = unhex(toks[hexpos])
        check = int(toks[2] if op in ("easy", "upd") else toks[1])
        if t[0] != "0" or t[2] != "ok":
            bad = "ret=%s rt=%s" % (t[0], t[2])
        else:
            st, summ, _ = L.parse_xz(unhex(t[1]), check, data)
            bad = None if st == "ok" else summ
    elif op in ("bbe", "bue"):
        toks = r["op"].split()
        data, check = unhex(toks[3]), int(toks[1])
        if t[0] != "0" or t[2] != "ok":
            bad = "ret=%s rt=%s" % (t[0], t[2])
        else:
            st, summ, info = L.parse_lone_block(unhex(t[1]), check, data)
            bad = None if st == "ok" and [info["hs"], info["cs"], info["us"]] == [int(x) for x in t[3:6]] else summ
    elif op == "alone":
        bad = None if t[0] == "0" and t[2] == "ok" and L.parse_alone(unhex(t[1]))[0] == "ok" else "ret=%s" % t[0]
    if bad:
        print("still failing:", bad)
        print("VIOLATION property=C02 replay=%s" % path)
        return 1
    print("replay passes")
    return 0
