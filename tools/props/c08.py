"""C08 — threaded compression is correct, ordered and live under every schedule.

Stages: P  Lean: Model/MtEnc.lean (labelled transition system of stream_encoder_mt.c at critical-section granularity),
           Props/C08.lean (invariants, order, output, flush/barrier, progress, deadlock freedom, wake-ups, re-init/end safety)
           incl. the abstract Block encoder instantiated with the container + LZMA2 encoder models (Lemmas/MtEncJ,K):
           mtenc_output_decodes_std = end-to-end round trip through xzDecode stdEnv via C01E2E (imports Props/C01EndToEndAll)
        B  ASan+UBSan build of /repo, harness c08s (controlled scheduler harness/vsched.c) and c08 (real scheduling with a seeded
           perturbation layer); thorough: the same under ThreadSanitizer
        K  (1) DIRECT ORACLE on the real code, independent of Lean (see harness/c08_main.c): one valid Stream, Blocks in input
               order, decodes to the input, bytes identical to threads=1, FULL_FLUSH/FULL_BARRIER semantics, progress bounds,
               return-code protocol, no deadlock (scheduler verdict / watchdog), sanitizer clean incl. early lzma_end + re-init;
           (2) Python re-check of dumped outputs with an independent parser + the system liblzma (python `lzma`);
           (3) trace inclusion: protocol events emitted through hook H3 (hooks/h3-mtenc.patch, if applied to the tree)
               must be accepted by the model driver xzm_c08 (MtEnc.accepts).
        S  if P or (3) broke: the direct oracle is the search; a failing scenario line is the replay.
"""
import json, os, re, struct, zlib, lzma, time, hashlib
import vlib
try:
    import schedlib
except Exception:            # pragma: no cover
    schedlib = None

META = {
    "category": "proof",
    "text": "Lean: labelled transition system of the threaded .xz encoder (main thread, workers IDLE/RUN/FINISH/STOP/EXIT, ordered output "
            "queue, Index, progress counters, re-init, lzma_end) with invariants proved over all reachable states = all schedules: Blocks "
            "leave the queue in input order and the Index lists exactly the finished Blocks in order; at STREAM_END the output is header ++ "
            "encoded chunks ++ index ++ footer with chunks cut only at block_size / flush points (hence independent of thread count and "
            "schedule); FULL_FLUSH/FULL_BARRIER return conditions; reported progress <= true totals, = at the end; no reachable deadlock; "
            "every state change a waiter depends on is signalled under the waiter's mutex. Tie to the C code: direct oracle on the real "
            "lzma_stream_encoder_mt under a controlled thread scheduler (seeded, replayable, deadlock-detecting) and under real scheduling "
            "(ASan/UBSan, TSan in the thorough tier), plus event-trace inclusion in the model through hook H3.",
    "note": "Trusted: Lean kernel; the pthread semantics assumed by harness/vsched.c and by the model (mutual exclusion, atomic release on "
            "wait, signal wakes >= 1 waiter, spurious wake-ups, timed waits may expire any time); the single-threaded decoders of the same "
            "liblzma used as decode oracle (cross-checked on a subset by python's system liblzma and an independent container parser); data "
            "races and memory safety are observed (TSan/ASan), not proved. Block encoding is abstract in the model (encodeBlock with a "
            "decode inverse as hypothesis, C01/C02).",
    "technique": "Lean 4 LTS + invariant induction; controlled-scheduler differential oracle; trace inclusion",
}

WRAP_PERT = ["-Wl,--wrap=" + s for s in "pthread_mutex_lock pthread_mutex_unlock pthread_cond_wait pthread_cond_timedwait "
             "pthread_cond_signal pthread_create pthread_join".split()]
TU = "src/liblzma/common/stream_encoder_mt.c"
CHECKS = (0, 1, 4, 10)
CHECK_SIZE = {0: 0, 1: 4, 4: 8, 10: 32}


# ---------------------------------------------------------------------------------------------------------------------
# scenario generation
# ---------------------------------------------------------------------------------------------------------------------

def gen_segments(rng, n, bs, rich):
    """Random action sequence over n input bytes; last segment is FINISH. Returns the g<...> string and action letters used."""
    if not rich or n == 0:
        k = 1
    else:
        k = rng.choice((1, 2, 2, 3, 3, 4, 5, 7))
    cuts = set()
    for _ in range(k - 1):
        r = rng.random()
        if r < 0.35 and bs <= n:      # at / next to a multiple of block_size
            c = bs * rng.randrange(0, n // bs + 1) + rng.choice((-1, 0, 0, 1))
        elif r < 0.45:
            c = rng.choice((0, n))
        else:
            c = rng.randrange(0, n + 1)
        cuts.add(min(max(c, 0), n))
    pts = sorted(cuts) + [n]
    if rich and rng.random() < 0.25:    # zero-length segments (flush with nothing pending)
        pts.insert(rng.randrange(len(pts)), pts[rng.randrange(len(pts))])
        pts.sort()
    segs, prev, acts = [], 0, []
    for i, p in enumerate(pts):
        last = i == len(pts) - 1
        a = "F" if last else rng.choice("rrfffbbb")
        s = "%d%s" % (p - prev, a)
        if not last and rng.random() < 0.45:
            s += "u%d" % rng.choice((0, 2, 3, 4, 6))
        segs.append(s)
        acts.append(a)
        prev = p
    return ";".join(segs), acts


def gen_stream(rng, quick, threads=None, bs=None, abort=None, n=None, kind=None, rich=True, big=False, fault=None, timeout=None):
    threads = threads or rng.choice((1, 2, 2, 3, 4, 4, 5, 6, 7, 8))
    if n is None:
        r = rng.random()
        if r < 0.06:
            n = 0
        elif r < 0.3:
            n = rng.randrange(1, 300)
        elif r < 0.8:
            n = rng.randrange(300, 40000)
        else:
            n = rng.randrange(40000, 140000 if quick else 600000)
    if bs is None:
        r = rng.random()
        if r < 0.15:
            bs = max(1, n) + rng.choice((0, 1, 7, 5000))                # one Block (block_size >= input)
        elif r < 0.25:
            bs = max(1, n // rng.choice((1, 2, 3, 4)))                  # input is an exact multiple / near it
        elif r < 0.35:
            bs = rng.randrange(1, 64)                                   # tiny Blocks
        else:
            bs = rng.choice((256, 1000, 4096, 8192, 16384, 20000, 65536, 100000))
        while n // bs > (250 if quick else 900):
            bs *= 4
    kind = rng.choice((0, 1, 1, 2, 3, 3, 4)) if kind is None else kind
    flt = rng.choice((0, 0, 0, 1, 2, 3, 4, 6, 7)) if not big else rng.choice((1, 5))
    g, acts = gen_segments(rng, n, bs, rich)
    x = -1 if abort is None else abort
    if fault is None and rng.random() < 0.10:          # allocation failure in a worker / in the main thread
        fault = rng.choice(("a%d" % rng.choice((1, 2, 3, 5, 8, 13, 30)), "a%d,w%d" % (rng.randrange(1, 9), rng.choice((200, 2000))),
                            "A%d" % rng.randrange(1, 25)))
    tok = "S:t%d,b%d,o%d,c%d,f%d,k%d,n%d,d%d,s%d,x%d,%sg%s" % (
        threads, bs, rng.choice((0, 0, 0, 1, 1, 50)) if timeout is None else timeout, rng.choice(CHECKS), flt, kind, n, rng.randrange(1, 1 << 30),
        rng.randrange(1, 1 << 30), x, (fault + ",") if fault else "", g)
    return tok, dict(threads=threads, bs=bs, n=n, kind=kind, acts=acts, abort=x, flt=flt, fault=fault or "")


def sched_token(rng):
    r = rng.random()
    seed = rng.randrange(1, 1 << 40)
    pt = rng.choice((0, 8, 32, 32, 120))
    ps = rng.choice((0, 4, 4, 16))
    if r < 0.45:
        return "sched=1:%d:%d:3:2000:%d:%d" % (seed, rng.choice((0, 0, 128, 220)), pt, ps), "random"
    if r < 0.85:
        return "sched=2:%d:0:%d:%d:%d:%d" % (seed, rng.choice((2, 3, 4, 6)), rng.choice((100, 300, 800, 2500)), pt, ps), "pct"
    return "sched=3:%d:0:3:2000:%d:%d" % (seed, pt, ps), "nopreempt"


def pert_token(rng):
    m = rng.choice((0, 1, 1, 2, 3))
    return "pert=%d:%d:%d" % (m, rng.randrange(1, 1 << 30), rng.choice((100, 500, 2000))), "pert%d" % m


def gen_scenarios(ctx, count, controlled, tag):
    """Returns list of (line, info). `controlled`: use the vsched harness tokens, else the perturbation tokens."""
    rng, quick = ctx.rng, ctx.quick()
    out = []
    for i in range(count):
        r = rng.random()
        streams, infos = [], []
        if r < 0.45:
            cat = "single"
            t, inf = gen_stream(rng, quick)
            streams.append(t); infos.append(inf)
        elif r < 0.60:
            cat = "early-end"
            t, inf = gen_stream(rng, quick, abort=rng.choice((0, 1, 2, 3, 5, 8, 13, 30)))
            streams.append(t); infos.append(inf)
        else:
            cat = "reinit"
            ns = rng.choice((2, 2, 3, 4))
            th = rng.choice((1, 2, 3, 4, 8))
            for j in range(ns):
                same = rng.random() < 0.6
                th = th if same else rng.choice((1, 2, 3, 4, 5, 8))
                ab = None
                if j < ns - 1 or rng.random() < 0.2:
                    ab = rng.choice((None, 0, 1, 2, 3, 4, 6, 9, 14)) if rng.random() < 0.75 else None
                t, inf = gen_stream(rng, quick, threads=th, abort=ab, n=rng.randrange(0, 60000) if rng.random() < 0.9 else None)
                streams.append(t); infos.append(inf)
        st, sname = sched_token(rng) if controlled else pert_token(rng)
        extra = ""
        dump = sum(x["n"] for x in infos) <= 30000 and rng.random() < 0.25
        if dump:
            extra = " dump=1"
        line = "scn %s%d wd=90 %s%s %s" % (tag, i, st, extra, " ".join(streams))
        out.append((line, dict(cat=cat, sched=sname, streams=infos, dump=dump)))
    return out


def fault_scenarios(ctx, controlled, tag):
    """Allocation failures inside worker threads (Block encoder initialisation) and in the main thread (get_thread, Index):
    the stream must end with LZMA_MEM_ERROR and never hang. The first shape is the one that needs thread_error in the wait
    predicate of wait_for_work(): all input handed over with FINISH / FULL_FLUSH, timeout 0, then the worker fails."""
    rng = ctx.rng
    out = []
    n1 = 60 if ctx.quick() else 300
    for i in range(n1):
        th = rng.choice((1, 1, 2, 3, 4))
        bs = rng.choice((4096, 8192, 65536))
        n = rng.randrange(1, bs)                      # a single Block, handed over completely before the worker can fail
        act = rng.choice(("F", "F", "f"))
        g = "%d%s" % (n, act) if act == "F" else "%df;0F" % n
        fault = "a%d" % rng.randrange(1, 7)
        if not controlled and rng.random() < 0.5:
            fault += ",w%d" % rng.choice((200, 1000, 5000))
        streams = ["S:t%d,b%d,o0,c%d,f%d,k%d,n%d,d%d,s%d,x-1,%s,g%s" % (th, bs, rng.choice(CHECKS), rng.choice((0, 1, 2, 4)), rng.choice((0, 1, 3)), n,
                                                                      rng.randrange(1, 1 << 30), rng.randrange(1, 1 << 30), fault, g)]
        infos = [dict(threads=th, bs=bs, n=n, kind=1, acts=[act], abort=-1, flt=0, fault=fault)]
        if rng.random() < 0.5:                         # the handle must be reusable after the error
            t2, i2 = gen_stream(rng, True, threads=rng.choice((th, 2)), n=rng.randrange(0, 20000), fault="")
            streams.append(t2); infos.append(i2)
        st, sname = sched_token(rng) if controlled else pert_token(rng)
        out.append(("scn %sw%d wd=60 %s %s" % (tag, i, st, " ".join(streams)), dict(cat="fault-worker-after-handover", sched=sname, streams=infos, dump=False)))
    for i in range(n1):
        ns = rng.choice((1, 1, 2))
        streams, infos = [], []
        for j in range(ns):
            fault = rng.choice(("a%d" % rng.randrange(1, 40), "A%d" % rng.randrange(1, 40), "a%d" % rng.randrange(1, 10)))
            t, inf = gen_stream(rng, True, n=rng.randrange(1, 60000), fault=fault if (j == 0 or rng.random() < 0.5) else "",
                                abort=None if rng.random() < 0.8 else rng.choice((1, 3, 6)), timeout=rng.choice((0, 0, 1)))
            streams.append(t); infos.append(inf)
        st, sname = sched_token(rng) if controlled else pert_token(rng)
        out.append(("scn %sf%d wd=60 %s %s" % (tag, i, st, " ".join(streams)), dict(cat="fault-any", sched=sname, streams=infos, dump=False)))
    return out


def regression_scenarios(ctx, controlled, tag):
    """The three re-init defects found by this check on the original tree (fixed in /repo by dc2da90): always exercised.
    (a) progress over-report / stale worker tail, (b) larger block_size with reused workers, (c) worker lost on re-init."""
    rng = ctx.rng
    out = []
    n_a = 40 if ctx.quick() else 200
    for i in range(n_a):      # (a): abandon mid-Block, same thread count, same or smaller block size
        th = rng.choice((1, 2, 3, 4))
        st, sname = sched_token(rng) if controlled else pert_token(rng)
        line = "scn %sa%d %s S:t%d,b4096,o0,c4,f0,k%d,n40000,d7,s%d,x%d,g40000F S:t%d,b%d,o0,c4,f0,k1,n20000,d7,s3,x-1,g20000F" % (
            tag, i, st, th, rng.choice((0, 1)), rng.randrange(1, 1 << 20), rng.randrange(1, 14), th, rng.choice((4096, 2048)))
        out.append((line, dict(cat="regress-reinit-a", sched=sname, streams=[dict(threads=th, bs=4096, n=40000, kind=0, acts=["F"], abort=1, flt=0),
                                                                               dict(threads=th, bs=4096, n=20000, kind=1, acts=["F"], abort=-1, flt=0)], dump=False)))
    for i in range(6 if ctx.quick() else 20):       # (b): completed stream, then same threads with a larger block size
        th = rng.choice((1, 2, 4))
        st, sname = sched_token(rng) if controlled else pert_token(rng)
        line = "scn %sb%d %s S:t%d,b4096,o0,c1,f0,k1,n%d,d3,s%d,x-1,g%dF S:t%d,b65536,o0,c1,f0,k3,n150000,d4,s5,x-1,g150000F" % (
            tag, i, st, th, 4096 * th, rng.randrange(1, 1 << 20), 4096 * th, th)
        out.append((line, dict(cat="regress-reinit-b", sched=sname, streams=[dict(threads=th, bs=4096, n=4096 * th, kind=1, acts=["F"], abort=-1, flt=0),
                                                                               dict(threads=th, bs=65536, n=150000, kind=3, acts=["F"], abort=-1, flt=0)], dump=False)))
    for i in range(12 if ctx.quick() else 40):      # (c): re-init right after the hand-off of a Block
        th = rng.choice((1, 1, 2))
        if controlled:
            st, sname = "sched=3:%d:0:3:2000:0:0" % rng.randrange(1, 1 << 30), "nopreempt"
        else:
            st, sname = "pert=0:1:0", "pert0"
        line = "scn %sc%d wd=60 %s S:t%d,b4096,o0,c4,f0,k1,n100,d7,s%d,x1,g100r;0F S:t%d,b4096,o0,c4,f0,k1,n20000,d7,s3,x-1,g20000F" % (
            tag, i, st, th, rng.randrange(1, 1 << 20), th)
        out.append((line, dict(cat="regress-reinit-c", sched=sname, streams=[dict(threads=th, bs=4096, n=100, kind=1, acts=["r", "F"], abort=1, flt=0),
                                                                               dict(threads=th, bs=4096, n=20000, kind=1, acts=["F"], abort=-1, flt=0)], dump=False)))
    return out


# ---------------------------------------------------------------------------------------------------------------------
# running scenario lines (a crash / deadlock verdict ends the process: blame the first unanswered line, continue)
# ---------------------------------------------------------------------------------------------------------------------

def fallback_scenarios(ctx, tag):
    """Thorough tier only: Blocks of 20 MiB of incompressible data make the LZMA2 encoder fill the whole output buffer, which is
    the only way to reach the incompressible fallback of worker_encode() (wait for the whole input, lzma_block_uncomp_encode)."""
    rng = ctx.rng
    bs = 20 * 1024 * 1024
    out = []
    shapes = [
        ("t2", "n25000000", "g25000000F", -1),                     # fallback Block + a normal one
        ("t1", "n%d" % bs, "g%dF" % bs, -1),                       # exactly one Block
        ("t3", "n%d" % (bs + 70000), "g%db;70000F" % bs, -1),      # FULL_BARRIER exactly at the end of the fallback Block
        ("t2", "n30000000", "g30000000F", rng.randrange(20, 120)),  # abandoned while the fallback worker waits for the whole input
    ]
    for i, (t, n, g, x) in enumerate(shapes):
        streams = ["S:%s,b%d,o%d,c%d,f1,k0,%s,d%d,s%d,x%d,z64,%s" % (t, bs, rng.choice((0, 50)), rng.choice(CHECKS), n, rng.randrange(1, 1 << 30),
                                                                     rng.randrange(1, 1 << 30), x, g)]
        if x >= 0:
            streams.append("S:t2,b4096,o0,c4,f0,k1,n20000,d7,s3,x-1,g20000F")
        line = "scn %s%d wd=900 pert=%d:%d:300 %s" % (tag, i, rng.choice((0, 1)), rng.randrange(1, 1 << 30), " ".join(streams))
        out.append((line, dict(cat="fallback-20MiB", sched="pert", streams=[dict(threads=int(t[1:]), bs=bs, n=int(n[1:]), kind=0, acts=["F"], abort=x, flt=1)], dump=False)))
    return out


def run_lines_resilient(exe, lines, env=None, timeout=1500, max_deaths=3):
    """Returns one (kind, text, stderr) per line; kind in ok/FAIL/DEADLOCK/CRASH/bad-op. After `max_deaths` process deaths
    (crash / deadlock verdict / watchdog) the remaining lines are not run (None): the property is already refuted and every
    further hang would cost a full watchdog period."""
    results = [None] * len(lines)
    start = 0
    deaths = 0
    while start < len(lines):
        if deaths >= max_deaths:
            break
        rc, out, err = vlib.run_lines([exe], lines[start:], timeout=timeout, env=env)
        answers = [o for o in out if o.startswith(("ok ", "FAIL ", "DEADLOCK ")) or o == "bad-op"]
        k = 0
        for o in answers:
            if start + k >= len(lines):
                break
            kind = o.split(" ", 1)[0]
            results[start + k] = (kind, o, err if kind != "ok" else "")
            k += 1
        if start + k >= len(lines):
            if rc != 0 and results[-1][0] == "ok":      # report at process end (LeakSanitizer, TSan exit code)
                results[-1] = ("CRASH", "rc=%d at process end" % rc, err)
            break
        deaths += 1
        if k > 0 and results[start + k - 1][0] == "DEADLOCK":   # the watchdog answered for that line and exited
            start += k
            continue
        results[start + k] = ("CRASH", "rc=%d" % rc, err)      # died while working on this line
        start += k + 1
    return results


# ---------------------------------------------------------------------------------------------------------------------
# independent container parser (python) for dumped outputs
# ---------------------------------------------------------------------------------------------------------------------

def vli(b, p):
    v, s = 0, 0
    while True:
        c = b[p]; p += 1
        v |= (c & 0x7F) << s
        s += 7
        if not c & 0x80:
            return v, p
        if s > 63:
            raise ValueError("vli too long")


def py_expected_cuts(bs, segs):
    cuts, cur = [], 0
    for ln, act in segs:
        n = ln
        while n > 0:
            take = min(n, bs - cur)
            cur += take; n -= take
            if cur == bs:
                cuts.append(cur); cur = 0
        if act != "r" and cur > 0:
            cuts.append(cur); cur = 0
    return cuts


def py_parse_xz(b):
    """Returns (check, [(unpadded, uncompressed)] from the Block Headers, [(unpadded, uncompressed)] from the Index). Raises on any malformation."""
    if b[:6] != b"\xfd7zXZ\x00":
        raise ValueError("bad magic")
    if b[6] != 0 or b[7] & 0xF0:
        raise ValueError("bad stream flags")
    check = b[7]
    if zlib.crc32(b[6:8]) != struct.unpack("<I", b[8:12])[0]:
        raise ValueError("header crc")
    csz = (0, 4, 4, 4, 8, 8, 8, 16, 16, 16, 32, 32, 32, 64, 64, 64)[check]
    p, blocks = 12, []
    while b[p] != 0:
        hs = (b[p] + 1) * 4
        hdr = b[p:p + hs]
        if zlib.crc32(hdr[:-4]) != struct.unpack("<I", hdr[-4:])[0]:
            raise ValueError("block header crc at %d" % p)
        flags = hdr[1]
        q = 2
        if not (flags & 0x40 and flags & 0x80):
            raise ValueError("block header without size fields at %d" % p)
        comp, q = vli(hdr, q)
        unc, q = vli(hdr, q)
        unp = hs + comp + csz
        blocks.append((unp, unc))
        p += (unp + 3) & ~3
    istart = p
    p += 1
    cnt, p = vli(b, p)
    recs = []
    for _ in range(cnt):
        u, p = vli(b, p)
        v, p = vli(b, p)
        recs.append((u, v))
    while (p - istart) % 4:
        if b[p] != 0:
            raise ValueError("index padding")
        p += 1
    if zlib.crc32(b[istart:p]) != struct.unpack("<I", b[p:p + 4])[0]:
        raise ValueError("index crc")
    p += 4
    ft = b[p:p + 12]
    if len(b) != p + 12:
        raise ValueError("trailing bytes or truncated footer")
    if ft[10:12] != b"YZ" or ft[8:10] != b[6:8]:
        raise ValueError("footer magic/flags")
    if zlib.crc32(ft[4:10]) != struct.unpack("<I", ft[0:4])[0]:
        raise ValueError("footer crc")
    if (struct.unpack("<I", ft[4:8])[0] + 1) * 4 != p - istart:
        raise ValueError("backward size")
    return check, blocks, recs


def py_check_dump(line, outline):
    """Independent re-check of dumped (input, output) pairs. Returns None or an error string."""
    toks = outline.split()
    d = {}
    for t in toks:
        if "=" in t:
            k, v = t.split("=", 1)
            d[k] = v
    streams = [t for t in line.split() if t.startswith("S:")]
    for i, s in enumerate(streams):
        if ("dout%d" % i) not in d:
            continue
        hx = lambda v: b"" if v == "-" else bytes.fromhex(v)
        din, dout = hx(d["din%d" % i]), hx(d["dout%d" % i])
        f = dict((x[0], x[1:]) for x in s[2:].split(",") if x[0] != "g")
        g = s[s.index(",g") + 2:]
        segs = [(int(m.group(1)), m.group(2)) for m in re.finditer(r"(\d+)([rfbF])(?:u\d+)?", g)]
        try:
            check, blocks, recs = py_parse_xz(dout)
        except Exception as e:
            return "stream %d: python parser rejects the output: %r" % (i, e)
        if check != int(f["c"]):
            return "stream %d: check id %d, expected %s" % (i, check, f["c"])
        if blocks != recs:
            return "stream %d: Index Records differ from the Block Headers" % i
        exp = py_expected_cuts(int(f["b"]), segs)
        if [u for _, u in blocks] != exp:
            return "stream %d: Block uncompressed sizes %r, expected cuts %r" % (i, [u for _, u in blocks][:20], exp[:20])
        try:
            dec = lzma.LZMADecompressor(format=lzma.FORMAT_XZ)
            got = dec.decompress(dout)
            if not dec.eof or dec.unused_data:
                return "stream %d: system liblzma: not a single complete Stream" % i
        except Exception as e:
            return "stream %d: system liblzma rejects the output: %r" % (i, e)
        if got != din:
            return "stream %d: system liblzma decodes to different data" % i
    return None


# ---------------------------------------------------------------------------------------------------------------------
# the check
# ---------------------------------------------------------------------------------------------------------------------

def stage_g(ctx):
    """Regenerate lean/XzVerif/Gen/C08.lean from the source: `in_chunk_max` of worker_encode() is a function-local
    `static const size_t`, unreachable for a compiled probe, so it is cut out of the source text."""
    try:
        src = open(os.path.join(vlib.REPO, TU)).read()
    except Exception as e:
        return False, "cannot read %s: %r" % (TU, e)
    m = re.findall(r"static\s+const\s+size_t\s+in_chunk_max\s*=\s*(\d+)\s*;", src)
    if len(m) != 1:
        return False, "expected exactly one `static const size_t in_chunk_max = <decimal>;` in %s, found %d" % (TU, len(m))
    body = ("/- REGENERATED by tools/props/c08.py (stage G) from src/liblzma/common/stream_encoder_mt.c. Do not edit. -/\n"
            "namespace XzVerif.Gen.C08\n\n"
            "/-- `in_chunk_max` of worker_encode(): input bytes given to the Block encoder per critical section. -/\n"
            "def inChunkMax : Nat := %s\n\nend XzVerif.Gen.C08\n" % m[0])
    vlib.write_if_changed(vlib.module_path("XzVerif.Gen.C08"), body)
    return True, ""


def hook_applied():
    try:
        src = open(os.path.join(vlib.REPO, TU)).read()
    except Exception:
        return False
    return "lzma_verif_mtenc_event" in src


def build_harness(ctx, variant, events):
    extra_s = ["-DC08_USE_VSCHED"] + (["-DC08_EVENTS"] if events else [])
    extra_p = ["-DC08_EVENTS"] if events else []
    srcs_ev = ["c08_events.c"] if events else []
    ok1, log1, exe_s = vlib.harness_build("c08s", ["c08_main.c", "vsched.c"] + srcs_ev, variant=variant, tu=TU,
                                          libs=schedlib.WRAP_LDFLAGS, extra=extra_s)
    ok2, log2, exe_p = vlib.harness_build("c08", ["c08_main.c", "c08_pert.c"] + srcs_ev, variant=variant, tu=TU, libs=WRAP_PERT, extra=extra_p)
    return ok1 and ok2, log1 + log2, exe_s, exe_p


def classify_and_report(ctx, line, info, res, variant, exe):
    """res = (kind, text, stderr). Records evidence; reports a violation for anything but ok."""
    kind, text, err = res
    if kind == "ok":
        return True
    verdict = schedlib.classify(0, err) if schedlib and err else None
    if kind == "CRASH" and verdict is None:
        m = re.search(r"rc=(\d+)", text)
        verdict = schedlib.classify(int(m.group(1)), err) if (m and schedlib) else None
    what = {"FAIL": "property oracle failed", "DEADLOCK": "deadlock (watchdog: no completion within the limit)",
            "CRASH": "harness process died (sanitizer report / assertion / scheduler verdict)", "bad-op": "harness rejected the op line"}.get(kind, kind)
    if verdict:
        what = "controlled scheduler verdict: " + verdict
    tsan = "ThreadSanitizer" in err
    tag = "tsan-report" if tsan else (verdict or kind.lower())
    m = re.search(r"code=(\S+)", text)
    if m:
        tag = m.group(1)
    key = None
    if tsan and re.search(r"stream_encoder_mt\.c:\d+ in stream_encoder_mt_init", err) and re.search(r"in worker_encode ", err):
        # findings/C08-F8.md: "Basic initializations" of stream_encoder_mt_init() run before the old workers are joined
        key = "C08:tsan-race:reinit-fields-before-join"
    ctx.violation(tag, {"kind": what, "op": line, "category": info["cat"], "harness": os.path.basename(exe), "variant": variant,
                        "result": text[:600], "stderr": err[-3500:],
                        "how_to_replay": "./check C08 --replay <this file>   (or: echo '<op>' | %s ; controlled schedules are deterministic given the op line)" % exe}, True, key=key)
    ctx.count("result:" + tag, table="distribution")
    return False


def run_batch(ctx, exe, scen, variant, env=None, label=""):
    lines = [l for l, _ in scen]
    parts = vlib.chunks(list(range(len(lines))), vlib.NCPU * 2)
    t = time.time()
    res_parts = vlib.par_map(lambda idx: run_lines_resilient(exe, [lines[i] for i in idx], env=env), parts)
    results = [None] * len(lines)
    for idx, rp in zip(parts, res_parts):
        for i, r in zip(idx, rp):
            results[i] = r
    bad = 0
    agg = {}
    skipped = 0
    for (line, info), r in zip(scen, results):
        if r is None:
            skipped += 1
            continue
        ok = classify_and_report(ctx, line, info, r, variant, exe)
        nontrivial = any(s["n"] > 0 for s in info["streams"])
        sample = None
        if ok:
            for m in re.finditer(r"(\w+)=(\d{1,15})(?= |$)", re.sub(r" (d(in|out)\d+|hash|trace|id)=\S+", "", r[1])):
                agg[m.group(1)] = agg.get(m.group(1), 0) + int(m.group(2))
            if info["dump"]:
                e = py_check_dump(line, r[1])
                ctx.count("python-rechecked")
                if e:
                    ok = False
                    ctx.violation("python-recheck", {"kind": "independent python re-check of the dumped output failed", "op": line, "detail": e,
                                                     "harness": os.path.basename(exe), "variant": variant}, True)
            if ctx.cov["evaluations"] % 211 == 0:
                sample = {"op": line[:300], "result": re.sub(r" d(in|out)\d+=\S+", "", r[1])[:300]}
        else:
            bad += 1
        ctx.case(line, nontrivial=nontrivial, sample=sample)
        ctx.count("cat:" + info["cat"])
        ctx.count("sched:%s/%s" % (variant, info["sched"]))
        for s in info["streams"]:
            ctx.count("threads:%d" % s["threads"])
            ctx.count("input:" + ("empty" if s["n"] == 0 else "<block_size" if s["n"] < s["bs"] else "=k*block_size" if s["n"] % s["bs"] == 0 else ">block_size"))
            ctx.count("kind:" + ("incompressible", "text", "zeros", "mixed", "near-incompressible")[s["kind"]])
            for a in s["acts"]:
                ctx.count("action:" + {"r": "RUN", "f": "FULL_FLUSH", "b": "FULL_BARRIER", "F": "FINISH"}[a])
            if s["abort"] >= 0:
                ctx.count("abandoned-stream")
            if s.get("fault"):
                ctx.count("fault:" + ("worker-allocation" if s["fault"].startswith("a") else "main-allocation"))
    if skipped:
        ctx.count("skipped-after-repeated-process-deaths", skipped)
    ctx.log("%s: %d scenarios on %s/%s in %.1fs, %d not ok%s" % (label, len(lines), variant, os.path.basename(exe), time.time() - t, bad,
                                                               (", %d not run after repeated process deaths" % skipped) if skipped else ""))
    return agg, bad


def merge(a, b):
    for k, v in b.items():
        a[k] = a.get(k, 0) + v


def run(ctx):
    quick = ctx.quick()
    ctx.assumptions.append("fault injection: a failing lzma_allocator (k-th allocation of a worker thread / of the main thread inside lzma_code) on the test handle; "
                           "such runs must end with LZMA_MEM_ERROR, never hang, and free everything at lzma_end")
    ctx.cov["rule"] = ("scenario lines generated from the seeded PRNG: 1-4 streams on one lzma_stream handle (re-init with same/different thread "
                       "count, abandoned after k lzma_code calls, early lzma_end), each with threads 1..8, block_size from 1 byte to > input, "
                       "timeout 0/1/50 ms, 4 check types, 8 filter chains (incl. delta/BCJ/preset path), inputs empty/incompressible/text/zeros/"
                       "mixed, action sequences RUN/FULL_FLUSH/FULL_BARRIER/FINISH at random and block-aligned offsets with lzma_filters_update "
                       "between them, random in/out slicing, and a schedule: vsched random/PCT/nopreempt with forced timeouts and spurious "
                       "wake-ups, or real scheduling with seeded perturbation (TSan in thorough). non-trivial = some stream has input; distinct by full line")
    ctx.assumptions += [
        "Lean 4 kernel; the LTS in Model/MtEnc.lean is a hand-written model of stream_encoder_mt.c/outqueue.c (tied by the direct oracle and, with hook H3 applied, by trace inclusion)",
        "pthread semantics as implemented by harness/vsched.c and assumed in the model: mutual exclusion, wait releases atomically, a signal wakes at least one waiter, spurious wake-ups allowed, timed waits may expire at any time",
        "Block encoding is abstract in the model (encodeBlock with a decode inverse supplied as hypothesis; C01/C02 provide it)",
        "the single-threaded decoders of the same liblzma are the decode oracle (subset cross-checked by python's system liblzma and an independent container parser)",
        "data races / memory safety are observed at run time (ASan+UBSan always, TSan in the thorough tier), not proved",
    ]
    # ---- G
    okg, logg = stage_g(ctx)
    if not okg:
        ctx.obligation_broken("stage G: Gen/C08.lean cannot be regenerated from stream_encoder_mt.c", logg)
    # ---- P
    p_ok = True
    have_model = os.path.exists(vlib.module_path("XzVerif.Props.C08"))
    if have_model:
        p_ok = ctx.lean_stage(["XzVerif.Props.C08"], exes=["xzm_c08"]) if okg else False
    else:
        ctx.obligation_broken("Props/C08.lean missing", "the Lean model has not been written")
        p_ok = False
    # ---- B
    okb, log, _ = vlib.c_build("asan", targets=["liblzma"])
    if not okb:
        ctx.obligation_broken("stage B: /repo does not build (asan)", log)
        return "proof"
    events = hook_applied() and os.path.exists(os.path.join(vlib.ROOT, "harness", "c08_events.c"))
    okh, log, exe_s, exe_p = build_harness(ctx, "asan", events)
    if not okh:
        ctx.obligation_broken("stage B: C08 harness does not compile against /repo", log)
        return "proof"
    env = {"ASAN_OPTIONS": "detect_leaks=1:abort_on_error=0:allocator_may_return_null=1:detect_stack_use_after_return=0"}
    # ---- K (1)+(2): direct oracle
    agg = {}
    n_ctrl = 4000 if quick else 14000
    n_real = 1200 if quick else 4000
    scen = regression_scenarios(ctx, True, "rs") + fault_scenarios(ctx, True, "fs") + gen_scenarios(ctx, n_ctrl, True, "s")
    a, bad1 = run_batch(ctx, exe_s, scen, "asan", env, "controlled scheduler")
    merge(agg, a)
    scen_r = regression_scenarios(ctx, False, "rp") + fault_scenarios(ctx, False, "fp") + gen_scenarios(ctx, n_real, False, "p")
    broken_badly = bad1 > 40      # already refuted many times over: do not spend watchdog periods on real-scheduling hangs
    if broken_badly:
        ctx.log("more than 40 failing scenarios under the controlled scheduler: skipping the real-scheduling, TSan and trace batches")
        scen_r, bad2 = [], 0
    else:
        a, bad2 = run_batch(ctx, exe_p, scen_r, "asan", env, "real scheduling + perturbation")
        merge(agg, a)
    tsan_info = {}
    if not quick and not broken_badly:
        scen_f = fallback_scenarios(ctx, "fb")
        a, badf = run_batch(ctx, exe_p, scen_f, "asan", env, "incompressible fallback (20 MiB Blocks)")
        merge(agg, a)
        bad2 += badf
        okt, log, _ = vlib.c_build("tsan", targets=["liblzma"])
        if not okt:
            ctx.obligation_broken("stage B: /repo does not build (tsan)", log)
        else:
            okh, log, texe_s, texe_p = build_harness(ctx, "tsan", False)
            if not okh:
                ctx.obligation_broken("stage B: C08 harness does not compile (tsan)", log)
            else:
                tenv = {"TSAN_OPTIONS": "halt_on_error=1:second_deadlock_stack=1:report_signal_unsafe=0:history_size=4"}
                scen_t = regression_scenarios(ctx, False, "rt") + fault_scenarios(ctx, False, "ft") + gen_scenarios(ctx, 2000, False, "t")
                a, bad3 = run_batch(ctx, texe_p, scen_t, "tsan", tenv, "ThreadSanitizer, real scheduling")
                tsan_info = {"scenarios": len(scen_t), "not_ok": bad3}
                merge(agg, a)
    ctx.cov["correspondence"] = {"direct_oracle_scenarios_controlled": len(scen), "direct_oracle_scenarios_real": len(scen_r),
                                 "not_ok": bad1 + bad2, "tsan": tsan_info, "totals": agg, "h3_hook_applied": hook_applied()}
    # ---- K (3): trace inclusion
    if events and p_ok and not broken_badly:
        trace_inclusion(ctx, exe_s, env)
    elif not events:
        ctx.cov["correspondence"]["trace_inclusion"] = "skipped: hook H3 (hooks/h3-mtenc.patch) is not applied to " + vlib.REPO
    # ---- S: the direct oracle above *is* the search on the implementation; nothing more to do here.
    return "proof"


def trace_inclusion(ctx, exe_s, env):
    """Harness lines with ev=1 print the H3 event trace; the model driver must accept every trace and agree on the observables."""
    n = 800 if ctx.quick() else 4000
    scen = gen_scenarios(ctx, n, True, "e")
    # (fault-injection runs are judged by the direct oracle only: threads_stop() on the error path is one atomic step in the model)
    lines = [re.sub(r",(a\d+,w\d+|[aA]\d+),g", ",g", l.replace(" S:", " ev=1 S:", 1).replace(" dump=1", "")) for l, _ in scen]
    parts = vlib.chunks(list(range(len(lines))), vlib.NCPU * 2)
    res_parts = vlib.par_map(lambda idx: run_lines_resilient(exe_s, [lines[i] for i in idx], env=env), parts)
    mexe = vlib.model_exe("xzm_c08")
    traces, owners = [], []
    for idx, rp in zip(parts, res_parts):
        for i, r in zip(idx, rp):
            if r is None:
                continue
            if r[0] != "ok":
                classify_and_report(ctx, lines[i], scen[i][1], r, "asan", exe_s)
                continue
            m = re.search(r" trace=(\S+)", r[1])
            if not m:
                continue
            traces.append("trace " + m.group(1))
            owners.append(i)
    tparts = vlib.chunks(traces, vlib.NCPU)
    mres = vlib.par_map(lambda ls: vlib.run_lines([mexe], ls), tparts)
    mout = [o for (_, out, _) in mres for o in out]
    acc = rej = 0
    if len(mout) != len(traces):
        ctx.obligation_broken("model driver xzm_c08 failed to answer every trace", str([e for (_, _, e) in mres])[:1500])
    else:
        for tl, o, i in zip(traces, mout, owners):
            ctx.count("trace-events", tl.count(",") + 1)
            if o.startswith("accept"):
                acc += 1
            else:
                rej += 1
                if rej <= 3:
                    ctx.obligation_broken("trace inclusion C08: an event trace of the implementation is not accepted by MtEnc.accepts",
                                          json.dumps({"op": lines[i], "model": o, "trace": tl[:3000]}))
    ctx.cov["correspondence"]["trace_inclusion"] = {"traces": len(traces), "accepted": acc, "rejected": rej}


def replay(ctx, path):
    import replaylib
    r = replaylib.load(ctx, path)
    if "op" not in r:
        return replaylib.obligations("C08", run, r, path)
    variant = r.get("variant", "asan")
    vlib.c_build(variant, targets=["liblzma"])
    okh, log, exe_s, exe_p = build_harness(ctx, variant, False)
    if not okh:
        print(log[-2000:])
        return 2
    exe = exe_s if r.get("harness") == "c08s" else exe_p
    line = r["op"]
    attempts = 1 if "sched=" in line else 25
    env = {"TSAN_OPTIONS": "halt_on_error=1"} if variant == "tsan" else None
    for k in range(attempts):
        res = run_lines_resilient(exe, [line], env=env)[0]
        if res is None or res[0] != "ok":
            print("attempt %d: %s" % (k + 1, (res or ("?", "no result", ""))[1][:500]))
            if res and res[2]:
                print(res[2][-2500:])
            print("VIOLATION property=C08 replay=%s" % path)
            return 1
    print("replay passes (%d attempt(s))" % attempts)
    return 0
