"""C17 — xz never loses user data when I/O fails, a signal arrives or the process dies."""
import json, lzma, os, random, shutil
import vlib
import c17lib as L
from c17lib import Mode, Plan

META = {
    "category": "proof",
    "text": "Lean theorems over an executable state-machine model of xz's file-pair protocol (coder_run / io_open_src / io_open_dest / coding loop / io_close; one step = one system call), for ALL option sets, fault functions, signal positions, foreign renames, coder schedules and ALL prefixes of every run (= every crash point): src_or_complete_target (the source inode exists, or the target created by this run holds the whole coder output and, with syncing on, file and directory are fsync'ed); unlink_src_last (unlink(source) only after futimens, fsync(file) ok, fsync(dir) ok, close(target) ok, complete content; never with -k/-c/--test/stdin); never_overwrite (without -f an existing target is never unlinked; O_EXCL); only_own_target_unlinked (every unlink(target) directly follows an lstat whose inode equals the fstat taken after creation); eintr_eagain_retry (only EINTR/EAGAIN/short counts and no signal => the finished run succeeded with exactly the coder output); failure_cleanup (hard I/O error => run fails; a failed run keeps the source, never attempts unlink(source), ends with non-zero status / signal / EPIPE, and - absent foreign renames - has unlinked the target it created unless fstat/lstat/unlink of it were made to fail); success_complete, write_layout. Tie: the real xz binary runs under an LD_PRELOAD interposer that injects an error / short count / EINTR / EAGAIN / signal / _exit / SIGKILL / foreign rename at EVERY system-call index of every mode; the observed call sequence, the end state of the directory and the exit status must equal the model's for that plan (trace inclusion), and each run is also judged directly against the property by an oracle that does not use the model.",
    "note": "Trusted: Lean kernel (+propext/Classical.choice/Quot.sound), the interposer, the Python canonicaliser and oracle, POSIX semantics as encoded in the model's FS. liblzma is abstract in the model (a schedule of I/O requests taken from a fault-free run). Not shown: that the kernel honours fsync.",
    "technique": "Lean 4 proof over an executable model + system-call trace inclusion under injected faults (LD_PRELOAD)",
}

HARD_KINDS = ("open", "read", "write", "fsync", "poll")


def gen_text(rng, n):
    words = [bytes(rng.choice(b"abcdefghijklmnopqrstuvwxyz") for _ in range(rng.randrange(2, 9))) for _ in range(300)]
    out = bytearray()
    while len(out) < n:
        out += rng.choice(words) + (b"\n" if rng.random() < 0.1 else b" ")
        if rng.random() < 0.05:
            out += bytes(rng.getrandbits(8) for _ in range(rng.randrange(1, 40)))
    return bytes(out[:n])


def xzc(data, **kw):
    return lzma.compress(data, **kw)


def fit(make, target, rng):
    """random data whose image under `make` (a compressor) has exactly `target` bytes: the stream then ends exactly
    on a boundary of xz's 8 KiB I/O buffer"""
    base = bytes(rng.getrandbits(8) for _ in range(target + 64))
    n = target - 160
    for _ in range(6):
        n = max(1, min(len(base), n + target - len(make(base[:n]))))
    for m in range(max(1, n - 40), min(len(base), n + 40)):
        for tweak in range(6):
            d = base[:m] if tweak == 0 else base[:m - 1] + bytes([(tweak * 41) & 255])
            c = make(d)
            if len(c) == target:
                return d, c
    raise RuntimeError("no input with compressed size %d found" % target)


def lz_member(d):
    """a lzip member built by hand (LZMA1 lc=3 lp=0 pb=2 with end marker, CRC32, sizes)"""
    import struct, zlib
    body = b"LZIP\x01\x10" + lzma.compress(d, format=lzma.FORMAT_RAW, filters=[
        {"id": lzma.FILTER_LZMA1, "lc": 3, "lp": 0, "pb": 2, "dict_size": 1 << 16}])
    return body + struct.pack("<IQQ", zlib.crc32(d) & 0xFFFFFFFF, len(d), len(body) + 20)


def make_modes(ctx):
    rng, quick = ctx.rng, ctx.quick()
    B = L.IOBUF          # IO_BUFFER_SIZE of this source tree (Gen/C17.lean)
    n1 = rng.randrange(6 * B + 1000, 8 * B + 4000)
    plain = gen_text(rng, n1)
    comp = xzc(plain, preset=1)
    small = [gen_text(rng, rng.randrange(B + 800, 2 * B - 2000)) for _ in range(3)]
    tiny = gen_text(rng, rng.randrange(1500, min(6000, B - 100)))   # smaller than one buffer: read, EOF, finish in ONE loop iteration
    sparse = gen_text(rng, B) + bytes(2 * B) + gen_text(rng, B) + bytes(3 * B)
    F = lambda src, dst, data, pl: {"src": src, "dst": dst, "data": data, "plain": pl}
    m = []
    m.append(Mode("compress", [], [F("a.txt", "a.txt.xz", plain, plain)]))
    m.append(Mode("decompress", ["-d"], [F("a.xz", "a", comp, plain)], direction="d"))
    m.append(Mode("compress-keep", ["-k"], [F("a.txt", "a.txt.xz", plain, plain)], keep=True))
    m.append(Mode("compress-force-existing", ["-f"], [F("a.txt", "a.txt.xz", plain, plain)], force=True, pre_target=True))
    m.append(Mode("compress-existing-target", [], [F("a.txt", "a.txt.xz", plain, plain)], pre_target=True))
    m.append(Mode("compress-stdout", ["-c"], [F("a.txt", None, plain, plain)], stdout=True))
    m.append(Mode("decompress-stdout", ["-dc"], [F("a.xz", None, comp, plain)], direction="d", stdout=True))
    m.append(Mode("decompress-truncated", ["-d"], [F("a.xz", "a", comp[:len(comp) * 2 // 3], plain)], direction="d", valid=False))
    m.append(Mode("decompress-garbage", ["-d"], [F("a.xz", "a", plain[:2 * B + 3616], plain)], direction="d", valid=False, init_ok=False))
    m.append(Mode("compress-no-sync", ["--no-sync"], [F("a.txt", "a.txt.xz", plain, plain)], sync=False))
    m.append(Mode("compress-multi", [], [F("f%d" % i, "f%d.xz" % i, small[i], small[i]) for i in range(3)]))
    m.append(Mode("decompress-sparse", ["-d"], [F("s.xz", "s", xzc(sparse, preset=1), sparse)], direction="d"))
    m.append(Mode("test", ["-t"], [F("a.xz", None, comp, plain)], direction="t"))
    m.append(Mode("stdin-stdout", [], [F("in.dat", None, small[0], small[0])], stdin=True))
    m.append(Mode("hardlinked-source", [], [F("a.txt", "a.txt.xz", small[1], small[1])], skip=True, hardlink=True))
    m.append(Mode("compress-gid", [], [F("a.txt", "a.txt.xz", small[2], small[2])], gid=True))
    m.append(Mode("decompress-force-existing", ["-df"], [F("a.xz", "a", comp, plain)], direction="d", force=True, pre_target=True))
    m.append(Mode("decompress-keep", ["-dk"], [F("a.xz", "a", comp, plain)], direction="d", keep=True))
    # several files with mixed outcomes in ONE invocation (per-file state must be reset): a file ending in a sparse
    # tail, then garbage, then a file whose size is an exact multiple of the 8 KiB I/O buffer
    tail_sparse = gen_text(rng, B - 3192) + bytes(3192) + bytes(2 * B)
    exact = gen_text(rng, 3 * B)
    m.append(Mode("decompress-multi-mixed", ["-d"], [
        F("m1.xz", "m1", xzc(tail_sparse, preset=1), tail_sparse),
        dict(F("m2.xz", "m2", plain[:B + 808], plain), valid=False, init_ok=False),
        F("m3.xz", "m3", xzc(exact, preset=1), exact)], direction="d"))
    m.append(Mode("compress-exact-8k", [], [F("e.txt", "e.txt.xz", exact, exact)]))
    # SIGPIPE inherited as ignored (service managers do that): xz installs no handler; a broken pipe is only an EPIPE
    m.append(Mode("compress-stdout-sigpipe-ignored", ["-c"], [F("a.txt", None, plain, plain)], stdout=True, sigpipe_ignored=True))
    m.append(Mode("decompress-stdout-sigpipe-ignored", ["-dc"], [F("a.xz", None, comp, plain)], direction="d", stdout=True,
                  sigpipe_ignored=True))
    # several files to standard output in one invocation: a file aborted half-way must not leak state into the next one
    m.append(Mode("decompress-stdout-multi", ["-dc"], [F("p1.xz", None, xzc(tail_sparse, preset=1), tail_sparse),
                                                          F("p2.xz", None, xzc(exact, preset=1), exact)], direction="d", stdout=True))
    # files smaller than one I/O buffer: read + EOF + LZMA_FINISH + LZMA_STREAM_END happen in ONE iteration of the coding
    # loop, so a signal that arrives during the (only) read is first noticed after the conversion has COMPLETED: the
    # target is complete, synced and closed, the source is removed, then xz dies by the signal (allowed by the property)
    m.append(Mode("compress-tiny", [], [F("t.txt", "t.txt.xz", tiny, tiny)]))
    m.append(Mode("decompress-tiny", ["-d"], [F("t.xz", "t", xzc(tiny, preset=1), tiny)], direction="d"))
    m.append(Mode("compress-tiny-multi", [], [F("t%d" % i, "t%d.xz" % i, tiny[i * 400:], tiny[i * 400:]) for i in range(3)]))
    # verbosity x per-file outcome x several files: a file that fails BEFORE producing output (27 bytes: inside the first
    # Block Header), one that fails late, then good files; progress messages on (-v / -vv) or everything off (-q)
    good2 = gen_text(rng, B + 3808)
    early = dict(F("e1.xz", "e1", comp[:27], plain), valid=False)
    late = dict(F("e2.xz", "e2", comp[:len(comp) * 2 // 3], plain), valid=False)
    gfiles = [F("g1.xz", "g1", xzc(small[0], preset=1), small[0]), F("g2.xz", "g2", xzc(good2, preset=1), good2)]
    m.append(Mode("decompress-multi-earlyfail-v", ["-d", "-v"], [early] + gfiles, direction="d"))
    m.append(Mode("compress-multi-v", ["-v"], [F("v%d" % i, "v%d.xz" % i, small[i], small[i]) for i in range(3)]))
    if not quick:
        m.append(Mode("decompress-multi-fail-vv", ["-d", "-vv"], [late, early] + gfiles, direction="d"))
        m.append(Mode("decompress-multi-fail-q", ["-d", "-q"], [early, late] + gfiles, direction="d"))
        m.append(Mode("decompress-multi-fail-default", ["-d"], [early, late] + gfiles, direction="d"))
        m.append(Mode("compress-multi-vv", ["-vv"], [F("w%d" % i, "w%d.xz" % i, small[i], small[i]) for i in range(3)]))
        m.append(Mode("decompress-stdout-multi-v", ["-dc", "-v"], [dict(F("q1.xz", None, comp[:27], plain), valid=False),
                                                                  F("q2.xz", None, xzc(exact, preset=1), exact)], direction="d", stdout=True))
    # the verdict (exit status, handling of the files) must not depend on the verbosity: the failure scenarios again with
    # -qq (nothing is printed), -q, XZ_OPT=-qq and -v; warnings still give 2 with -q / -qq
    m.append(Mode("compress-qq", ["-qq"], [F("a.txt", "a.txt.xz", small[0], small[0])]))
    m.append(Mode("decompress-truncated-qq", ["-d", "-qq"], [F("a.xz", "a", comp[:len(comp) * 2 // 3], plain)], direction="d", valid=False))
    m.append(Mode("compress-existing-target-qq", ["-qq"], [F("a.txt", "a.txt.xz", small[1], small[1])], pre_target=True))
    m.append(Mode("decompress-xzopt-qq", ["-d"], [F("a.xz", "a", xzc(small[2], preset=1), small[2])], direction="d", env={"XZ_OPT": "-qq"}))
    m.append(Mode("decompress-garbage-xzopt-qq", ["-d"], [F("a.xz", "a", plain[:B + 77], plain)], direction="d", valid=False, init_ok=False,
                  env={"XZ_OPT": "-qq"}))
    m.append(Mode("hardlinked-source-q", ["-q"], [F("a.txt", "a.txt.xz", small[1], small[1])], skip=True, hardlink=True))
    m.append(Mode("hardlinked-source-qq", ["-qq"], [F("a.txt", "a.txt.xz", small[1], small[1])], skip=True, hardlink=True))
    m.append(Mode("compress-stdout-qq", ["-c", "-qq"], [F("a.txt", None, small[0], small[0])], stdout=True))
    m.append(Mode("decompress-truncated-v", ["-d", "-v"], [F("a.xz", "a", comp[:len(comp) * 2 // 3], plain)], direction="d", valid=False))
    if not quick:
        m.append(Mode("decompress-qq", ["-d", "-qq"], [F("a.xz", "a", comp, plain)], direction="d"))
        m.append(Mode("compress-q", ["-q"], [F("a.txt", "a.txt.xz", small[0], small[0])]))
        m.append(Mode("compress-xzdefaults-qq", [], [F("a.txt", "a.txt.xz", small[0], small[0])], env={"XZ_DEFAULTS": "-qq"}))
        m.append(Mode("compress-force-existing-qq", ["-f", "-qq"], [F("a.txt", "a.txt.xz", small[2], small[2])], force=True, pre_target=True))
        m.append(Mode("compress-stdout-T4-two", ["-c"], [F("x1", None, small[0], small[0]), F("x2", None, small[1], small[1])], stdout=True,
                      threads="-T4", lifted=True))
    # invalid input whose valid part ends EXACTLY on an 8 KiB read boundary (avail_in == 0 and not yet EOF when
    # LZMA_STREAM_END arrives: only the extra one-byte io_read() of coder_normal() sees the trailing bytes)
    mk_alone = lambda d: lzma.compress(d, format=lzma.FORMAT_ALONE, preset=1)
    mk_raw = lambda d: lzma.compress(d, format=lzma.FORMAT_RAW, filters=[{"id": lzma.FILTER_LZMA2, "preset": 1}])
    raw_args = ["-d", "--format=raw", "--suffix=.raw", "--lzma2=preset=1"]
    d1, c1 = fit(mk_alone, B, rng)
    m.append(Mode("decompress-lzma-boundary-garbage", ["-d"], [F("a.lzma", "a", c1 + mk_alone(plain[:3000]), d1)], direction="d", valid=False))
    d2, c2 = fit(mk_raw, B, rng)
    m.append(Mode("decompress-raw-boundary-garbage", raw_args, [F("a.raw", "a", c2 + b"\x01trailing bytes", d2)], direction="d", valid=False))
    d3, c3 = fit(lambda d: lzma.compress(d, preset=1), B, rng)
    m.append(Mode("decompress-xz-boundary-garbage", ["-d"], [F("b.xz", "b", c3 + b"garbage after the stream", d3)], direction="d", valid=False))
    d4, c4 = fit(lz_member, B, rng)
    m.append(Mode("decompress-lz-boundary-trailing", ["-d"], [F("c.lz", "c", c4 + b"trailing data is allowed after .lz", d4)], direction="d"))
    # one hooked signal inherited as ignored (e.g. SIGINT for `xz file &` from a non-interactive shell): the handlers
    # of all OTHER signals must still be installed, the ignored one must stay without effect
    m.append(Mode("compress-sigint-ignored", [], [F("a.txt", "a.txt.xz", small[0], small[0])], ignored_sig=2))
    m.append(Mode("decompress-sighup-ignored", ["-d"], [F("a.xz", "a", xzc(small[1], preset=1), small[1])], direction="d", ignored_sig=1))
    if not quick:
        for sg, nm in ((15, "sigterm"), (13, "sigpipe"), (24, "sigxcpu"), (25, "sigxfsz")):
            m.append(Mode("compress-%s-ignored" % nm, [], [F("a.txt", "a.txt.xz", small[2], small[2])], ignored_sig=sg))
        m.append(Mode("decompress-sigint-ignored", ["-d"], [F("a.xz", "a", xzc(small[2], preset=1), small[2])], direction="d", ignored_sig=2))
        d5, c5 = fit(mk_alone, 2 * B, rng)
        m.append(Mode("decompress-lzma-boundary16k-garbage", ["-d"], [F("a.lzma", "a", c5 + b"\0" * 5, d5)], direction="d", valid=False))
        d6, c6 = fit(mk_raw, 2 * B, rng)
        m.append(Mode("decompress-raw-boundary16k-garbage", raw_args, [F("a.raw", "a", c6 + c2, d6)], direction="d", valid=False))
        m.append(Mode("decompress-lzma-boundary-valid", ["-d"], [F("a.lzma", "a", c1, d1)], direction="d"))
    if not quick:
        big = gen_text(rng, rng.randrange(550000, 650000))
        mid = gen_text(rng, 300000)
        m.append(Mode("compress-T4", ["--block-size=128KiB"], [F("b.txt", "b.txt.xz", big, big)], threads="-T4", lifted=True))
        m.append(Mode("compress-T0-default", [], [F("a.txt", "a.txt.xz", plain, plain)], threads="-T0", lifted=True))
        mtc = xzc(mid[:100000]) + xzc(mid[100000:200000]) + xzc(mid[200000:])
        m.append(Mode("decompress-T4", ["-d"], [F("m.xz", "m", mtc, mid)], direction="d", threads="-T4", lifted=True))
        m.append(Mode("files-from-list", [], [F("g%d" % i, "g%d.xz" % i, small[i], small[i]) for i in range(3)], files_from=True))
        m.append(Mode("compress-large", [], [F("c.txt", "c.txt.xz", mid, mid)]))
        m.append(Mode("decompress-large", ["-d"], [F("c.xz", "c", xzc(mid, preset=1), mid)], direction="d"))
        alone = xzc(plain, format=lzma.FORMAT_ALONE, preset=1)
        m.append(Mode("decompress-lzma-alone", ["-d"], [F("a.lzma", "a", alone, plain)], direction="d"))
        m.append(Mode("decompress-multi", ["-d"], [F("h%d.xz" % i, "h%d" % i, xzc(small[i]), small[i]) for i in range(3)], direction="d"))
        m.append(Mode("decompress-trailing-garbage", ["-d"], [F("a.xz", "a", comp + b"garbage!" * 3, plain)], direction="d", valid=False))
    return m


# ---------------------------------------------------------------------------------------------------------------
# plans
# ---------------------------------------------------------------------------------------------------------------

def enumerate_plans(ctx, mode, ref_events, rng):
    """Every call index of the reference run × every kind of perturbation that applies to that call."""
    flat = [e for evs in ref_events for e in evs]
    plans = []
    nfiles = len(mode.files)
    first_src_open = flat[0]["k"] if flat and flat[0]["op"] == "open" else 0
    for idx, e in enumerate(flat):
        k, op, role = e["k"], e["op"], e["role"]
        plans.append(Plan(faults={k: ("E", 5)}, tag="errno"))
        if op == "write":
            plans.append(Plan(faults={k: ("E", 28)}, tag="errno"))
        if op == "open" and role == "DST":
            plans.append(Plan(faults={k: ("E", 13)}, tag="errno"))
        plans.append(Plan(crash=(k, "X"), tag="_exit"))
        plans.append(Plan(crash=(k, "K"), tag="SIGKILL"))
        # with one signal inherited as ignored, every hooked signal is tried (the ignored one must stay without effect,
        # every other one must still be handled); otherwise the four usual ones (thorough: all six)
        deliver = list(L.SIGS_ALL) if (mode.ignored_sig or not ctx.quick()) else list(L.SIGS)
        sigs = [x for x in deliver if x != mode.ignored_sig]
        for s in deliver:
            plans.append(Plan(sig=(k, s, False), tag="signal" if s != mode.ignored_sig else "ignored-signal"))
        if op == "write" and (mode.stdout or mode.stdin):
            # the reader of the pipe went away (SIGPIPE handled by xz, or inherited as ignored)
            plans.append(Plan(epipe=k, tag="EPIPE-sigpipe-ignored" if mode.sigpipe_ignored else "EPIPE+SIGPIPE"))
        if op in ("read", "write"):
            if e["ret"] >= 2:
                plans.append(Plan(faults={k: ("S", rng.randrange(1, e["ret"]))}, tag="short"))
                plans.append(Plan(faults={k: ("S", 1)}, tag="short"))
            plans.append(Plan(faults={k: ("E", 4)}, tag="EINTR"))
            plans.append(Plan(faults={k: ("E", 11)}, tag="EAGAIN"))
            plans.append(Plan(faults={k: ("E", 11), k + 1: ("E", 4)}, tag="EAGAIN+poll-EINTR"))
            plans.append(Plan(faults={k: ("E", 11), k + 1: ("E", 5)}, tag="EAGAIN+poll-error"))
            plans.append(Plan(faults={k: ("E", 11)}, sig=(k + 1, rng.choice(sigs), False), tag="EAGAIN+signal-in-poll"))
            plans.append(Plan(sig=(k, rng.choice(sigs), True), tag="signal+EINTR"))
        if nfiles == 1:
            prev = flat[idx - 1] if idx else None
            toctou = op == "unlink" and prev is not None and prev["op"] in ("stat", "lstat")
            if not toctou:
                if mode.file_dest:
                    plans.append(Plan(move=(k, "d"), tag="foreign-replaces-target"))
                # (with -c/-t/stdin xz runs in its strict sandbox, where the interposer cannot act as another process)
                if mode.file_dest and k > first_src_open:
                    plans.append(Plan(move=(k, "s"), tag="foreign-replaces-source"))
    if mode.stdout or mode.stdin:
        # every write succeeds, but the FINAL close of standard output (fclose(stdout) in tuklib_exit) fails
        plans.append(Plan(close_out=5, tag="close-stdout-fails"))
        plans.append(Plan(close_out=28, tag="close-stdout-fails"))
        if flat:
            # ... also after an earlier warning-free partial failure: a failing read keeps status 1
            plans.append(Plan(faults={flat[min(len(flat) - 1, 3)]["k"]: ("E", 5)}, close_out=5, tag="close-stdout-fails"))
    return plans


def storm_plan(rng, ref_events, p=0.5):
    """Benign faults (EINTR, EAGAIN, short counts) on many reads and writes of one run."""
    flat = [e for evs in ref_events for e in evs]
    faults, shift = {}, 0
    for e in flat:
        if e["op"] in ("read", "write"):
            left = e["ret"]
            while rng.random() < p and len(faults) < 400:
                k = e["k"] + shift
                r = rng.random()
                if r < 0.4:
                    faults[k] = ("E", 4)
                    shift += 1
                elif r < 0.7:
                    faults[k] = ("E", 11)
                    shift += 2
                elif left >= 2:
                    c = rng.randrange(1, left)
                    faults[k] = ("S", c)
                    left -= c
                    shift += 1
                else:
                    break
    return Plan(faults=faults, tag="storm")


# ---------------------------------------------------------------------------------------------------------------
# the property, judged directly on one run (no model involved)
# ---------------------------------------------------------------------------------------------------------------

def direct_oracle(mode, plan, res, ref_events):
    """Returns a list of violated clauses of the property (strings); empty = the run respects the property."""
    bad = []
    rc = res["rc"]
    if rc == "timeout":
        return ["xz did not terminate"]
    files = res["files"]
    flat = [e for evs in ref_events for e in evs]
    kinds = {e["k"]: (e["op"], e["role"]) for e in flat}
    obs = [L.parse_rec(ln) for ln in res["log"]]
    obs = [r for r in obs if r["op"] != "CRASH"]
    # what was actually injected (by the interposer's own account)
    inj = [(r["op"], r["name"], r["inj"], r) for r in obs if r["inj"] != "-"]
    cleanup_faulted = any(op in ("stat", "lstat", "unlink", "fstat") and "E" in i for op, nm, i, _ in inj)
    moved = plan.move[1] if plan.move and any("M" in i for _, _, i, _ in inj) else None
    def _delivers(i):
        for part in i.split("+"):
            if part[:1] in "GJ" and part[1:].isdigit() and int(part[1:]) != mode.ignored_sig:
                return True
            if part[:1] == "P" and not mode.sigpipe_ignored:
                return True
        return False
    signalled = any(_delivers(i) for _, _, i, _ in inj)
    crashed = plan.crash is not None and L.observed_exit(res, plan) == "crash"
    psig = plan.sig_eff(mode)
    hard = False
    for op, nm, i, r in inj:
        for part in i.split("+"):
            if part.startswith("E") or part.startswith("P"):
                e = 32 if part.startswith("P") else int(part[1:])
                tgt_is_dst = any(f["dst"] == nm for f in mode.files)
                if op in ("read", "write", "poll") and e in L.RETRY:
                    continue
                if op in HARD_KINDS or (op == "lseek" and (tgt_is_dst or nm == "<stdout>") and r["a1"] != 0) \
                        or (op == "close" and tgt_is_dst) or (op == "fstat" and any(f["src"] == nm for f in mode.files)):
                    hard = True
                if op == "unlink" and mode.force and e != 2 and tgt_is_dst and not any(
                        o["op"] == "open" and o["name"] == nm and o["k"] < r["k"] for o in obs):
                    hard = True   # the unlink of --force before creating the target
    # signal-mask discipline (schedule independent): xz blocks the signals it hooks exactly inside io_open_src /
    # io_open_dest / io_close and while printing; every read/write/poll of the coding loop runs with all of them
    # unblocked, every open/fstat/attribute/sync/close/unlink call with all of them blocked. A block that is not undone
    # on some path (signals_block_count is a counter) leaves them blocked for the rest of the process: a later
    # termination signal then stays pending, xz goes on converting and deleting files.
    for r in obs:
        b = r.get("blk")
        if b is None:
            continue
        if r["op"] in ("read", "write", "poll") and b != 0:
            bad.append("call #%d %s runs with hooked signals blocked (mask %#x): signals_block()/signals_unblock() are not balanced" % (r["k"], r["op"], b))
            break
        if r["op"] in ("open", "fstat", "fchown", "fchmod", "futimens", "fsync", "close", "unlink", "stat", "lstat") \
                and r["name"] not in ("<stdin>", "<stdout>") and b != 0x3f:
            bad.append("call #%d %s runs with hooked signals unblocked (mask %#x)" % (r["k"], r["op"], b))
            break
    # the source may go only AFTER the target was written, synced (when syncing is on) and closed successfully -- read off
    # the recorded calls themselves (no model): positions of the last write / fsync / close of the target vs unlink(source)
    for f in mode.files:
        if not f["dst"] or not mode.file_dest:
            continue
        us = [r["k"] for r in obs if r["op"] == "unlink" and r["name"] == f["src"] and r["ret"] == 0]
        if not us:
            continue
        u = us[0]
        def last(op, name, ok=True):
            ks_ = [r["k"] for r in obs if r["op"] == op and r["name"] == name and r["k"] < u and (r["ret"] >= 0) == ok]
            return ks_[-1] if ks_ else None
        cl = last("close", f["dst"])
        wr = max([r["k"] for r in obs if r["op"] in ("write", "lseek") and r["name"] == f["dst"] and r["k"] < u] or [0])
        badclose = [r for r in obs if r["op"] == "close" and r["name"] == f["dst"] and r["k"] < u and r["ret"] < 0]
        if cl is None or badclose or cl < wr:
            bad.append("%s unlinked (call #%d) without a successful close of the target after its last write" % (f["src"], u))
        if mode.sync and not mode.keep_eff:
            fs_ = last("fsync", f["dst"])
            fd_ = [r["k"] for r in obs if r["op"] == "fsync" and r["name"] == "." and r["ret"] == 0 and wr < r["k"] < u]
            if fs_ is None or fs_ < wr or not fd_ or (cl is not None and not (fs_ < cl)):
                bad.append("%s unlinked (call #%d) before the target and its directory were fsync'ed" % (f["src"], u))
    # multi-file runs: which files were hit by an injection (None = cannot tell: directory, stdout)
    hit = set()
    for op, nm, i_, r in inj:
        idxs = [j for j, g in enumerate(mode.files) if nm in (g["src"], g["dst"])]
        if idxs:
            hit.update(idxs)
        else:
            hit = None
            break
    any_removed = False
    for idx, f in enumerate(mode.files):
        o = L.observed_fs(res, mode, idx, moved if idx == 0 else None)
        src_ok = o["srcL"] == "1"
        own = o["own"]
        tgt_ok = own is not None and L.target_complete(mode, f, own)
        if mode.stdin:
            continue
        # R1: never lose the data
        if not src_ok and not tgt_ok:
            bad.append("%s: source is gone and there is no complete valid target (target %s)" % (
                f["src"], "absent" if own is None else "incomplete/invalid, %d bytes" % len(own)))
        # R2: -k / -c / --test keep the source
        if mode.keep_eff and not src_ok:
            bad.append("%s: source removed although it must be kept (-k/-c/-t)" % f["src"])
        if mode.skip and (not src_ok or own is not None):
            bad.append("%s: a skipped source was touched" % f["src"])
        if mode.skip and not crashed and not signalled and not inj and rc != 2:
            bad.append("%s: skipped with a warning, yet the exit status is %s instead of 2" % (f["src"], rc))
        if not src_ok:
            any_removed = True
        # a fault that hit another file of the same invocation must not keep this one from being converted
        if (len(mode.files) > 1 and hit is not None and idx not in hit and not crashed and not signalled and not moved
                and mode.file_dest and not mode.skip and f.get("valid", mode.valid) and not mode.pre_target):
            if not tgt_ok or (not mode.keep_eff and src_ok):
                bad.append("%s: not converted although the injected fault hit another file of the run (state leaked between files)" % f["src"])
        if not f.get("valid", mode.valid) and not src_ok:
            bad.append("%s: invalid input, yet the source was removed" % f["src"])
        # R5: an existing target is never overwritten or removed without -f
        if mode.pre_target and not mode.force and f["dst"]:
            if o["preL"] != "1" or not src_ok or (not crashed and rc in (0, 2)):
                bad.append("%s: existing target without -f: target changed/removed, source removed or exit status %s" % (f["dst"], rc))
        # foreign files of other processes are never removed
        forced = mode.force and moved == "d" and any(
            r["op"] == "unlink" and r["name"] == f["dst"] and r["ret"] == 0 and r["k"] >= plan.move[0]
            and not any(q["op"] == "open" and q["name"] == f["dst"] and q["k"] < r["k"] for q in obs) for r in obs)
        if moved and idx == 0 and o["forL"] != "1" and not forced:
            bad.append("a file put under the %s name by another process was removed" % ("source" if moved == "s" else "target"))
        # R4: after a handled end of the run no incomplete target is left behind
        if not crashed and own is not None and not tgt_ok and not cleanup_faulted and not moved:
            bad.append("%s: incomplete target left behind (%d bytes) after exit %s" % (f["dst"], len(own), rc))
        # R8: exit status 0 means the conversion is complete
        if not crashed and rc == 0 and mode.file_dest and not mode.skip:
            if not tgt_ok:
                bad.append("%s: exit status 0 without a complete target" % f["src"])
            elif not mode.keep_eff and src_ok and not moved and not any(
                    op in ("stat", "lstat", "unlink") for op, nm, i, _ in inj):
                bad.append("%s: exit status 0 but the source was not removed" % f["src"])
        if not crashed and rc == 0 and mode.stdout and not mode.stdin and idx == 0 and len(mode.files) == 1:
            if "_out" not in files or not L.target_complete(mode, f, files["_out"][0]):
                bad.append("exit status 0 but standard output is incomplete")
    if not crashed and rc == 0 and mode.stdout and not mode.stdin and len(mode.files) > 1 and mode.direction == "d":
        if "_out" not in files or files["_out"][0] != b"".join(f["plain"] for f in mode.files):
            bad.append("exit status 0 but standard output is not the concatenation of the decoded files")
    # R3: a hard failure keeps every source of this run's failing file and gives a non-zero status
    if hard and not crashed:
        if rc in (0, 2) :
            bad.append("an injected I/O error was answered with exit status %s" % rc)
        if len(mode.files) == 1 and any_removed:
            bad.append("source removed although an I/O call on the pair failed")
    some_invalid = any(not f.get("valid", mode.valid) for f in mode.files)
    if some_invalid and not crashed and len(mode.files) > 1 and not signalled and not inj and rc in (0, 2):
        bad.append("a file of the run is invalid but the exit status is %s" % rc)
    if not mode.valid and not crashed:
        if rc in (0, 2) or any_removed:
            bad.append("invalid input: exit status %s, source removed: %s" % (rc, any_removed))
    # the exit path: a failing close of standard output must give a non-zero status and (unless -qq) a message
    if plan.close_out and not crashed and not signalled:
        if rc in (0, 2):
            bad.append("close(stdout) failed with errno %d at exit, yet the exit status is %s" % (plan.close_out, rc))
        elif not res["stderr"].strip() and "-qq" not in mode.args and "-qq" not in mode.env.get("XZ_OPT", ""):
            bad.append("close(stdout) failed at exit and xz printed no message")
    # R6: a delivered signal ends the process by that signal
    if signalled and not crashed and psig and rc != -psig[1]:
        bad.append("signal %d was delivered but xz ended with %s" % (psig[1], rc))
    if plan.epipe is not None and mode.sigpipe_ignored and not crashed and any("P" in i for _, _, i, _ in inj) and rc != 1:
        bad.append("write failed with EPIPE while SIGPIPE is ignored, yet xz ended with %s instead of exit status 1" % rc)
    # After a delivered termination signal xz may still complete the file it is working on (the flag is looked at only
    # at the loop heads; R1/R4/R8 above say what "complete" must mean) but it must not start another file.
    if signalled and not crashed:
        ks = next((r["k"] for op_, nm_, i_, r in inj if _delivers(i_)), None)
        srcs = {f["src"] for f in mode.files}
        late = [r for r in obs if ks is not None and r["k"] > ks and r["op"] == "open" and r["name"] in srcs]
        if late:
            bad.append("xz opened %s (call #%d) after the termination signal had arrived at call #%d" % (late[0]["name"], late[0]["k"], ks))
    if crashed is False and plan.crash and res["rc"] not in (0, 1, 2):
        pass
    return bad


# ---------------------------------------------------------------------------------------------------------------
# model side
# ---------------------------------------------------------------------------------------------------------------

def model_lines(mode, plan, ref, observed_events):
    """Candidate op lines for one run (several tick layouts for a signal inside the coding loop)."""
    specs_by_layout = []
    layouts = [()]
    sig_op = None
    if mode.lifted:
        sched = [L.derive_ops(evs, mode, mode.files[i]) for i, evs in enumerate(observed_events)]
        # a file that was never started in this run still needs a spec: take the reference
        sched = [s if observed_events[i] else ref["sched"][i] for i, s in enumerate(sched)]
    else:
        sched = ref["sched"]
    psig = plan.sig_eff(mode)
    if psig:
        # which request of which file was in progress when the signal arrived (by the index arithmetic of this run)
        for i, evs in enumerate(observed_events):
            ops, owner, _ = L.derive_ops(evs, mode, mode.files[i])
            if psig[0] in owner:
                sig_op = (i, locate(ops, owner[psig[0]], sched[i][0]))
        if sig_op is not None:
            i, j = sig_op
            n = len(sched[i][0])
            layouts = [tuple(range(j + 1, min(j + 1 + w, n + 1))) for w in range(0, 5)]
            layouts = list(dict.fromkeys(layouts))
    lines = []
    for lay in layouts:
        specs = []
        for i, f in enumerate(mode.files):
            ops, _, outreg = sched[i]
            skip = lay if (sig_op is not None and sig_op[0] == i) else ()
            specs.append(L.file_spec(mode, f, L.with_ticks(ops, skip), outreg))
        lines.append("run %s %s files=%s" % (mode.flags(), plan.model_args(mode), "|".join(specs)))
    return lines


def compare(mode, plan, res, observed_events, model_out):
    """None if the model's answer equals the observation, else a description of the first difference."""
    parts = model_out.split(" | ")
    if len(parts) != len(mode.files) + 1:
        return "model answered: " + model_out[:200]
    moved = plan.move[1] if plan.move else None
    for i, f in enumerate(mode.files):
        tr, fs = parts[i].split("#")
        mtrace = tr.split(";") if tr else []
        otrace = [e["s"] for e in observed_events[i]]
        if mtrace != otrace:
            for j in range(max(len(mtrace), len(otrace))):
                a = mtrace[j] if j < len(mtrace) else "<end>"
                b = otrace[j] if j < len(otrace) else "<end>"
                if a != b:
                    return "file %s call #%d: model `%s`, xz `%s`" % (f["src"], j + 1, a, b)
        mfs = dict(x.split("=") for x in fs.split(","))
        o = L.observed_fs(res, mode, i, moved if i == 0 else None)
        for key in ("src", "dst", "srcL", "preL", "ownL", "forL"):
            if mfs[key] != o[key]:
                return "file %s end state %s: model %s, disk %s" % (f["src"], key, mfs[key], o[key])
        if o["ownL"] == "1" and int(mfs["ownsz"]) != len(o["own"]):
            return "file %s target size: model %s, disk %d" % (f["src"], mfs["ownsz"], len(o["own"]))
        if (mode.stdout or mode.stdin) and len(mode.files) == 1 and mfs["outsz"] != o["outsz"]:
            return "stdout size: model %s, xz %s" % (mfs["outsz"], o["outsz"])
    mexit = parts[-1].strip()[len("exit="):]
    oexit = L.observed_exit(res, plan, mode)
    if mexit != oexit:
        return "exit: model %s, xz %s" % (mexit, oexit)
    return None


# ---------------------------------------------------------------------------------------------------------------
# the check
# ---------------------------------------------------------------------------------------------------------------

def stage_g(ctx):
    """regenerate Gen/C17.lean (IO_BUFFER_SIZE) from the source and tell the harness library"""
    ok, log = vlib.gen_probe("gen_c17", "gen_c17.c", "XzVerif.Gen.C17", incs=["src/xz", "src/common", "src/liblzma/api"])
    if not ok:
        ctx.obligation_broken("stage G: Gen/C17.lean cannot be regenerated from src/xz/file_io.h", log)
        return False
    import re as _re
    mm = _re.search(r"def ioBufferSize : Nat := (\d+)", open(vlib.module_path("XzVerif.Gen.C17")).read())
    L.IOBUF = int(mm.group(1))
    return True


def prepare(ctx):
    if not stage_g(ctx):
        return None
    ok, log, bd = vlib.c_build("rel")
    if not ok:
        ctx.obligation_broken("stage B: /repo does not build (rel)", log)
        return None
    ok, log, so = L.build_preload()
    if not ok:
        ctx.obligation_broken("stage B: harness/c17_preload.c does not compile", log)
        return None
    return os.path.join(bd, "xz"), so


def reference(xz, so, mode):
    res = L.run_case(xz, so, mode, Plan())
    evs = L.canon(res, mode)
    sched = [L.derive_ops(e, mode, mode.files[i]) for i, e in enumerate(evs)]
    for fi in range(len(mode.files) if mode.direction == "d" else 0):
        # Sparse blocks are invisible where they are requested (io_write only counts them). A run whose fstat(target)
        # fails has sparse output disabled and shows every request in its true place; all-zero full buffers of the
        # known plain text are then marked as sparse requests.
        kf = next((e["k"] for e in evs[fi] if e["op"] == "fstat" and e["role"] == "DST"), None)
        if kf is not None:
            r2 = L.run_case(xz, so, mode, Plan(faults={kf: ("E", 5)}))
            ops, owner, _ = L.derive_ops(L.canon(r2, mode)[fi], mode, mode.files[fi])
            plain, off, out = mode.files[fi]["plain"], 0, []
            for o in ops:
                if o[0] == "W":
                    n = int(o[1:])
                    if n == L.IOBUF and plain[off:off + n] == bytes(n):
                        o = "Z%d" % n
                    off += n
                out.append(o)
            sched[fi] = (out, sched[fi][1], sched[fi][2])
    return {"res": res, "events": evs, "sched": sched}


def locate(obs_ops, j, ops):
    """index in `ops` of the request that is number j in `obs_ops` (sparse requests are placed differently in the two)"""
    if j >= len(obs_ops):
        return len(ops) - 1
    kind = obs_ops[j][0]
    if kind == "Z":
        return len(ops) - 1 if j == len(obs_ops) - 1 else j
    nth = sum(1 for o in obs_ops[:j + 1] if o[0] == kind)
    for i, o in enumerate(ops):
        if o[0] == kind:
            nth -= 1
            if nth == 0:
                return i
    return min(j, len(ops) - 1)


def exit_path_scenarios(ctx, xz):
    """The exit path of src/common/tuklib_exit.c for every tool that uses it, judged directly (no model): standard
    output is /dev/full (buffered stdio output cannot be flushed) or a regular file whose FINAL close fails (seccomp filter
    installed by the launcher; a control run on /bin/cat shows that the injector works). Expected: exit status non-zero
    and a message on stderr (no message with -qq)."""
    import subprocess
    bd = os.path.dirname(xz)
    d = os.path.join(L.scratch_root(), "exitpath")
    shutil.rmtree(d, ignore_errors=True)
    os.makedirs(d)
    data = gen_text(ctx.rng, 30000)
    for nm, blob in (("p.txt", data), ("p2.txt", data[::-1]), ("p.xz", lzma.compress(data)),
                     ("p.lzma", lzma.compress(data, format=lzma.FORMAT_ALONE))):
        with open(os.path.join(d, nm), "wb") as fh:
            fh.write(blob)
    env = {"PATH": "/usr/bin:/bin", "LC_ALL": "C"}

    def run1(argv, how):
        launch = [L.LAUNCH[0]] + (["-c", "5"] if how == "closefail" else []) + ["--"] + argv
        out = open("/dev/full" if how == "full" else os.path.join(d, "_o"), "wb")
        try:
            p = subprocess.run(launch, cwd=d, env=env, stdin=subprocess.DEVNULL, stdout=out, stderr=subprocess.PIPE, timeout=60)
            return p.returncode, p.stderr.decode("utf-8", "replace")
        except subprocess.TimeoutExpired:
            return "timeout", ""
        finally:
            out.close()

    rc, err = run1(["/bin/cat", "p.txt"], "closefail")
    injector = rc not in (0, 124, 126) and rc != "timeout"
    ctx.count("exit-path: close(stdout) injector (seccomp) works" if injector else "exit-path: close(stdout) NOT exercised (seccomp unavailable)")
    T = lambda t: os.path.join(bd, t)
    sc = [("xz -l", [T("xz"), "-l", "p.xz"]), ("xz -lvv", [T("xz"), "-lvv", "p.xz"]), ("xz -l --robot", [T("xz"), "-l", "--robot", "p.xz"]),
          ("xz --version", [T("xz"), "--version"]), ("xz --help", [T("xz"), "--help"]), ("xz --long-help", [T("xz"), "--long-help"]),
          ("xz --info-memory", [T("xz"), "--info-memory"]), ("xz -c", [T("xz"), "-T1", "-c", "p.txt"]),
          ("xz -dc", [T("xz"), "-dc", "p.xz"]), ("xz -T4 -c two files", [T("xz"), "-T4", "-c", "p.txt", "p2.txt"]),
          ("xz -qq -c", [T("xz"), "-qq", "-c", "p.txt"]), ("xz -q -c", [T("xz"), "-q", "-c", "p.txt"]), ("xz -v -c", [T("xz"), "-v", "-c", "p.txt"]),
          ("xzdec", [T("xzdec"), "p.xz"]), ("xzdec --version", [T("xzdec"), "--version"]), ("lzmadec", [T("lzmadec"), "p.lzma"]),
          ("lzmainfo", [T("lzmainfo"), "p.lzma"]), ("lzmainfo --version", [T("lzmainfo"), "--version"])]
    nbad = 0
    for name, argv in sc:
        if not os.path.exists(argv[0]):
            continue
        for how in ("full", "closefail"):
            if how == "closefail" and (not injector or name in ("xz --version", "xz --help", "xz --long-help", "xz --info-memory",
                                                                  "xzdec --version", "lzmainfo --version")) and not injector:
                continue
            rc, err = run1(argv, how)
            ctx.case(("exit-path", name, how), nontrivial=True)
            ctx.count("exit-path:" + how)
            silent = "-qq" in argv
            why = None
            if rc in (0, 2):
                why = "standard output could not be written/closed (%s), yet the exit status is %s" % (how, rc)
            elif not silent and not err.strip():
                why = "standard output could not be written/closed (%s) and nothing was printed on stderr" % how
            if why and nbad < 3:
                nbad += 1
                ctx.violation("exit-path-%s-%s" % (name, how), {"kind": "exit path (tuklib_exit): failure of standard output not reported",
                              "exit_path": {"name": name, "argv": [os.path.basename(argv[0])] + argv[1:], "how": how}, "rc": rc, "stderr": err[-300:],
                              "violated": [why], "how_to_replay": "./check C17 --replay <this file>"}, True)
    shutil.rmtree(d, ignore_errors=True)
    ctx.cov["exit_path"] = {"scenarios": len(sc), "injector_works": injector, "violations": nbad}


def replay_dict(mode, plan, res, extra):
    d = {"mode": mode.name, "argv": res["argv"], "plan": plan.env(), "close_out": plan.close_out, "plan_tag": plan.tag, "rc": res["rc"], "stderr": res["stderr"],
         "syscalls": res["log"], "files_after": {k: {"size": len(v[0]), "head": v[0][:40].hex()} for k, v in res["files"].items()},
         "how_to_replay": "./check C17 --replay <this file>   (re-runs xz with C17_PLAN under the interposer, same seed/tier)"}
    d.update(extra)
    return d


def run(ctx):
    ctx.cov["rule"] = ("one case = one run of the built xz in a fresh directory under the interposer with one plan; plans = for every mode, "
                       "for EVERY recorded system call index k of the fault-free run: errno fault, short count, EINTR, EAGAIN(+poll faults), "
                       "4 signals (raised before the call / as EINTR), _exit and SIGKILL before the call, another process replacing the "
                       "source/target name; plus random multi-fault storms; non-trivial = the plan fired; distinct by (mode, plan)")
    ctx.assumptions += [
        "POSIX file semantics as encoded in Model/XzIo.lean (FS, inode identity, O_EXCL); fsync reaches the disk (not observable here; the interposer records it and does not execute it)",
        "liblzma is abstract in the model: its I/O request schedule is taken from the fault-free run of the same input (threaded modes: lifted from the observed run)",
        "libc-internal calls that bypass the PLT (stdio, fclose(stdout)) are not observed; signals are raised synchronously by the interposer before a call, not at arbitrary instructions",
        "the lstat()/unlink() window of io_unlink is an acknowledged race in the source and is not perturbed",
    ]
    stage_g(ctx)
    p_ok = ctx.lean_stage(["XzVerif.Props.C17"], exes=["xzm_c17"])
    pr = prepare(ctx)
    if pr is None:
        return "proof"
    xz, so = pr
    mexe = vlib.model_exe("xzm_c17")
    model_ok = os.path.exists(mexe)
    if not model_ok:
        ctx.obligation_broken("model driver xzm_c17 is not built", "")
    modes = make_modes(ctx)
    rng = ctx.rng
    cases = []
    refs = {}
    for mode in modes:
        ref = reference(xz, so, mode)
        refs[mode.name] = ref
        n = sum(len(e) for e in ref["events"])
        ctx.count("mode:%s calls" % mode.name, n)
        cases.append((mode, Plan(tag="fault-free")))
        for pl in enumerate_plans(ctx, mode, ref["events"], rng):
            cases.append((mode, pl))
        for _ in range(6 if ctx.quick() else 40):
            cases.append((mode, storm_plan(rng, ref["events"], rng.choice((0.2, 0.5, 0.8)))))
        if not ctx.quick():
            # random pairs of hard faults / signals anywhere
            for _ in range(60):
                k1, k2 = sorted((rng.randrange(1, n + 2), rng.randrange(1, n + 6)))
                if k1 == k2:
                    continue
                if rng.random() < 0.5:
                    cases.append((mode, Plan(faults={k1: ("E", rng.choice((5, 28, 4, 11))), k2: ("E", rng.choice((5, 13, 4)))}, tag="double-fault")))
                else:
                    cases.append((mode, Plan(faults={k1: ("E", rng.choice((5, 4, 11)))}, sig=(k2, rng.choice([x for x in L.SIGS if x != mode.ignored_sig]), False), tag="fault+signal")))
    exit_path_scenarios(ctx, xz)
    ctx.log("%d modes, %d runs of xz" % (len(modes), len(cases)))
    results = vlib.par_map(lambda mp: L.run_case(xz, so, mp[0], mp[1]), cases)
    # direct oracle + model lines
    lines, owners = [], []
    fired_by_kind = {}
    viol = 0
    canon_all = []
    for ci, ((mode, plan), res) in enumerate(zip(cases, results)):
        ref = refs[mode.name]
        try:
            evs = L.canon(res, mode)
        except Exception as ex:
            ctx.obligation_broken("interposer log cannot be parsed", "%s: %r %s" % (mode.name, ex, res["log"][-3:]))
            return "proof"
        canon_all.append(evs)
        fired = [r for r in (L.parse_rec(ln) for ln in res["log"]) if r["op"] == "CRASH" or r.get("inj", "-") != "-"]
        for r in fired:
            key = "fired:%s@%s" % (plan.tag, "crash" if r["op"] == "CRASH" else r["op"])
            fired_by_kind[key] = fired_by_kind.get(key, 0) + 1
        ctx.case((mode.name, plan.desc()), nontrivial=bool(fired) or bool(plan.close_out),
                 sample={"mode": mode.name, "plan": plan.desc(), "rc": res["rc"], "calls": len(res["log"])} if ci % 1499 == 7 else None)
        ctx.count("plan:" + plan.tag)
        bad = direct_oracle(mode, plan, res, ref["events"])
        if bad and viol < 6:
            viol += 1
            ctx.violation("%s-%s" % (mode.name, plan.tag), replay_dict(mode, plan, res, {"kind": "property violated on the real xz (direct oracle)", "violated": bad}), True)
        if model_ok:
            ls = model_lines(mode, plan, ref, evs)
            for ln in ls:
                lines.append(ln)
                owners.append(ci)
    for k, v in sorted(fired_by_kind.items()):
        ctx.count(k, v)
    mism = 0
    if model_ok:
        parts = vlib.chunks(lines, vlib.NCPU)
        outs = vlib.par_map(lambda ls: vlib.run_lines([mexe], ls), parts)
        mout = [o for (_, out, _) in outs for o in out]
        if len(mout) != len(lines):
            ctx.obligation_broken("model driver xzm_c17 failed to answer every op", str([e for (_, _, e) in outs])[:1500])
        else:
            by_case = {}
            for ln, ci, out in zip(lines, owners, mout):
                by_case.setdefault(ci, []).append((ln, out))
            for ci, lst in by_case.items():
                mode, plan = cases[ci]
                diffs = [compare(mode, plan, results[ci], canon_all[ci], out) for ln, out in lst]
                if all(d is not None for d in diffs):
                    mism += 1
                    if mism <= 5:
                        res = results[ci]
                        bad = direct_oracle(mode, plan, res, refs[mode.name]["events"])
                        ctx.obligation_broken("correspondence C17: xz's system calls / end state differ from the model (%s, plan %s): %s" % (
                            mode.name, plan.desc(), diffs[0]), json.dumps({"model_line": lst[0][0][:1500], "model": lst[0][1][:1500],
                                                                            "xz": [e["s"] for evs in canon_all[ci] for e in evs][-40:], "rc": res["rc"]}, indent=0))
                        ctx.cov.setdefault("mismatch_replays", []).append(replay_dict(mode, plan, res, {"difference": diffs[0]}))
    ctx.cov["correspondence"] = {"runs": len(cases), "model_lines": len(lines), "mismatches": mism, "model_ran": model_ok,
                                 "modes": [m.name for m in modes]}
    # S: the correspondence or a proof broke and no run violated the property directly -> search harder around the breakage
    if ctx.broken and not ctx.violations:
        found = search(ctx, xz, so, modes, refs)
        ctx.cov["search"] = found
    shutil.rmtree(L.scratch_root(), ignore_errors=True)
    return "proof"


def search(ctx, xz, so, modes, refs):
    """Stage S: more perturbations judged by the direct oracle only (double faults, storms + one hard event, all signals at all k as EINTR)."""
    rng = ctx.rng
    cases = []
    for mode in modes:
        ref = refs[mode.name]
        flat = [e for evs in ref["events"] for e in evs]
        n = len(flat)
        for e in flat:
            if e["op"] in ("read", "write", "close", "fsync", "unlink", "lseek"):
                for s in [x for x in L.SIGS_ALL if x != mode.ignored_sig]:
                    cases.append((mode, Plan(faults={e["k"]: ("E", 5)}, sig=(max(1, e["k"] - 1), s, False), tag="search")))
                cases.append((mode, Plan(faults={e["k"]: ("S", 1), e["k"] + 1: ("E", 28)}, tag="search")))
                cases.append((mode, Plan(faults={e["k"]: ("S", 1)}, crash=(e["k"] + 1, "K"), tag="search")))
        for _ in range(80):
            st = storm_plan(rng, ref["events"], 0.5)
            k = rng.randrange(1, n + 20)
            st.faults.setdefault(k, ("E", rng.choice((5, 28))))
            cases.append((mode, st))
    results = vlib.par_map(lambda mp: L.run_case(xz, so, mp[0], mp[1]), cases)
    nbad = 0
    for (mode, plan), res in zip(cases, results):
        bad = direct_oracle(mode, plan, res, refs[mode.name]["events"])
        if bad:
            nbad += 1
            if nbad <= 3:
                ctx.violation("search-%s" % mode.name, replay_dict(mode, plan, res, {"kind": "property violated on the real xz (search stage, direct oracle)", "violated": bad}), True)
    return {"extra_runs": len(cases), "failing": nbad}


def replay(ctx, path):
    import replaylib
    r = replaylib.load(ctx, path)
    if "mode" not in r:
        # no recorded run (an obligation-only record, or the hand-written findings/C17-*.json): the check itself is the replay
        return replaylib.obligations("C17", run, r, path)
    ctx2 = vlib.Check("C17", r.get("tier", "quick"), r.get("seed", 1))
    pr = prepare(ctx2)
    if pr is None:
        return 2
    xz, so = pr
    if "exit_path" in r:
        exit_path_scenarios(ctx2, xz)
        shutil.rmtree(L.scratch_root(), ignore_errors=True)
        hit = [p for p, _ in ctx2.violations]
        print("exit-path scenarios re-run; failing:", len(hit))
        if hit:
            print("VIOLATION property=C17 replay=%s" % path)
            return 1
        print("replay passes")
        return 0
    mode = next(m for m in make_modes(ctx2) if m.name == r["mode"])
    plan = Plan(tag=r.get("plan_tag", ""), close_out=r.get("close_out"))
    for ent in filter(None, r["plan"].split(",")):
        k, a = ent.split(":")
        k = int(k)
        if a[0] in "ES":
            plan.faults[k] = (a[0], int(a[1:]))
        elif a[0] in "GJ":
            plan.sig = (k, int(a[1:]), a[0] == "J")
        elif a[0] == "M":
            plan.move = (k, a[1])
        else:
            plan.crash = (k, a[0])
    ref = reference(xz, so, mode)
    res = L.run_case(xz, so, mode, plan)
    bad = direct_oracle(mode, plan, res, ref["events"])
    print("mode:", mode.name, "argv:", " ".join(res["argv"]), "plan:", plan.env(), "rc:", res["rc"])
    for ln in res["log"]:
        print("   ", ln)
    print("files after:", {k: len(v[0]) for k, v in res["files"].items()})
    shutil.rmtree(L.scratch_root(), ignore_errors=True)
    if bad:
        for b in bad:
            print("violated:", b)
        print("VIOLATION property=C17 replay=%s" % path)
        return 1
    print("replay passes")
    return 0
