"""C05 — corruption and truncation are never reported as success with different data.

Stages: P Lean (Props/C05.lean, Props/C03Container.lean + driver xzm_c05) -> B asan liblzma + harness, rel xz/xzdec
        -> valid files from the real encoder (+ tests/files seeds) -> damage (every bit / every length for small files,
        random multi-byte edits for larger ones) -> C harness on every decoder API  ||  model driver on the APIs it models
        -> DIRECT ORACLE on the C results (independent of Lean)  +  correspondence C vs model  ->  CLI sample (thorough).
"""
import glob, json, os, subprocess, time
import vlib
import c05lib as L

META = {
    "category": "proof",
    "text": "Lean theorems over an executable whole-buffer model of the .xz container decoder (stream_decoder.c, block_decoder.c, "
            "index_hash.c, stream_buffer_decoder.c; the payload decoder and the check function are parameters, so they hold for every "
            "filter chain and every check): (1) acceptance implies the declarative grammar ValidXz - every stored Check equals the check of "
            "the Block's output (supported IDs), every size field equals the real size, the Index is byte for byte the canonical encoding "
            "of the decoded Blocks, header flags = footer flags, Backward Size = real Index size, all CRC32s match, all padding is zero; "
            "the grammar is unambiguous (output and length are functions of the input); (2) a Block accepted with damaged Compressed Data "
            "and the original Check exhibits a Check collision; (3) CRC32 and CRC64 detect every single-bit error, hence every single-bit "
            "flip in the Stream Header, in any Block Header (except its size byte), Block Padding or Check, in the Index (except its "
            "indicator byte) and in the Stream Footer makes the whole file rejected (single Stream, no IGNORE_CHECK); (4) acceptance depends only on "
            "the consumed bytes, so no proper prefix of an accepted Stream is accepted (given the same locality of the payload decoder); "
            "(5) an accepted .lz member has the right CRC32, data size and member size. Tie: the real decoders (lzma_stream_decoder with and "
            "without CONCATENATED and the TELL_*/IGNORE_CHECK flags, lzma_stream_buffer_decode, lzma_stream_decoder_mt, lzma_auto_decoder, "
            "lzma_alone_decoder, lzma_lzip_decoder) run on every single-bit flip and every truncation of small valid files made by the real "
            "encoder, on crafted variants whose covering CRC32 is recomputed, and on random multi-byte edits of larger files; verdict, "
            "consumed count, notices and output must equal the model's, and a direct oracle (no Lean involved) checks 'success => output == "
            "original', 'non-payload damage => never success', 'truncated inside a stream => never complete', with per-field counts from an "
            "independent structural parse.",
    "note": "Trusted: Lean kernel + propext/Classical.choice/Quot.sound; the harness and the Python structural parser; the C compiler. "
            "The index hash (SHA-256 of the size pairs in C) is modelled as comparing the lists (collision-freeness assumed, stated). "
            "Hypotheses of the locality/prefix theorems on the abstract payload decoder: PayloadLocal, PayloadBounded; both are PROVED for the "
            "concrete raw LZMA1/LZMA2 chain model (Lemmas/LzmaCausal*.lean, XzStd.lean), so the *_std theorems have no hypothesis left "
            "(non-vacuity: tests/files/good-1-check-crc32.xz evaluated in the kernel). Also proved: .lzma and .lz truncation "
            "(lzma_prefix_free(_model), lzip_prefix_free(_model)), CRC32/CRC64 burst detection up to 32/64 bits (crc32_burst_detected, "
            "crc64_burst_detected), flips in later Streams / Stream Padding under CONCATENATED (header_bitflip_rejected_partial), and the "
            "whole-file payload-damage theorem with corrected hypotheses and a collision disjunct tied to the SAME Block of the two files (BlockAt; "
            "payload_damage_needs_collision_whole: Stream = whole file, "
            "supported Check other than None; the earlier statement was false as written). Not theorems: rejection of a flip in a Block "
            "Header Size byte or the Index Indicator (would need a CRC32 coincidence to be excluded). Multi-byte damage is covered only up "
            "to a Check collision. The threaded decoder is "
            "covered by the direct oracle only. Known finding: .lz trailing-data rule (findings/C05-lz-trailing-data-rule.json).",
    "technique": "Lean 4 proof over an executable model + differential correspondence + exhaustive single-fault injection",
}

HARNESS = ["c05_main.c"]
PROP_MODULES = ["XzVerif.Props.C05", "XzVerif.Props.C03Container"]
MODEL_APIS = {"sd", "sbd", "auto", "alone", "lzip"}
# .lz footer fields that are compared with the actual values under EVERY flag set (LZMA_IGNORE_CHECK only skips the CRC32)
LZ_SIZE_FIELDS = {"lz.dsize", "lz.msize"}
NONPAYLOAD_XZ = {"hdr.magic", "hdr.flags", "hdr.crc32", "blk.hdr.size", "blk.hdr.flags", "blk.hdr.csize", "blk.hdr.usize",
                 "blk.hdr.filters", "blk.hdr.pad", "blk.hdr.crc32", "blk.pad", "blk.check", "idx.indicator", "idx.count",
                 "idx.records", "idx.pad", "idx.crc32", "ftr.crc32", "ftr.bsize", "ftr.flags", "ftr.magic", "spad"}
KEY_LZ_TRAILING = "C05:lz-trailing-data-rule-hides-damage-of-later-member-magic"


# ------------------------------------------------------------------------------------------------------------------
# valid files
# ------------------------------------------------------------------------------------------------------------------

def xz_bin(name="xz"):
    return os.path.join(vlib.build_dir("rel"), name)


def seed_files(ctx, exe):
    """tests/files/good-* of the repo as file records (structure from the independent parser; plaintext from `xz -dc`)."""
    out = []
    xz = xz_bin()
    tdir = os.path.join(vlib.REPO, "tests", "files")
    for p in sorted(glob.glob(os.path.join(tdir, "good-*.xz"))):
        d = open(p, "rb").read()
        if len(d) > 1200:
            continue
        try:
            parts = L.split_xz_streams(d)
            streams = []
            for (s, e, pad) in parts:
                pt = L.run_xz(xz, ["-dc", "--single-stream"], d[s:e])
                streams.append((d[s:e], pt))
            f = L.make_xz_file("seed:" + os.path.basename(p), streams, [pad for (_, _, pad) in parts])
            if f["data"] != d:
                continue
            f["bcj"] = "bcj" in p or "arm64" in p
            out.append(f)
        except (L.ParseError, RuntimeError):
            continue
    for p in sorted(glob.glob(os.path.join(tdir, "good-*.lzma"))):
        d = open(p, "rb").read()
        try:
            pt = L.run_xz(xz, ["-dc", "--format=lzma"], d)
        except RuntimeError:
            continue
        f = L.make_lzma_file("seed:" + os.path.basename(p), d, pt)
        f["bcj"] = False
        out.append(f)
    for p in sorted(glob.glob(os.path.join(tdir, "good-*.lz"))):
        d = open(p, "rb").read()
        # member boundaries from the real single-member decoder on the undamaged file
        members, pos, plain, okf = [], 0, b"", True
        while pos < len(d) and d[pos:pos + 4] == b"LZIP":
            rc, o, _ = vlib.run_lines([exe], ["base " + vlib.hexs(d[pos:]), "orig -", "one lzip 0 w"])
            if rc != 0 or len(o) != 3:
                okf = False
                break
            t = o[2].split()
            if int(t[1]) != 1:
                okf = False
                break
            ln, outlen = int(t[2]), int(t[4])
            members.append((d[pos:pos + ln], outlen, d[pos + 4]))
            pos += ln
        if not okf or not members:
            continue
        try:
            pt = L.run_xz(xz, ["-dc", "--format=lzip"], d)
        except RuntimeError:
            continue
        ms, q = [], 0
        for (mb, ol, ver) in members:
            ms.append((mb, pt[q:q + ol], ver))
            q += ol
        if q != len(pt):
            continue
        f = L.make_lz_file("seed:" + os.path.basename(p), ms, trailing=d[pos:])
        f["bcj"] = False
        out.append(f)
    return out


def generated_files(ctx, n_small, n_large, max_small=2048, large_sizes=(6000, 20000, 60000)):
    rng = ctx.rng
    xz = xz_bin()
    files = []
    kinds = ("text", "random", "zeros", "ramp", "x86", "mixed")
    # every check type and every encoder mode at least once among the small files
    forced = [(c, m) for c in (0, 1, 4, 10) for m in ("plain", "blocks-nosize", "blocks-mt", "blocklist", "delta", "bcj", "lclppb")]
    rng.shuffle(forced)
    i = 0
    tries = 0
    while len(files) < n_small and tries < 20 * n_small + 50:
        tries += 1
        check, mode = forced[i % len(forced)] if i < len(forced) else (None, None)
        n = rng.choice((0, 1, 7, 30, 90, 200, 450, 900))
        pt = L.plaintext(rng, n, rng.choice(kinds))
        sb, desc = L.gen_xz_stream(xz, rng, pt, check=check, mode=mode)
        streams, pads = [(sb, pt)], [rng.choice((0, 0, 0, 4, 8))]
        if rng.random() < 0.35:
            pt2 = L.plaintext(rng, rng.choice((0, 9, 120)), rng.choice(kinds))
            sb2, d2 = L.gen_xz_stream(xz, rng, pt2)
            streams.append((sb2, pt2))
            pads.append(rng.choice((0, 4)))
            desc += " ++ " + d2
        f = L.make_xz_file("gen%d: %s" % (i, desc), streams, pads)
        if len(f["data"]) > max_small:
            continue
        f["bcj"] = "mode=bcj" in desc
        files.append(f)
        i += 1
    for j in range(n_large):
        n = rng.choice(large_sizes)
        pt = L.plaintext(rng, n, rng.choice(("text", "mixed", "ramp", "x86")))
        sb, desc = L.gen_xz_stream(xz, rng, pt)
        streams, pads = [(sb, pt)], [rng.choice((0, 4))]
        if rng.random() < 0.5:
            pt2 = L.plaintext(rng, 300, "text")
            sb2, d2 = L.gen_xz_stream(xz, rng, pt2)
            streams.append((sb2, pt2))
            pads.append(0)
            desc += " ++ " + d2
        f = L.make_xz_file("large%d: %s" % (j, desc), streams, pads)
        f["bcj"] = "mode=bcj" in desc
        f["large"] = True
        files.append(f)
    return files


def generated_legacy(ctx, n):
    """.lzma and .lz files: .lzma from the real encoder; .lz members = raw LZMA1 (lc3 lp0 pb2, end marker) from the real
    encoder wrapped in the lzip header and trailer by hand."""
    rng = ctx.rng
    xz = xz_bin()
    out = []
    for i in range(n):
        pt = L.plaintext(rng, rng.choice((0, 1, 20, 150, 500)), rng.choice(("text", "random", "ramp")))
        d = L.gen_lzma(xz, rng, pt)
        f = L.make_lzma_file("gen-lzma%d" % i, d, pt)
        f["bcj"] = False
        out.append(f)
        if rng.random() < 0.5:
            # same stream with the uncompressed size filled in: "known size with end marker"
            d2 = d[:5] + len(pt).to_bytes(8, "little") + d[13:]
            f2 = L.make_lzma_file("gen-lzma%d-known" % i, d2, pt)
            f2["bcj"] = False
            out.append(f2)
    for i in range(n):
        k = rng.choice((1, 1, 2, 3))
        ms = []
        for _ in range(k):
            pt = L.plaintext(rng, rng.choice((0, 1, 20, 150, 400)), rng.choice(("text", "random", "ramp")))
            ver = rng.choice((1, 1, 1, 0))
            ms.append((L.gen_lz_member(xz, rng, pt, version=ver), pt, ver))
        trailing = bytes(rng.getrandbits(8) | 0x80 for _ in range(rng.choice((0, 0, 5)))) if ms[-1][2] == 1 else b""
        f = L.make_lz_file("gen-lz%d (%d members%s)" % (i, k, ", trailing" if trailing else ""), ms, trailing)
        f["bcj"] = False
        out.append(f)
    return out


# ------------------------------------------------------------------------------------------------------------------
# plans
# ------------------------------------------------------------------------------------------------------------------

def api_configs(ctx, f, exhaustive):
    rng = ctx.rng
    if f["fmt"] == "xz":
        cfg = [("sd", 0), ("sd", 8), ("sbd", 0), ("mt2", 8), ("auto", 8)]
        cfg.append(("sd", rng.choice((1, 2, 4, 7, 16, 24, 31))))
        cfg.append(("sbd", rng.choice((8, 1, 16, 2))))
        if not exhaustive or rng.random() < 0.3:
            cfg.append(("mt4", rng.choice((0, 16, 40))))
        return cfg
    if f["fmt"] == "lzma":
        return [("alone", 0), ("auto", 0), ("auto", 8)]
    return [("lzip", 0), ("lzip", 8), ("auto", 8), ("lzip", 16), ("lzip", 24), ("auto", 24), ("lzip", rng.choice((4, 12, 20, 28)))]


def plan_file(ctx, fi, f, exhaustive, n_edits):
    """Returns tasks: list of (file_index, [op lines], [(api, flags, kind, pos, edit)] per expected output line)."""
    rng = ctx.rng
    n = len(f["data"])
    tasks = []
    CH = 1500
    for (api, flags) in api_configs(ctx, f, exhaustive):
        ops, descs = ["one %s %d w" % (api, flags)], [(api, flags, "w", 0, None)]
        if exhaustive:
            for a in range(0, 8 * n, CH):
                b = min(8 * n, a + CH)
                ops.append("flips %s %d %d %d" % (api, flags, a, b))
                descs += [(api, flags, "f", i, None) for i in range(a, b)]
            for a in range(0, n + 1, CH):
                b = min(n + 1, a + CH)
                ops.append("truncs %s %d %d %d" % (api, flags, a, b))
                descs += [(api, flags, "t", i, None) for i in range(a, b)]
        else:
            for _ in range(n_edits):
                r = rng.random()
                if r < 0.25:
                    bit = rng.randrange(8 * n)
                    ops.append("one %s %d f %d" % (api, flags, bit))
                    descs.append((api, flags, "f", bit, None))
                elif r < 0.4:
                    t = rng.randrange(n) if rng.random() < 0.7 else rng.choice([u[1] for u in f["units"]] + [n - 1, n - 4])
                    t = max(0, min(n, t))
                    ops.append("one %s %d t %d" % (api, flags, t))
                    descs.append((api, flags, "t", t, None))
                else:
                    off = rng.randrange(n + 1)
                    kind = rng.choice(("ovw", "ovw", "ins", "del", "zero"))
                    if kind in ("ovw", "zero"):
                        k = min(rng.randrange(1, 9), n - off)
                        ins = bytes(k) if kind == "zero" else bytes(rng.getrandbits(8) for _ in range(k))
                        dl = k
                    elif kind == "ins":
                        dl, ins = 0, bytes(rng.getrandbits(8) if rng.random() < 0.8 else 0 for _ in range(rng.randrange(1, 13)))
                    else:
                        dl, ins = min(rng.randrange(1, 13), n - off), b""
                    if f["data"][off:off + dl] == ins:
                        continue
                    ops.append("one %s %d e %d %d %s" % (api, flags, off, dl, vlib.hexs(ins)))
                    descs.append((api, flags, "e", off, (kind, dl, vlib.hexs(ins))))
        # split into tasks of bounded size
        cur_ops, cur_descs, cur_n = [], [], 0
        di = 0
        for op in ops:
            t = op.split()
            cnt = (int(t[4]) - int(t[3])) if t[0] in ("flips", "truncs") else 1
            cur_ops.append(op)
            cur_descs += descs[di:di + cnt]
            di += cnt
            cur_n += cnt
            if cur_n >= 2500:
                tasks.append((fi, cur_ops, cur_descs))
                cur_ops, cur_descs, cur_n = [], [], 0
        if cur_ops:
            tasks.append((fi, cur_ops, cur_descs))
    return tasks


def plan_crafted(ctx, files, fi, f):
    """Crafted variants of an .xz file (field changed + covering CRC32 recomputed): each becomes a pseudo file whose
    bytes are decoded as they are (`base <variant>` then `one <api> <flags> w`). Appends the pseudo files to `files`
    and returns two tasks (APIs with a model / threaded decoder); a desc carries the pseudo file's index as 6th field."""
    groups = ([("sd", 0), ("sd", 8), ("sbd", 0), ("auto", 8), ("sd", 16)], [("mt2", 8), ("mt4", 0)])
    ops = [[], []]
    descs = [[], []]
    for (what, field, data, must_reject) in L.crafted_variants(f, ctx.rng):
        g = dict(f)
        g["data"] = data
        g["name"] = f["name"] + " [crafted: " + what + "]"
        g["crafted"] = (what, field, must_reject)
        files.append(g)
        gi = len(files) - 1
        for k, cfgs in enumerate(groups):
            ops[k].append("base " + vlib.hexs(data))
            descs[k].append((cfgs[0][0], 0, "b", 0, None, gi))
            for (a, fl) in cfgs:
                ops[k].append("one %s %d w" % (a, fl))
                descs[k].append((a, fl, "w", 0, None, gi))
        ctx.count("crafted:" + field)
    return [(fi, ops[k], descs[k]) for k in (0, 1) if ops[k]]


def independent_files(ctx, quick):
    """(A) Files whose integrity does not rest on the library agreeing with itself.
    (i) hand-assembled Streams (LZMA2 uncompressed chunks) with Check fields computed by Python (zlib / hashlib / a bitwise
        CRC-64): SHA-256 at every payload length residue mod 64, CRC32/CRC64 at every residue mod 16, single and two Blocks;
    (ii) Streams from the real encoder over incompressible data (so the payload bytes are the data bytes) at the lengths
        where SHA-256 padding spills into a second block (size mod 64 = 55..63) and around them.
    Each record carries `tail_ranges`: per Block the byte range of the file whose last 64 bytes are to be damaged."""
    rng = ctx.rng
    out = []
    sha_lens = list(range(64, 128)) if quick else list(range(0, 128)) + [183, 191, 700, 1016, 1087, 2000]
    crc_lens = list(range(0, 18)) if quick else list(range(0, 40)) + [255, 256, 257, 1000]
    plan = [(10, n) for n in sha_lens] + [(1, n) for n in crc_lens] + [(4, n) for n in crc_lens] + [(0, 33)]
    for (check, n) in plan:
        data = bytes(rng.getrandbits(8) for _ in range(n))
        blocks = [data] if rng.random() < 0.8 or n < 2 else [data[:n // 3], data[n // 3:]]
        sb, ranges = L.assemble_xz_stream(blocks, check)
        f = L.make_xz_file("independent: check=%s len=%d blocks=%d (Python-computed Check, uncompressed chunks)" % (L.CHECK_NAMES[check], n, len(blocks)),
                           [(sb, data)], [0])
        f["bcj"] = False
        f["tail_only"] = True
        f["tail_ranges"] = ranges
        out.append(f)
    xz = xz_bin()
    for n in ([55, 56, 57, 60, 63, 64, 119, 120, 123, 127] if quick else list(range(48, 72)) + list(range(112, 136)) + [700, 1016, 1087]):
        data = bytes(rng.getrandbits(8) for _ in range(n))
        sb = L.run_xz(xz, ["-c", "--check=sha256", "--lzma2=dict=4KiB", "-T1"], data)
        f = L.make_xz_file("encoder: check=sha256 len=%d incompressible data" % n, [(sb, data)], [0])
        f["bcj"] = False
        f["tail_only"] = True
        f["tail_ranges"] = [(a, b) for (a, b, nme) in f["segs"] if nme == "blk.data"]
        out.append(f)
    return out


def plan_tail(ctx, fi, f, quick):
    """The undamaged file must be accepted with the original data (for the hand-assembled files this is the statement
    "the decoder's check equals the independent implementation's"), and every single-bit flip in the last 64+ bytes of each
    Block's data and in its Check field must not be accepted with different data."""
    cfgs = [("sd", 0), ("mt2", 8)] if quick else [("sd", 0), ("mt2", 8), ("sbd", 0)]
    spans = []
    for (a, b) in f["tail_ranges"]:
        spans.append((max(a, b - 66), b))
    spans += [(a, b) for (a, b, nme) in f["segs"] if nme == "blk.check"]
    tasks = []
    for (api, fl) in cfgs:
        ops, descs = ["one %s %d w" % (api, fl)], [(api, fl, "w", 0, None)]
        for (a, b) in spans:
            if b > a:
                ops.append("flips %s %d %d %d" % (api, fl, 8 * a, 8 * b))
                descs += [(api, fl, "f", i, None) for i in range(8 * a, 8 * b)]
        tasks.append((fi, ops, descs))
    return tasks


STREAM_APIS_BY_FMT = {"xz": [("sd", 8), ("sd", 0), ("mt2", 8), ("mt4", 0), ("auto", 8)],
                      "lzma": [("alone", 0), ("auto", 0)],
                      "lz": [("lzip", 8), ("lzip", 0), ("auto", 8)]}


def plan_padding(ctx, files, fi, f):
    """Damaged Stream Padding (lengths 1,2,3,5,6,7, a non-zero byte inside; at EOF and between Streams), decoded with
    LZMA_CONCATENATED by the single- and multi-threaded decoders, whole and in ALL 2-piece and 3-piece splits whose cut
    points lie in or next to the padding (a cut at the very end = an empty LZMA_FINISH piece). Every run must reject."""
    tasks = []
    for group in ([("sd", 8), ("auto", 8)], [("mt2", 8), ("mt4", 8)]):
        ops, descs = [], []
        for (what, data, r0, r1) in L.padding_variants(f):
            g = dict(f)
            g["data"] = data
            g["name"] = f["name"] + " [" + what + "]"
            g["crafted"] = (what, "spad", True)
            files.append(g)
            gi = len(files) - 1
            n = len(data)
            offs = sorted({o for o in range(r0 - 2, r1 + 3) if 0 < o <= n})
            cuts = [(a,) for a in offs] + [(a, b) for i, a in enumerate(offs) for b in offs[i + 1:]]
            ops.append("base " + vlib.hexs(data))
            descs.append((group[0][0], 0, "b", 0, None, gi))
            for (a, fl) in group:
                ops.append("slice 0")
                descs.append((a, fl, "s", 0, None, gi))
                ops.append("one %s %d w" % (a, fl))
                descs.append((a, fl, "w", 0, None, gi, "0"))
                for c in cuts:
                    sp = "c " + " ".join(str(x) for x in c)
                    ops.append("slice " + sp)
                    descs.append((a, fl, "s", 0, None, gi))
                    ops.append("one %s %d w" % (a, fl))
                    descs.append((a, fl, "w", 0, None, gi, sp))
            ctx.count("padding-variants")
        ops.append("slice 0")
        descs.append((group[0][0], 0, "s", 0, None, fi))
        if ops:
            tasks.append((fi, ops, descs))
    return tasks


def plan_splits(ctx, fi, f):
    """The undamaged file under systematic input slicing: every 2-piece split inside the non-payload fields (headers,
    paddings, Index, footers; at most 160 offsets), 1-, 2- and 3-byte pieces, and seeded random slicings, for every
    lzma_stream decoder of the format. The verdict (and for accepted files output and length) must be that of the
    whole-buffer run."""
    n = len(f["data"])
    offs = set()
    for (a, b, nme) in f["segs"]:
        if not nme.endswith(".data"):
            offs.update(range(a, b + 1))
    offs = sorted(o for o in offs if 0 < o <= n)
    if len(offs) > 160:
        offs = sorted(ctx.rng.sample(offs, 160))
    specs = ["k 1", "k 2", "k 3"] + ["r %d" % ctx.rng.randrange(1 << 30) for _ in range(4)] + ["c %d" % o for o in offs]
    pads = [(a, b) for (a, b, nme) in f["segs"] if nme == "spad"]
    for (a, b) in pads:
        inner = list(range(a, b + 1))
        specs += ["c %d %d" % (x, y) for i, x in enumerate(inner) for y in inner[i + 1:]]
    tasks = []
    for (api, fl) in STREAM_APIS_BY_FMT[f["fmt"]]:
        ops, descs = ["slice 0", "one %s %d w" % (api, fl)], [(api, fl, "s", 0, None, fi), (api, fl, "w", 0, None, fi, "0")]
        for sp in specs:
            ops += ["slice " + sp, "one %s %d w" % (api, fl)]
            descs += [(api, fl, "s", 0, None, fi), (api, fl, "w", 0, None, fi, sp)]
        ops.append("slice 0")
        descs.append((api, fl, "s", 0, None, fi))
        tasks.append((fi, ops, descs))
    return tasks


def same_verdict(api, ref, got, bcj=False):
    """Is the result of a sliced run the verdict of the whole-buffer run? Status and notices always; for accepted input
    also consumed count and output."""
    a, b = parse_res(ref), parse_res(got)
    if a is None or b is None:
        return False
    if a["ret"] != b["ret"] or a["notices"] != b["notices"]:
        return False
    if L.is_success(api, a["ret"]):
        return (a["consumed"], a["outlen"], a["lcp"], a["crc"]) == (b["consumed"], b["outlen"], b["lcp"], b["crc"])
    return True


# ------------------------------------------------------------------------------------------------------------------
# the direct oracle
# ------------------------------------------------------------------------------------------------------------------

def parse_res(line):
    t = line.split()
    if len(t) != 7:
        return None
    return dict(tag=t[0], ret=int(t[1]), consumed=int(t[2]), notices=t[3], outlen=int(t[4]), lcp=int(t[5]), crc=t[6])


def lz_trailing_rule_case(f, api, flags, kind, pos, res):
    """The known finding KEY_LZ_TRAILING, matched tightly: .lz with LZMA_CONCATENATED (or `xz -dc`), success, output =
    exactly the first j < k members, and the damage is (a) a bit flip in the four magic bytes of member j+1, (b) a bit
    flip in the version byte of member j (1 -> 0: its 8-byte Member size field and everything after it become
    "trailing data"), or (c) a cut 1-3 bytes into member j+1. Anything else that loses data is NOT covered by the key."""
    if f["fmt"] != "lz" or not L.concat_mode(f, api, flags) or res["lcp"] != res["outlen"]:
        return False
    units = f["units"]
    acc = 0
    for j in range(1, len(units)):
        acc += units[j - 1][2]
        if res["outlen"] != acc:
            continue
        s_next = units[j][0]
        s_last = units[j - 1][0]
        # (a flip that loses nothing because the later members are empty is "accepted-same-data", decided before this)
        if kind == "f" and acc < len(f["plain"]) and (s_next <= pos // 8 < s_next + 4 or pos // 8 == s_last + 4):
            return True
        # a cut inside the magic of a later member is reported as complete even when that member holds no data
        if kind == "t" and s_next < pos < s_next + 4:
            return True
    return False


def judge(f, desc, res):
    """Classify one result of the real decoder. Returns (category, violation text or None, known-finding key or None)."""
    api, flags, kind, pos, edit = desc[:5]
    ret = res["ret"]
    if ret == 101:
        return "abort", "the library called abort() (assertion failure) on this input", None
    if ret == 102:
        return "hang", "no final verdict after 10000 lzma_code() calls", None
    if ret == 100:
        return "outfull", None, None
    succ = L.is_success(api, ret)
    concat = L.concat_mode(f, api, flags)
    total = len(f["plain"])
    p1 = f["units"][0][2]
    if not succ:
        return "rejected-%d" % ret, None, None
    same = lambda want: res["outlen"] == want and res["lcp"] == want
    if kind == "w" and f.get("crafted"):
        if f["crafted"][2]:
            return "crafted-accepted", "a file with the non-payload field %s changed (%s) was accepted" % (f["crafted"][1], f["crafted"][0]), None
        # a Block Flags / Filter Flags change can yield another valid header (e.g. a larger dictionary): same data required
        want = total if concat else p1
        if same(want):
            return "crafted-valid-variant-same-data", None, None
        if L.has_verified_check(f, api, flags):
            return "crafted-accepted-different-data", "a file with %s changed (%s) was accepted with different output" % (f["crafted"][1], f["crafted"][0]), None
        return "accepted-different-no-check", None, None
    if kind == "w":
        want = total if concat else p1
        if not same(want):
            return "undamaged-file-misdecoded", "the undamaged file does not decode to the original data", None
        return "undamaged-ok", None, None
    if kind == "t":
        okm = L.valid_cut_outputs(f, api, flags)
        if pos in okm and same(okm[pos]):
            return "cut-at-unit-boundary-complete", None, None
        if lz_trailing_rule_case(f, api, flags, kind, pos, res):
            return "lz-trailing-rule", "a .lz file cut inside the magic bytes of a later member is reported as complete (trailing-data rule)", KEY_LZ_TRAILING
        return "truncated-accepted", "a file that ends inside a stream was reported as complete", None
    # flips and edits
    want = total if concat else p1
    field = L.field_at(f["segs"], pos // 8 if kind == "f" else pos)
    if kind == "f" and f["fmt"] == "lz" and pos // 8 < L.visible_end(f, api, flags) and (
            field in LZ_SIZE_FIELDS or (field == "lz.crc32" and not (flags & L.IGNORE_CHECK))):
        if not lz_trailing_rule_case(f, api, flags, kind, pos, res):
            return "lz-footer-damage-accepted", "a bit flip in the .lz footer field %s was accepted (flags %d)" % (field, flags), None
    if same(want):
        if kind == "f" and f["fmt"] == "xz" and field in NONPAYLOAD_XZ and pos // 8 < L.visible_end(f, api, flags):
            exempt = field == "blk.check" and ((flags & L.IGNORE_CHECK) or not all(c in L.SUPPORTED_CHECKS for c in f["checks"]))
            if not exempt:
                return "nonpayload-accepted", "a bit flip in the non-payload field %s was accepted" % field, None
        return "accepted-same-data", None, None
    if lz_trailing_rule_case(f, api, flags, kind, pos, res):
        return "lz-trailing-rule", "damage to the magic bytes of a later .lz member is reported as success with the earlier members only (trailing-data rule)", KEY_LZ_TRAILING
    if kind == "f" and f["fmt"] == "xz" and field in NONPAYLOAD_XZ and pos // 8 < L.visible_end(f, api, flags):
        return "nonpayload-accepted", "a bit flip in the non-payload field %s was accepted (with different output)" % field, None
    if L.has_verified_check(f, api, flags):
        return "accepted-different-data", "damaged file accepted with output that differs from the original although an integrity check is present", None
    return "accepted-different-no-check", None, None


# ------------------------------------------------------------------------------------------------------------------
# running
# ------------------------------------------------------------------------------------------------------------------

TASK_TIMES = []


def run_task(exe, f, ops, nexp, reuse=False, slice_spec=None):
    """`reuse`: the C harness runs every lzma_stream case of this task on one persistent, re-initialised handle (no
    lzma_end in between); the answers must be those of fresh handles, i.e. the model's."""
    head = ["base " + vlib.hexs(f["data"]), "orig " + vlib.hexs(f["plain"])] + (["reuse 1"] if reuse else [])
    if slice_spec:
        head.append("slice " + slice_spec)      # input fed in pieces across lzma_code() calls (ignored by the model)
    t0 = time.time()
    rc, out, err = vlib.run_lines([exe], head + ops, timeout=3000)
    TASK_TIMES.append((time.time() - t0, os.path.basename(exe), f["name"][:50], nexp))
    if rc != 0 or len(out) != nexp + len(head):
        return None, rc, err
    return out[len(head):], rc, err


def replay_dict(f, desc, res_c, res_m, what, slice_spec=None):
    api, flags, kind, pos, edit = desc[:5]
    if slice_spec is None and len(desc) > 6 and desc[6] != "0":
        slice_spec = desc[6]
    if kind == "w":
        op = "one %s %d w" % (api, flags)
    elif kind in ("f", "t"):
        op = "one %s %d %s %d" % (api, flags, kind, pos)
    else:
        op = "one %s %d e %d %d %s" % (api, flags, pos, edit[1], edit[2])
    return {"kind": what, "file": f["name"], "format": f["fmt"], "base_hex": f["data"].hex(), "orig_hex": f["plain"].hex(),
            "api": api, "flags": flags, "damage": {"kind": kind, "pos": pos, "edit": edit,
                                                   "field": L.field_at(f["segs"], pos // 8 if kind == "f" else pos) if kind != "w" else None},
            "op": op, "ops": (["slice " + slice_spec, op] if slice_spec else [op]), "impl": res_c, "model": res_m,
            "how_to_replay": "printf 'base <base_hex>\\norig <orig_hex>\\n<op>\\n' | .cache/harness-asan/c05   (answer: tag ret consumed notices outlen lcp crc64)"}


def run(ctx):
    quick = ctx.quick()
    ctx.cov["rule"] = ("valid .xz/.lzma/.lz files made by the repo's encoder (all four check types, single/multi Block with and without "
                       "size fields, block lists, delta/BCJ chains, lc/lp/pb variants, multi-Stream with Stream Padding, .lz multi-member "
                       "with trailing data) + tests/files/good-*; damage = every single bit and every truncation length for files <= 2 KiB, "
                       "random multi-byte overwrite/insert/delete/zeroing for larger ones; one case = (file, decoder API, flags, damage); "
                       "non-trivial = the damaged bytes differ from the original")
    ctx.assumptions += [
        "Lean 4 kernel; the container model's payload decoder and check function are parameters of every theorem",
        "index hash: SHA-256 of the (unpadded, uncompressed) pairs is modelled as the list of pairs (no collision among compared lists)",
        "the harness feeds the same damaged bytes to the C code and to the model driver; the Python structural parser assigns flipped bits to fields",
        "the output buffer (48 MiB) is never the limiting factor (cases where it fills up are counted as 'outfull' and not judged)",
        "locality theorems (prefix_free, index/footer/padding/check flips) are stated for an abstract payload decoder with PayloadLocal and PayloadBounded; both are proved for XzEnv.stdEnv (payload_local_std, payload_bounded_std), giving the hypothesis-free *_std corollaries",
        "the .lzma/.lz/auto models are those of C16 (Model/Alone.lean, Lzip.lean, Auto.lean); a disagreement there is reported as a C05 correspondence break",
    ]
    # P
    p_ok = ctx.lean_stage(PROP_MODULES, exes=["xzm_c05"])
    # B
    okb, log, _ = vlib.c_build("asan", targets=["liblzma"])
    if not okb:
        ctx.obligation_broken("stage B: /repo does not build (asan)", log)
        return "proof"
    okr, log, _ = vlib.c_build("rel", targets=["xz", "xzdec"])
    if not okr:
        ctx.obligation_broken("stage B: /repo does not build (rel: xz, xzdec)", log)
        return "proof"
    okh, log, exe = vlib.harness_build("c05", HARNESS)
    if not okh:
        ctx.obligation_broken("stage B: C05 harness does not compile against /repo", log)
        return "proof"
    mexe = vlib.model_exe("xzm_c05")
    model_ok = p_ok and os.path.exists(mexe)

    # files
    t0 = time.time()
    seeds = seed_files(ctx, exe)
    if quick:
        rng = ctx.rng
        seeds_x = [s for s in seeds if len(s["data"]) <= 100]
        rng.shuffle(seeds_x)
        seeds_x = seeds_x[:5] + [s for s in seeds if s["fmt"] != "xz"][:3]
        small = generated_files(ctx, 6, 1, max_small=640, large_sizes=(6000, 12000))
        legacy = generated_legacy(ctx, 2)
        n_edits = 40
    else:
        seeds_x = seeds
        small = generated_files(ctx, 50, 10)
        legacy = generated_legacy(ctx, 8)
        n_edits = 300
    indep = independent_files(ctx, quick)
    files = seeds_x + small + legacy + indep
    ctx.log("files: %d (%d seeds, %d generated .xz, %d .lzma/.lz) in %.1fs" % (len(files), len(seeds_x), len(small), len(legacy), time.time() - t0))
    tasks = []
    crafted_src = []
    for fi, f in enumerate(files):
        if f.get("tail_only"):
            tasks += plan_tail(ctx, fi, f, quick)
            ctx.count("files:independent-check" if f["name"].startswith("independent") else "files:encoder-incompressible-sha256")
            continue
        exhaustive = not f.get("large") and len(f["data"]) <= 2048
        tasks += plan_file(ctx, fi, f, exhaustive, n_edits)
        if f["fmt"] == "xz" and exhaustive and not f["name"].startswith("seed:"):
            crafted_src.append((fi, f))
        ctx.count("files:" + f["fmt"] + (":exhaustive" if exhaustive else ":random-edits"))
        for c in f.get("checks", []):
            ctx.count("stream-check:" + L.CHECK_NAMES.get(c, str(c)))
    for (fi, f) in crafted_src:
        tasks += plan_crafted(ctx, files, fi, f)
    # input slicing: systematic splits of the undamaged small files, and damaged Stream Padding in all 2-/3-piece splits
    smalls = [(fi, f) for fi, f in enumerate(files) if not f.get("large") and not f.get("crafted") and not f.get("tail_only") and len(f["data"]) <= 2048]
    for (fi, f) in smalls if not quick else smalls[:10]:
        tasks += plan_splits(ctx, fi, f)
        ctx.count("files:systematic-splits")
    pad_src = sorted([(fi, f) for (fi, f) in smalls if f["fmt"] == "xz" and not f.get("bcj")], key=lambda x: len(x[1]["data"]))
    multi = [x for x in pad_src if len(x[1]["units"]) > 1]
    single = [x for x in pad_src if len(x[1]["units"]) == 1 and len(x[1]["plain"]) > 0]
    for (fi, f) in (multi[:1] + single[:1]) if quick else (multi[:3] + single[:3]):
        tasks += plan_padding(ctx, files, fi, f)
    # task-level slicing of the damage sweeps: a seeded part of the tasks feeds every case in pieces; the reference is
    # the model (whole-buffer semantics) or, for the threaded decoder, a whole-buffer twin of the same task
    norm, npairs = [], 0
    for t in tasks:
        fi, ops, descs = t[:3]
        sl, pid = None, None
        api = descs[0][0]
        if len(descs[0]) == 5 and api != "sbd":
            n = len(files[fi]["data"])
            r = ctx.rng.random()
            if api.startswith("mt"):
                r = (0.45 + 0.55 * ctx.rng.random()) if r < 0.3 else 0.0    # 30% of the threaded tasks are sliced (each costs a twin)
            if r < 0.45:
                sl = None
            elif r < 0.72:
                sl = "r %d" % ctx.rng.randrange(1 << 30)
            elif r < 0.82:
                sl = "c 2"
            elif r < 0.92:
                sl = "k %d" % (ctx.rng.choice((1, 1, 2, 3)) if n <= 400 else ctx.rng.choice((7, 13, 64)))
            else:
                sl = "c %d %d" % tuple(sorted((ctx.rng.randrange(1, n + 1), ctx.rng.randrange(1, n + 1)))) if n > 0 else None
            if sl and api.startswith("mt"):
                npairs += 1
                pid = npairs
                norm.append((fi, ops, descs, None, -pid))
        norm.append((fi, ops, descs, sl, pid))
        ctx.count("tasks:sliced-input" if sl else "tasks:whole-input")
    tasks = norm
    tasks.sort(key=lambda t: -len(t[2]) * (len(files[t[0]]["plain"]) + 2 * len(files[t[0]]["data"]) + 200))
    ctx.log("tasks: %d, cases: %d" % (len(tasks), sum(len(t[2]) for t in tasks)))

    # C side
    t0 = time.time()
    # handle reuse: a seeded half of the tasks runs on a persistent lzma_stream (re-init without lzma_end after a case
    # that ended in success / error / mid-stream abandon); state that an init function sets only when it first
    # allocates its coder shows up as a difference from the model, which knows nothing about handles
    reuse = [ctx.rng.random() < 0.5 for _ in tasks]
    ctx.count("tasks:reused-handle", sum(reuse))
    ctx.count("tasks:fresh-handle", len(reuse) - sum(reuse))
    res_c = vlib.par_map(lambda it: run_task(exe, files[it[1][0]], it[1][1], len(it[1][2]), reuse[it[0]], it[1][3]), list(enumerate(tasks)))
    ctx.log("C harness done in %.1fs" % (time.time() - t0))
    for ti0, ((out, rc, err), t) in enumerate(zip(res_c, tasks)):
        if out is None:
            # the harness died: find the op
            f = files[t[0]]
            if reuse[ti0]:
                o2, rc2, e2 = run_task(exe, f, t[1], len(t[2]), False, t[3])
                if o2 is not None:
                    ctx.violation("harness-abort-reused-handle", {"kind": "implementation aborted (sanitizer/assert/crash) only when the lzma_stream handle is reused without lzma_end",
                                                                   "file": f["name"], "base_hex": f["data"].hex(), "orig_hex": f["plain"].hex(),
                                                                   "ops": ["reuse 1"] + t[1], "stderr": err}, True)
                    return "proof"
            cur_base = None
            for op in t[1]:
                tt = op.split()
                if tt[0] == "base":
                    cur_base = op
                    continue
                cnt = (int(tt[4]) - int(tt[3])) if tt[0] in ("flips", "truncs") else 1
                o1, rc1, e1 = run_task(exe, f, ([cur_base, op] if cur_base else [op]), cnt + (1 if cur_base else 0), False, t[3])
                if o1 is None:
                    ctx.violation("harness-abort", {"kind": "implementation aborted (sanitizer/assert/crash)", "file": f["name"],
                                                    "base_hex": (cur_base.split()[1] if cur_base else f["data"].hex()), "orig_hex": f["plain"].hex(), "op": op, "stderr": e1}, True)
                    return "proof"
            ctx.obligation_broken("C harness failed on a task but not on its ops one by one", err)
            return "proof"
    # model side
    res_m = None
    if model_ok:
        t0 = time.time()
        mtasks = [(i, t) for i, t in enumerate(tasks) if t[2][0][0] in MODEL_APIS]
        outs = vlib.par_map(lambda it: run_task(mexe, files[it[1][0]], it[1][1], len(it[1][2]), reuse[it[0]], it[1][3]), mtasks)
        res_m = {}
        for (i, t), (out, rc, err) in zip(mtasks, outs):
            if out is None:
                ctx.obligation_broken("model driver xzm_c05 failed to answer a task", "rc=%s %s\nops=%s" % (rc, err, t[1][:3]))
                res_m = None
                break
            res_m[i] = out
        ctx.log("model done in %.1fs" % (time.time() - t0))
        ctx.log("slowest tasks: %s" % sorted(TASK_TIMES, reverse=True)[:6])

    # judge + compare
    per_field, verdicts = {}, {}
    n_viol, n_mism, compared = 0, 0, 0
    whole_ref, n_slice_cmp, n_slice_bad = {}, 0, 0
    for ti, (t, (out, _, _)) in enumerate(zip(tasks, res_c)):
        f = files[t[0]]
        mo = res_m.get(ti) if res_m is not None else None
        for k, (desc, line) in enumerate(zip(t[2], out)):
            api, flags, kind, pos, edit = desc[:5]
            if kind in ("b", "s"):
                continue          # a `base` / `slice` line inside a batch
            if len(desc) > 5:
                f = files[desc[5]]
            case_slice = desc[6] if len(desc) > 6 else None
            sliced = bool(t[3]) or (case_slice not in (None, "0"))
            if case_slice == "0":
                whole_ref[(desc[5], api, flags)] = line
            elif case_slice is not None:
                n_slice_cmp += 1
                ref = whole_ref.get((desc[5], api, flags))
                if ref is not None and not same_verdict(api, ref, line, f.get("bcj")):
                    n_slice_bad += 1
                    if n_slice_bad <= 4:
                        rd = replay_dict(f, desc, line, ref, "the verdict depends on how the input is sliced across lzma_code() calls")
                        rd["op"] = None
                        rd["ops"] = ["slice 0", "one %s %d w" % (api, flags), "slice " + case_slice, "one %s %d w" % (api, flags)]
                        rd["whole_buffer"] = ref
                        ctx.violation("slicing-changes-verdict", rd, True)
            res = parse_res(line)
            if res is None:
                ctx.obligation_broken("unparsable harness line", line)
                continue
            cat, viol, key = judge(f, desc, res)
            ctx.case((f["name"], api, flags, kind, pos, edit), nontrivial=(kind != "w"),
                     sample={"file": f["name"], "api": api, "flags": flags, "damage": [kind, pos], "impl": line} if (ti * 7919 + k) % 50021 == 0 else None)
            ctx.count("%s:%s" % (api.rstrip("0123456789"), cat), table="distribution")
            if sliced:
                ctx.count("cases:sliced-input")
            if kind == "f":
                fld = L.field_at(f["segs"], pos // 8)
                d = per_field.setdefault(fld, {"cases": 0, "rejected": 0, "accepted_same": 0, "accepted_different": 0, "not_examined": 0})
                d["cases"] += 1
                if cat.startswith("rejected"):
                    d["rejected"] += 1
                elif pos // 8 >= L.visible_end(f, api, flags):
                    d["not_examined"] += 1
                elif cat == "accepted-same-data":
                    d["accepted_same"] += 1
                elif cat.startswith("accepted") or cat in ("nonpayload-accepted", "lz-trailing-rule"):
                    d["accepted_different"] += 1
            elif kind == "t":
                v = verdicts.setdefault("trunc:" + api.rstrip("0123456789"), {})
                v[cat] = v.get(cat, 0) + 1
            if viol is not None and n_viol < 6:
                p = ctx.violation(cat, replay_dict(f, desc, line, mo[k] if mo else None, viol, t[3]), True, key=key)
                if p is not None:
                    n_viol += 1
            if mo is not None:
                ml = mo[k]
                if res["ret"] in (5, 6, 100, 101, 102):
                    ctx.count("correspondence-skipped:ret%d" % res["ret"])
                    continue
                compared += 1
                if ml == line:
                    continue
                if sliced and same_verdict(api, ml, line):
                    ctx.count("correspondence:sliced-rejected-status-only")
                    continue
                if f.get("bcj") and not L.is_success(api, res["ret"]):
                    a, b = line.split(), ml.split()
                    if a[:4] == b[:4]:
                        ctx.count("correspondence:bcj-rejected-status-only")
                        continue
                n_mism += 1
                if n_mism <= 5:
                    ctx.obligation_broken("correspondence C05: model and implementation disagree (%s %s %d, %s %d on %s)" % (f["fmt"], api, flags, kind, pos, f["name"]),
                                          json.dumps(replay_dict(f, desc, line, ml, "model/implementation disagreement", t[3])))
    # threaded decoder: sliced task against its whole-buffer twin
    by_pair = {}
    for ti, t in enumerate(tasks):
        if t[4]:
            by_pair.setdefault(abs(t[4]), {})["whole" if t[4] < 0 else "sliced"] = ti
    for pid, d in by_pair.items():
        if "whole" not in d or "sliced" not in d:
            continue
        tw, ts = tasks[d["whole"]], tasks[d["sliced"]]
        f = files[ts[0]]
        for desc, lw, ls in zip(ts[2], res_c[d["whole"]][0], res_c[d["sliced"]][0]):
            if desc[2] in ("b", "s"):
                continue
            n_slice_cmp += 1
            if not same_verdict(desc[0], lw, ls, f.get("bcj")):
                n_slice_bad += 1
                if n_slice_bad <= 4:
                    rd = replay_dict(f, desc, ls, lw, "the verdict depends on how the input is sliced across lzma_code() calls")
                    rd["ops"] = ["slice 0", rd["op"], "slice " + ts[3], rd["op"]]
                    rd["whole_buffer"] = lw
                    ctx.violation("slicing-changes-verdict", rd, True)
    ctx.cov["slicing"] = {"sliced_vs_whole_comparisons": n_slice_cmp, "differences": n_slice_bad}
    ctx.cov["per_field_bitflips"] = per_field
    ctx.cov["truncation_verdicts"] = verdicts
    ctx.cov["correspondence"] = {"compared": compared, "mismatches": n_mism, "model_ran": res_m is not None,
                                 "apis_with_model": sorted(MODEL_APIS), "apis_oracle_only": ["mt2", "mt4"]}
    # CLI: exit status with several operands (both tiers); damaged-file sample and multi-file runs (thorough)
    cli_exit_status(ctx, files)
    if not quick:
        cli_stage(ctx, files)
    if ctx.broken and not ctx.violations:
        ctx.cov["search"] = {"direct_oracle_cases": ctx.cov["evaluations"], "failing": 0,
                             "note": "the direct oracle ran on every case above (it does not depend on Lean); nothing it judges failed"}
    return "proof"


def cli_exit_status(ctx, files):
    """(B) The PROCESS exit status is part of "reported as success". One invocation of xz / xzdec over several operands
    where one is corrupt or truncated and another only produces a WARNING (tests/files/unsupported-check.xz), in both
    orders, with -Q / -q / -qq / --files, plus a single file that is both unsupported-check and truncated: the exit
    status must be 1 (error) - never 0, never 2 - and stdout must be, operand by operand, the whole data of the good
    operands and a prefix of the data of the damaged ones. References: Python lzma / the structural parser, not xz."""
    import lzma as pylzma, tempfile, shutil
    rng = ctx.rng
    xz, xzdec = xz_bin("xz"), xz_bin("xzdec")
    uc_path = os.path.join(vlib.REPO, "tests", "files", "unsupported-check.xz")
    if not os.path.exists(uc_path):
        return 0
    uc = open(uc_path, "rb").read()
    try:
        uc_plain = pylzma.decompress(uc)
    except Exception:
        uc_plain = b"Hello\nWorld!\n"
    goods = [f for f in files if f["fmt"] == "xz" and not f.get("large") and not f.get("crafted") and len(f["plain"]) > 0
             and all(c in (1, 4, 10) for c in f["checks"])]
    if not goods:
        return 0
    rng.shuffle(goods)
    root = os.path.join(vlib.CACHE, "c05-cli")
    os.makedirs(root, exist_ok=True)
    # operand kinds: (bytes, plaintext, status) with status "ok" | "warn" | "err"
    def damaged(f):
        # only damage that every correct decoder must reject: a cut inside the first Stream, or a bit flip in a field
        # outside the compressed payload
        e1 = f["units"][0][1]
        if rng.random() < 0.5:
            return f["data"][:rng.randrange(12, e1 - 1)], "truncated inside the first Stream"
        seg = rng.choice([sg for sg in f["segs"] if sg[2] in ("blk.check", "idx.crc32", "ftr.crc32", "blk.hdr.crc32", "ftr.magic", "idx.records")])
        bit = rng.randrange(8 * seg[0], 8 * seg[1])
        b = bytearray(f["data"]); b[bit // 8] ^= 1 << (bit % 8)
        return bytes(b), "bit flip in " + seg[2]
    scen = []
    for f in goods[:4 if ctx.quick() else 12]:
        dam, how = damaged(f)
        bad = (dam, f["plain"], "err", how)
        warn = (uc, uc_plain, "warn", "unsupported-check.xz")
        good = (f["data"], f["plain"], "ok", "undamaged")
        scen += [[bad, warn], [warn, bad], [good, bad, warn], [warn, good, bad], [bad, good]]
    for cut in (len(uc) - 1, len(uc) - 8, len(uc) - 13, 24, 40):
        scen.append([(uc[:cut], uc_plain, "err", "unsupported-check.xz truncated to %d" % cut)])
        scen.append([(uc[:cut], uc_plain, "err", "unsupported-check.xz truncated to %d" % cut), (uc, uc_plain, "warn", "unsupported-check.xz")])
    modes = [("xz", ["-dcQ"]), ("xz", ["-tQ"]), ("xz", ["-dc"]), ("xz", ["-t"]), ("xz", ["-dcq"]), ("xz", ["-dcqq"]), ("xz", ["-dcQq"]),
             ("xz", ["-tqq"]), ("xz-files", ["-dcQ"]), ("xz-files", ["-t"]), ("xzdec", []), ("xzdec", ["-q"])]

    def prefix_concat_ok(out, ops):
        # out must be op1' + op2' + ... with op' == plaintext for non-"err" operands and a prefix of it for "err" ones
        def rec(pos, k):
            if k == len(ops):
                return pos == len(out)
            _, plain, st, _ = ops[k]
            if st != "err":
                return out[pos:pos + len(plain)] == plain and rec(pos + len(plain), k + 1)
            m = 0
            while m <= len(plain) and out[pos:pos + m] == plain[:m]:
                if rec(pos + m, k + 1):
                    return True
                m += 1
            return False
        return rec(0, 0)

    def run(job):
        ops, (tool, flags) = job
        d = tempfile.mkdtemp(prefix="x", dir=root)
        try:
            names = []
            for k, (data, _, _, _) in enumerate(ops):
                nme = "op%d.xz" % k
                with open(os.path.join(d, nme), "wb") as fh:
                    fh.write(data)
                names.append(nme)
            if tool == "xzdec":
                argv = [xzdec] + flags + names
            elif tool == "xz-files":
                with open(os.path.join(d, "list"), "w") as fh:
                    fh.write("\n".join(names) + "\n")
                argv = [xz] + flags + ["--files=list"]
            else:
                argv = [xz] + flags + names
            p = subprocess.run(argv, cwd=d, stdout=subprocess.PIPE, stderr=subprocess.PIPE)
            return p.returncode, p.stdout, p.stderr.decode("utf-8", "replace")[-600:], argv
        finally:
            shutil.rmtree(d, ignore_errors=True)
    jobs = [(ops, m) for ops in scen for m in modes]
    results = vlib.par_map(run, jobs)
    bad = 0
    for (ops, (tool, flags)), (rc, so, se, argv) in zip(jobs, results):
        has_err = any(o[2] == "err" for o in ops)
        testing = any("t" in fl.lstrip("-") and not fl.startswith("--") for fl in flags)
        ctx.case(("cli-exit", tool, tuple(flags), tuple(o[3] for o in ops)), True)
        ctx.count("cli-exit:%s:exit%d" % (tool.split("-")[0], rc if rc in (0, 1, 2) else 99))
        problem = None
        if has_err and rc != 1:
            problem = "exit status %d although an operand is corrupt/truncated (must be 1)" % rc
        elif not testing and tool != "xzdec" and not prefix_concat_ok(so, ops):
            problem = "stdout is not the data of the good operands plus prefixes of the damaged ones"
        elif tool == "xzdec" and not prefix_concat_ok(so, ops[:1 + next((k for k, o in enumerate(ops) if o[2] == "err"), len(ops))]):
            # (xzdec exits at the first operand that fails; later operands are not decoded)
            problem = "stdout is not the data of the good operands plus prefixes of the damaged ones"
        if problem:
            bad += 1
            if bad <= 4:
                ctx.violation("cli-exit-status", {
                    "kind": problem, "argv": [os.path.basename(argv[0])] + argv[1:], "exit_status": rc, "stderr": se,
                    "operands": [{"name": "op%d.xz" % k, "what": o[3], "expected": o[2], "hex": o[0].hex()} for k, o in enumerate(ops)],
                    "stdout_hex": so.hex()[:4000],
                    "how_to_replay": "write the operands to op<k>.xz in an empty directory and run the argv there with the xz/xzdec of the build"}, True)
    ctx.cov["cli_exit_status"] = {"invocations": len(jobs), "scenarios": len(scen), "failing": bad}
    return bad


def cli_stage(ctx, files):
    """`xz -dc` and `xzdec` on a sample of damaged files: exit status 0 implies stdout == original (files with a check)."""
    rng = ctx.rng
    d = os.path.join(vlib.CACHE, "c05-cli")
    os.makedirs(d, exist_ok=True)
    jobs = []
    for fi, f in enumerate(files):
        if f["fmt"] == "lzma" or f.get("large") or f.get("crafted") or (f.get("tail_only") and fi % 8):
            continue
        n = len(f["data"])
        for _ in range(12):
            if rng.random() < 0.6:
                bit = rng.randrange(8 * n)
                dam = bytearray(f["data"])
                dam[bit // 8] ^= 1 << (bit % 8)
                desc = ("x", 8, "f", bit, None)
            else:
                t = rng.randrange(n)
                dam = f["data"][:t]
                desc = ("x", 8, "t", t, None)
            jobs.append((fi, bytes(dam), desc))

    def one(job):
        fi, dam, desc = job
        f = files[fi]
        outs = []
        tools = [("xz", [xz_bin("xz"), "-dc", "-qq"] + (["--format=lzip"] if f["fmt"] == "lz" else []))]
        if f["fmt"] == "xz":
            tools.append(("xzdec", [xz_bin("xzdec")]))
        for nme, argv in tools:
            p = subprocess.run(argv, input=dam, stdout=subprocess.PIPE, stderr=subprocess.PIPE)
            outs.append((nme, p.returncode, p.stdout))
        return outs
    results = vlib.par_map(one, jobs)
    bad = 0
    for (fi, dam, desc), outs in zip(jobs, results):
        f = files[fi]
        for nme, rc, so in outs:
            ctx.case(("cli", nme, f["name"], desc[2], desc[3]), True)
            ctx.count("cli:%s:exit%d" % (nme, rc if rc in (0, 1, 2) else 99))
            if rc < 0 or rc > 2:
                ctx.violation("cli-crash", {"kind": "%s died with status %d on a damaged file" % (nme, rc), "file": f["name"],
                                            "damaged_hex": dam.hex()}, True)
                bad += 1
            elif rc == 0 and so != f["plain"]:
                # reuse the oracle: success with different data
                res = {"ret": 1, "outlen": len(so), "lcp": next((i for i, (a, b) in enumerate(zip(so, f["plain"])) if a != b), min(len(so), len(f["plain"]))),
                       "consumed": 0, "notices": "-", "crc": ""}
                api = "lzip" if f["fmt"] == "lz" else "sd"
                cat, viol, key = judge(f, (api, 8, desc[2], desc[3], None), res)
                if viol is not None:
                    if ctx.violation("cli-" + cat, {"kind": "%s exit 0: %s" % (nme, viol), "file": f["name"], "damaged_hex": dam.hex(),
                                                   "orig_hex": f["plain"].hex(), "stdout_hex": so.hex()}, True, key=key) is not None:
                        bad += 1
    ctx.cov["cli"] = {"runs": sum(len(o) for o in results), "failing": bad}
    bad += cli_multifile(ctx, files, jobs)


def cli_multifile(ctx, files, jobs):
    """One `xz -dkfq` invocation over several damaged/undamaged files of mixed formats and outcomes must give, file by
    file, what separate invocations give (per-file state such as allow_trailing_input must not leak to the next file)."""
    import shutil, tempfile
    rng = ctx.rng
    xz = xz_bin("xz")
    ext = {"xz": ".xz", "lzma": ".lzma", "lz": ".lz"}
    pool = []
    for (fi, dam, desc) in jobs:
        pool.append((fi, dam, desc))
        f = files[fi]
        r = rng.random()
        if r < 0.25:
            pool.append((fi, f["data"], ("x", 8, "w", 0, None)))                       # undamaged
        elif r < 0.5:
            junk = bytes([rng.randrange(1, 256)]) + bytes(rng.getrandbits(8) for _ in range(rng.randrange(0, 9)))
            pool.append((fi, f["data"] + junk, ("x", 8, "a", len(f["data"]), None)))    # trailing garbage
    base_files = [(k, f) for k, f in enumerate(files) if not f.get("large") and not f.get("crafted") and not f.get("tail_only")]
    for (k, f) in base_files:
        if f["fmt"] == "lzma":
            pool.append((k, f["data"], ("x", 8, "w", 0, None)))
            pool.append((k, f["data"] + b"\x55garbage", ("x", 8, "a", len(f["data"]), None)))
    rng.shuffle(pool)
    batches = [pool[i:i + 5] for i in range(0, len(pool), 5)]
    # ordered batches aimed at per-file state: a file whose format allows trailing data (.lz) right before files whose
    # format does not (.lzma, .xz with garbage appended), and the other way round
    lzs = [(k, f) for (k, f) in base_files if f["fmt"] == "lz"][:6]
    others = [(k, f) for (k, f) in base_files if f["fmt"] in ("lzma", "xz")]
    rng.shuffle(others)
    for (kl, fl_) in lzs:
        for (ko, fo) in others[:6]:
            junk = bytes([rng.randrange(1, 256)]) + b"tail"
            batches.append([(kl, fl_["data"], ("x", 8, "w", 0, None)), (ko, fo["data"] + junk, ("x", 8, "a", len(fo["data"]), None)),
                            (kl, fl_["data"] + junk, ("x", 8, "a", len(fl_["data"]), None)), (ko, fo["data"], ("x", 8, "w", 0, None))])
    root = os.path.join(vlib.CACHE, "c05-cli")

    def decode(items, tag):
        d = tempfile.mkdtemp(prefix=tag, dir=root)
        try:
            names = []
            for k, (fi, dam, desc) in enumerate(items):
                nme = "f%d%s" % (k, ext[files[fi]["fmt"]])
                with open(os.path.join(d, nme), "wb") as fh:
                    fh.write(dam)
                names.append(nme)
            p = subprocess.run([xz, "-dkfq"] + names, cwd=d, stdout=subprocess.PIPE, stderr=subprocess.PIPE)
            res = []
            for k in range(len(items)):
                o = os.path.join(d, "f%d" % k)
                res.append(open(o, "rb").read() if os.path.exists(o) else None)
            return p.returncode, res
        finally:
            shutil.rmtree(d, ignore_errors=True)

    def one(batch):
        rc_b, res_b = decode(batch, "b")
        singles = [decode([it], "s") for it in batch]
        return rc_b, res_b, singles
    outs = vlib.par_map(one, batches)
    bad = 0
    n = 0
    for batch, (rc_b, res_b, singles) in zip(batches, outs):
        for k, (it, (rc_s, res_s)) in enumerate(zip(batch, singles)):
            n += 1
            fi, dam, desc = it
            f = files[fi]
            ctx.case(("cli-multi", f["name"], desc[2], desc[3], k), True)
            ctx.count("cli-multi:%s:%s" % (f["fmt"], "decoded" if res_s[0] is not None else "rejected"))
            if res_b[k] != res_s[0]:
                bad += 1
                if bad <= 3:
                    ctx.violation("cli-multifile-differs", {
                        "kind": "xz -dkfq over several files gives a different result for one of them than a separate invocation (per-file state leaks between files)",
                        "position_in_batch": k, "batch": [{"format": files[a]["fmt"], "damage": [c[2], c[3]], "hex": b.hex()} for (a, b, c) in batch],
                        "separate": None if res_s[0] is None else res_s[0].hex(), "in_batch": None if res_b[k] is None else res_b[k].hex()}, True)
            expect_rc = 0 if all(r is not None for r in res_b) else 1
            if k == 0 and rc_b not in (expect_rc, 2):
                ctx.count("cli-multi:unexpected-exit-status-%d" % rc_b)
    ctx.cov["cli_multifile"] = {"files": n, "batches": len(batches), "differences": bad}
    return bad


def replay(ctx, path):
    """Re-run a recorded input on the real decoders: exit 1 + VIOLATION line iff the recorded behaviour is still there."""
    import replaylib
    r = replaylib.load(ctx, path)
    if "base_hex" not in r and "truncate_to" not in r:
        return replaylib.obligations("C05", run, r, path)
    vlib.c_build("asan", targets=["liblzma"])
    okh, log, exe = vlib.harness_build("c05", HARNESS)
    if not okh:
        print(log)
        return 2
    bad = False
    if "truncate_to" in r and "base_hex" not in r:
        # findings/C05-stream-buffer-decode-truncated.json (fixed by 487ccd2)
        data = open(os.path.join(vlib.REPO, r["file"]), "rb").read()
        rc, out, err = vlib.run_lines([exe], ["base " + data.hex(), "orig -", "one sbd 0 t %d" % r["truncate_to"]])
        print("impl:", out[-1] if out else None, err[-300:])
        print("expected: LZMA_DATA_ERROR (9) and no abort")
        bad = rc != 0 or len(out) != 3 or out[2].split()[1] != "9"
    else:
        head = ["base " + vlib.hexs(bytes.fromhex(r["base_hex"])), "orig " + vlib.hexs(bytes.fromhex(r["orig_hex"]))]
        cases = r["examples"] if "examples" in r else [r]
        plain_len = len(r["orig_hex"]) // 2
        for c in cases:
            ops = c.get("ops") or [c["op"]]
            rc, out, err = vlib.run_lines([exe], head + ops)
            now = out[-1] if len(out) == 2 + len(ops) else None
            print("ops:", ops, " impl now:", now, " recorded:", c.get("impl"), " model:", c.get("model"))
            if rc != 0 or now is None:
                print(err[-500:])
                bad = True
            elif c.get("impl"):
                bad = bad or now == c["impl"]
            else:
                t = now.split()
                bad = bad or (int(t[1]) in (0, 1) and int(t[4]) != plain_len)
    if bad:
        return replaylib.failed(ctx, "C05", r, path)
    print("replay passes (the recorded behaviour is gone)")
    return 0
