"""C06 — results do not depend on buffer slicing; encoder output is deterministic."""
import json, os, re, struct, time
import vlib

META = {
    "category": "proof",
    "text": "Lean (C06Slice/C06SliceCoder): slicing independence of a resumable model of the LZMA1/LZMA2 raw decoders (status always; output and consumed unless chunk overrun), tied to lzma_raw_decoder call by call. PROVED in Lean (Props/C06.lean, about models): (1) generic: every coder that is the image of a byte machine gives the same concatenated output, final lzma_ret, consumed count and final state under any two fair slicings (any number of (avail_in, avail_out) pieces, empty calls included); unfair slicings are prefix-consistent. (2) instances, each by a call-by-call simulation theorem chunk-faithful coder = ofByteMachine(machine): lzma_vli_decode with persistent vli_pos (what every slicing computes = the specification decoder vliDecode), lzma_vli_encode with persistent vli_pos under any sequence of output windows (= the specification encoder vliEncode), the lzma_bufcpy fixed-size field reader, the LZMA2 chunk-header sequence machine (event trace identical under all slicings; LZMA payload and dictionary abstract), the Index decoder sequence machine (same Records/CRC32/verdict). Delta: encoder reading the caller's input under arbitrary slicings = Delta.encode of the whole buffer; delta encoder AND decoder behind ANY next coder = the next coder's run with the output transformed as one stream. (3) simple_code(): for every filter satisfying the BCJ contract the output under every slicing is a prefix of / at LZMA_STREAM_END equal to the filter applied once to the whole input; the contract is PROVED for the eight real filter models x86 (with carried prev_mask/prev_pos; inputs < 4 GiB - 5), powerpc, ia64, arm, armthumb, sparc, arm64, riscv, encoder and decoder, from C15's chunk-stability theorems; the C06 model of simple_code() is proved equal call by call to C15's model Simple.simpleCode (the one C15 ties to the C function with the real filters), and the slicing theorem is stated for that model with no hypothesis left (next.code == NULL or pass-through next coder); simple_code() behind ANY next coder that is a byte machine and ends with LZMA_STREAM_END (the BCJ decoder configuration; simple_code re-slices the next coder's output into out[] and coder->buffer[]) is slicing independent for every filter with the contract, in particular the eight real ones in both directions. (4) threaded encoder: every finished run of C08's transition system (any thread count >= 1, timeout, schedule, slicing of lzma_code calls) writes the same bytes as a function of (input, block_size, flush offsets, accepted lzma_filters_update calls) - from C08.mtenc_deterministic/mtenc_output plus a filter-chain invariant. CORRESPONDENCE ONLY (model vs real function call by call, this check): vliDecodeMulti/vliEncodeMulti, fieldCoder, Coder.simpleCode with a test filter (null next and stub next coders), delta, ixFeed, l2Feed. ORACLE ONLY (C vs C, no model): every public coder of liblzma (all decoders incl. threaded, all encoders incl. threaded) on the same input under whole-buffer, byte-at-a-time with empty calls, every two-piece input/output split and random slicings - output bytes, final lzma_ret, total_in/total_out and informational return codes must be identical; encoders additionally across thread counts, timeouts and struct vs string filter chains; tiny output windows (1,2,3,5,7 bytes per call); a seeded half of the cases on a re-initialised handle (no lzma_end) last used by another coder, after runs that ended in success, error or were abandoned mid-stream.",
    "note": "Props/C06Slice.lean + Props/C06SliceCoder.lean (resumable LZMA1/LZMA2 raw decoder model, Model/LzmaResume*.lean): for every input and any two settled slicings with exact per-call (avail_in, avail_out) windows the final status is always the same, and output bytes and consumed count are the same unless both runs raised the LZMA2 chunk-overrun flag (= known finding C06:lzma2-chunk-overrun); also as a Coder (lzCoder) and equal to the one-shot LZMA1 model. What remains untied by proof: that liblzma's saved `sequence` + locals denote the model's continuation - checked by correspondence only (ops lzr1/lzr2 vs lzc: same per-call windows, per-call ret/consumed/produced and final hash equal; status only on overrun streams). Trusted: Lean kernel + propext/Classical.choice/Quot.sound (+ the bv_decide certificates of Lemmas/BitWords* inherited from C15's x86 lemmas); harness/c06_*.c (generic run_sliced driver); the C compiler; ASan/UBSan observe memory errors at run time only. No theorem is about the C text: the tie of the models to the code is the call-by-call correspondence of this check (small coders) and of C15 (simple_code with the real filters) and C08 (MT encoder traces). NOT modelled, hence covered by the C-vs-C slicing oracle only: the LZMA symbol decoder's ~25 SEQ_* resume points, the LZ window, the LZMA/LZMA2 encoders and fill_window, the container coders (stream/block/alone/lzip/auto decoders and encoders), the path of simple_code() on which its next coder FAILS (the C code returns at once with unfiltered bytes in out[]; only status/consumed are compared there). MT determinism is a theorem about the transition-system model of stream_encoder_mt.c (Block encoding abstract); on the real code it is exercised over thread counts/timeouts/OS schedules.",
    "technique": "Lean 4 proof over an executable model + differential slicing oracle on the implementation",
}

HARNESS = ["c06_main.c", "c06_small.c"]
LINK = ["-Wl,--wrap=lzma_simple_coder_init"]

TELL_NO, TELL_UNSUP, TELL_ANY, CONCAT, IGNORE, FAILFAST = 1, 2, 4, 8, 0x10, 0x20
EXTREME = 1 << 31
RET = {0: "OK", 1: "STREAM_END", 2: "NO_CHECK", 3: "UNSUPPORTED_CHECK", 4: "GET_CHECK", 5: "MEM_ERROR", 6: "MEMLIMIT_ERROR",
       7: "FORMAT_ERROR", 8: "OPTIONS_ERROR", 9: "DATA_ERROR", 10: "BUF_ERROR", 11: "PROG_ERROR", 12: "SEEK_NEEDED", 97: "SPURIOUS-BUF_ERROR", 98: "RUNAWAY-OUTPUT", 99: "HANG"}
BCJ = ["x86", "powerpc", "ia64", "arm", "armthumb", "arm64", "sparc", "riscv"]
BCJ_ALIGN = {"x86": 1, "powerpc": 4, "ia64": 16, "arm": 4, "armthumb": 2, "arm64": 4, "sparc": 4, "riscv": 2}


# ------------------------------------------------------------------------------------------------
# helpers
# ------------------------------------------------------------------------------------------------
def hx(b):
    return b.hex() if len(b) else "-"


RES_RE = re.compile(r"\[ret=(\d+) in=(\d+) out=(\d+) ev=(\S+) bcj=(\d) bytes=(\d+):([0-9a-f]+)(?: hex=(\S+))?\]")


def parse_results(s):
    out = []
    for m in RES_RE.finditer(s):
        out.append({"ret": int(m.group(1)), "in": int(m.group(2)), "out": int(m.group(3)), "ev": m.group(4), "bcj": int(m.group(5)),
                    "len": int(m.group(6)), "hash": m.group(7), "hex": m.group(8), "text": m.group(0)})
    return out


def same(a, b, mode):
    """Python twin of c06_result_same (used when confirming a difference independently of the sweep loop)."""
    if a["ret"] != b["ret"]:
        return False
    accepted = a["ret"] == 1
    bcj = a["bcj"] or b["bcj"]
    if mode == "a" and not accepted and bcj:
        mode = "s"
    if mode == "m" and not accepted:
        mode = "r" if bcj else "o"
    if mode in ("a", "m"):
        mode = "f"
    if mode == "i":
        mode = "o"
    if mode == "r":
        return True
    if mode == "s":
        return a["in"] == b["in"]
    if (a["len"], a["hash"]) != (b["len"], b["hash"]):
        return False
    if mode == "o":
        return True
    return (a["in"], a["out"], a["ev"]) == (b["in"], b["out"], b["ev"])


# ------------------------------------------------------------------------------------------------
# identification of the LZMA2 chunk-overrun finding (see findings/C06-lzma2-chunk-overrun.md)
# ------------------------------------------------------------------------------------------------
CHECK_SIZE = {0: 0, 1: 4, 2: 4, 3: 4, 4: 8, 5: 8, 6: 8, 7: 16, 8: 16, 9: 16, 10: 32, 11: 32, 12: 32, 13: 64, 14: 64, 15: 64}


def _vli(data, o):
    v, sh = 0, 0
    for i in range(9):
        if o + i >= len(data):
            return None, o
        b = data[o + i]
        v |= (b & 0x7F) << sh
        sh += 7
        if not b & 0x80:
            return v, o + i + 1
    return None, o


def lzma2_chunks(data, o):
    """Walk LZMA2 chunk headers from offset o. Yields (kind, header_off, data_off, data_end, usize); kind 'L' LZMA, 'U' uncompressed,
    'E' end marker. Stops at anything that does not parse."""
    n = len(data)
    while o < n:
        c = data[o]
        if c == 0:
            yield ("E", o, o + 1, o + 1, 0)
            return
        if c >= 0x80:
            hl = 6 if c >= 0xC0 else 5
            if o + hl > n:
                return
            us = (((c & 0x1F) << 16) | (data[o + 1] << 8) | data[o + 2]) + 1
            cs = ((data[o + 3] << 8) | data[o + 4]) + 1
            yield ("L", o, o + hl, o + hl + cs, us)
            o += hl + cs
        elif c in (1, 2):
            if o + 3 > n:
                return
            cs = ((data[o + 1] << 8) | data[o + 2]) + 1
            yield ("U", o, o + 3, o + 3 + cs, cs)
            o += 3 + cs
        else:
            return


def xz_lzma2_chunks(data):
    """All LZMA2 chunks of all Blocks of all Streams of an .xz file, as far as the container parses (tolerant walker)."""
    out = []
    n = len(data)
    o = 0
    while o + 12 <= n and data[o:o + 6] == b"\xfd7zXZ\x00":
        csz = CHECK_SIZE[data[o + 7] & 0x0F]
        o += 12
        while o < n and data[o] != 0:
            bstart = o
            o += (data[o] + 1) * 4
            end = None
            for ch in lzma2_chunks(data, o):
                out.append(ch)
                if ch[0] == "E":
                    end = ch[3]
            if end is None:
                return out
            o = end + (-(end - bstart)) % 4 + csz
        if o >= n:
            return out
        # Index
        istart = o
        cnt, o = _vli(data, o + 1)
        if cnt is None or cnt > 100000:
            return out
        for _ in range(2 * cnt):
            v, o = _vli(data, o)
            if v is None:
                return out
        o += (-(o - istart)) % 4 + 4 + 12
        while o + 4 <= n and data[o:o + 4] == b"\0\0\0\0":
            o += 4
    return out


def classify_lzma2_overrun(H, coder, data, pair=()):
    """True iff `data`, fed to the single-threaded twin of `coder` one byte at a time, is rejected with LZMA_DATA_ERROR exactly when the
    first byte after the compressed data of an LZMA2 LZMA chunk is consumed while that chunk's uncompressed size has not been reached,
    i.e. the error is `in_used > coder->compressed_size` in lzma2_decode(). `pair` = the two differing results: if one of them
    stopped with less output than the chunk's uncompressed size, the decoder was still inside the chunk."""
    kind = coder.split(":")[0]
    base = 0   # offset of the coder's total_in origin inside `data`
    if kind in ("sd", "auto", "sdmt"):
        flags = int(coder.split(":")[1]) & (CONCAT | IGNORE)
        st = "sd:%d:0" % flags
        chunks = xz_lzma2_chunks(data)
    elif kind == "blockd":
        st = coder
        if not data:
            return False
        hs = (data[0] + 1) * 4
        base = hs
        chunks = [(k, h - hs, s - hs, e - hs, u) for (k, h, s, e, u) in lzma2_chunks(data, hs)]
    elif kind == "rawd" and "lzma2" in coder.split("+")[-1]:
        st = coder
        chunks = list(lzma2_chunks(data, 0))
    else:
        return False
    o = H.run(["run %s F %s fresh hash B:4" % (st, hx(data))])[0]
    r = parse_results(o or "")
    if not r or r[0]["ret"] != 9:
        return False
    r = r[0]
    ucum = 0
    for (k, h, s, e, u) in chunks:
        ucum += u
        if k == "L" and e + 1 == r["in"]:
            # Not to be confused with an error raised by the control byte of the NEXT chunk (also at e + 1): right after a completed
            # LZMA chunk only the control values 0x03..0x7F are rejected; and before the chunk's uncompressed size is reached the
            # decoder is still inside this chunk anyway.
            nxt = data[e + base] if 0 <= e + base < len(data) else 0
            outs = [r["out"]] + [q["out"] for q in pair if q and q["ret"] == 9]
            if r["bcj"] or min(outs) < ucum or not (3 <= nxt <= 0x7F):
                return True
    return False


def xz_blocks(data):
    """Blocks of the first Stream of an .xz file as far as the headers parse: (data_start, data_end_or_None, declared
    uncompressed size or None, lzma2 end offset found by walking the chunks or None)."""
    out = []
    n = len(data)
    if n < 12 or data[:6] != b"\xfd7zXZ\x00":
        return out
    csz = CHECK_SIZE[data[7] & 0x0F]
    o = 12
    while o < n and data[o] != 0:
        bstart = o
        hs = (data[o] + 1) * 4
        if o + hs > n or hs < 8:
            return out
        flags = data[o + 1]
        p = o + 2
        comp = unc = None
        if flags & 0x40:
            comp, p = _vli(data, p)
            if comp is None:
                return out
        if flags & 0x80:
            unc, p = _vli(data, p)
            if unc is None:
                return out
        ds = o + hs
        end = None
        for ch in lzma2_chunks(data, ds):
            if ch[0] == "E":
                end = ch[3]
        out.append((ds, ds + comp if comp is not None else None, unc, end))
        if comp is not None:
            e = ds + comp
        elif end is not None:
            e = end
        else:
            return out
        o = e + (-(e - bstart)) % 4 + csz
    return out


def classify_block_lookahead(H, coder, data, pair):
    """True iff the two differing results are the same rejection (LZMA_DATA_ERROR) with identical output bytes that equal everything
    the Block Header(s) declare up to and including some Block with a declared Uncompressed Size, and they differ only in how many
    further bytes of that Block's compressed data were consumed before the error: block_decode()'s
    `if (uncomp_done && *in_pos < in_size) return LZMA_DATA_ERROR;` looks at what the current call happens to have been offered."""
    kind = coder.split(":")[0]
    if len(pair) != 2 or any(q is None or q["ret"] != 9 for q in pair):
        return False
    a, b = pair
    bcj = bool(a["bcj"] or b["bcj"])
    if not bcj and (a["len"], a["hash"], a["out"]) != (b["len"], b["hash"], b["out"]):
        return False
    # Behind a BCJ filter the property fixes only status and total_in, and the filter may still hold back up to 2 * 16 decoded
    # bytes in the run that was cut earlier: then one run must have delivered all declared output and the other nearly all.
    top, low = max(a["out"], b["out"]), min(a["out"], b["out"])
    if bcj and top - low > 32:
        return False
    if kind in ("sd", "auto", "sdmt"):
        blocks = xz_blocks(data)
        base = 0
    elif kind == "blockd":
        if not data:
            return False
        fake = b"\xfd7zXZ\x00\x00" + bytes([int(coder.split(":")[1]) & 0x0F]) + b"\0\0\0\0" + data
        blocks = [(ds - 12, (de - 12) if de is not None else None, u, (e - 12) if e is not None else None) for (ds, de, u, e) in xz_blocks(fake)[:1]]
        base = (data[0] + 1) * 4
        blocks = [(ds - base, (de - base) if de is not None else None, u, e) for (ds, de, u, e) in blocks]
    else:
        return False
    ucum = 0
    for (ds, de, unc, end) in blocks:
        if unc is None:
            return False
        ucum += unc
        if top == ucum:
            hi = de if de is not None else len(data)
            ins = [a["in"], b["in"]]
            if kind == "sdmt":
                return True    # the threaded decoder's total_in is not compared anyway; outputs are equal here
            return all(ds < x <= hi for x in ins)
    return False


KEY_OVERRUN = "C06:lzma2-chunk-overrun"
KEY_LOOKAHEAD = "C06:block-decoder-uncomp-done-lookahead"
MAX_REPORTS = 25   # replay files written per run; further differences are only counted


class Harness:
    def __init__(self, ctx, exe):
        self.ctx, self.exe = ctx, exe
        self.abort = None
        self.nabort = 0

    def run(self, lines, costs=None, timeout=1500):
        """Run op lines in parallel (dynamic small batches). Returns the list of output lines (None where the harness died)."""
        n = len(lines)
        if n == 0:
            return []
        order = list(range(n))
        if costs:
            order.sort(key=lambda i: -costs[i])
        nb = min(n, max(vlib.NCPU * 6, 1))
        batches = [order[i::nb] for i in range(nb)]
        res = [None] * n

        def work(idx):
            rc, out, err = vlib.run_lines([self.exe], [lines[i] for i in idx], timeout=timeout)
            if rc == 0 and len(out) == len(idx):
                return [(i, o) for i, o in zip(idx, out)]
            # something aborted (sanitizer, assert, crash, watchdog): replay one line at a time to find it. After three aborting
            # lines the rest of the batch is given up (every one of them may wait for the watchdog).
            r, bad = [], 0
            for i in idx:
                if bad >= 3:
                    r.append((i, None))
                    continue
                rc1, o1, e1 = vlib.run_lines([self.exe], [lines[i]], timeout=timeout)
                if rc1 != 0 or len(o1) != 1:
                    r.append((i, None))
                    bad += 1
                    self.nabort += 1
                    if self.abort is None:
                        self.abort = (lines[i], e1, rc1)
                else:
                    r.append((i, o1[0]))
            return r

        for part in vlib.par_map(work, batches):
            for i, o in part:
                res[i] = o
        return res


# ------------------------------------------------------------------------------------------------
# plaintext generators
# ------------------------------------------------------------------------------------------------
WORDS = [b"the", b"quick", b"brown", b"fox", b"jumps", b"over", b"lazy", b"dog", b"lzma", b"xz", b"stream", b"block",
         b"index", b"\n", b"  ", b"0123456789", b"AAAAAAAA", b"\x00\x00\x00\x00"]


def gen_plain(rng, n, kind):
    if n == 0:
        return b""
    if kind == "text":
        out = bytearray()
        while len(out) < n:
            out += rng.choice(WORDS) + b" "
        return bytes(out[:n])
    if kind == "rand":
        return bytes(rng.getrandbits(8) for _ in range(n))
    if kind == "zero":
        return bytes(n)
    if kind == "runs":
        out = bytearray()
        while len(out) < n:
            out += bytes([rng.getrandbits(8)]) * rng.choice((1, 2, 3, 5, 17, 64, 300))
        return bytes(out[:n])
    if kind == "code":
        # machine-code-like: opcodes the BCJ filters react to, followed by address-like words
        out = bytearray()
        ops = [b"\xe8", b"\xe9", b"\x0f\x84", b"\xeb", b"\x48\x00\x00\x01", b"\x94", b"\x97", b"\x40", b"\x7f\xff", b"\xef", b"\x17", b"\x67", b"\x97\x00"]
        while len(out) < n:
            r = rng.random()
            if r < 0.35:
                out += rng.choice(ops)
                out += struct.pack("<i", rng.randrange(-70000, 70000))
            elif r < 0.6:
                out += struct.pack("<I", rng.getrandbits(32) & rng.choice((0xFFFFFFFF, 0x00FFFFFF, 0xFC000000, 0x9000001F)))
            elif r < 0.8:
                out += struct.pack(">I", (rng.choice((0x48000001, 0x94000000, 0x40000000, 0xEB000000, 0x7FC00000)) | rng.getrandbits(22)))
            else:
                out += bytes(rng.getrandbits(8) for _ in range(rng.randrange(1, 9)))
        return bytes(out[:n])
    if kind == "wave":
        # slowly varying samples (what delta likes)
        v = [rng.getrandbits(8) for _ in range(4)]
        out = bytearray()
        for i in range(n):
            k = i % 4
            v[k] = (v[k] + rng.choice((0, 0, 1, 1, 2, 255, 254))) & 0xFF
            out.append(v[k])
        return bytes(out)
    raise ValueError(kind)


def mutate(rng, data, how):
    b = bytearray(data)
    n = len(b)
    if how == "trunc":
        return bytes(b[:rng.randrange(0, n)]) if n else b""
    if how == "trunc-tail":
        return bytes(b[:max(0, n - rng.randrange(1, 14))])
    if how == "flip" and n:
        i = rng.randrange(n)
        b[i] ^= 1 << rng.randrange(8)
        return bytes(b)
    if how == "byte" and n:
        b[rng.randrange(n)] = rng.getrandbits(8)
        return bytes(b)
    if how == "insert":
        i = rng.randrange(n + 1)
        b[i:i] = bytes([rng.getrandbits(8)])
        return bytes(b)
    if how == "delete" and n:
        del b[rng.randrange(n)]
        return bytes(b)
    if how == "append":
        return bytes(b) + bytes(rng.choice((0, 0, 0xFF, rng.getrandbits(8))) for _ in range(rng.choice((1, 3, 4, 8, 13))))
    if how == "headflip" and n:
        i = rng.randrange(min(n, 40))
        b[i] ^= 1 << rng.randrange(8)
        return bytes(b)
    return bytes(b)


# ------------------------------------------------------------------------------------------------
# filter chains: struct form (parsed by the harness) and the equivalent lzma_str_to_filters string
# ------------------------------------------------------------------------------------------------
MF = {"hc3": 0x03, "hc4": 0x04, "bt2": 0x12, "bt3": 0x13, "bt4": 0x14}


def lz(name="lzma2", preset=None, **kw):
    """Returns (struct_spec, string_spec) of one LZMA1/LZMA2 filter."""
    s = [name]
    t = []
    if preset is not None:
        s.append("preset=%d" % preset)
        t.append("preset=%d%s" % (preset & 0xFF, "e" if preset & EXTREME else ""))
    for k, v in kw.items():
        if k == "mf":
            s.append("mf=%d" % MF[v]); t.append("mf=%s" % v)
        elif k == "mode":
            s.append("mode=%d" % (1 if v == "fast" else 2)); t.append("mode=%s" % v)
        else:
            s.append("%s=%d" % (k, v)); t.append("%s=%d" % (k, v))
    return ",".join(s), name + ("=" + ",".join(t) if t else "")


def chain(*fs):
    """fs: filters as (struct, string) pairs or plain names like 'x86' / ('delta', dist)."""
    ss, ts = [], []
    for f in fs:
        if isinstance(f, tuple) and f[0] == "delta":
            ss.append("delta,dist=%d" % f[1]); ts.append("delta=dist=%d" % f[1])
        elif isinstance(f, tuple) and f[0] in BCJ:
            ss.append("%s,start=%d" % f); ts.append("%s=start=%d" % f)
        elif isinstance(f, str):
            ss.append(f); ts.append(f)
        else:
            ss.append(f[0]); ts.append(f[1])
    return "+".join(ss), "@" + "--".join(ts)


# ------------------------------------------------------------------------------------------------
# sweep construction
# ------------------------------------------------------------------------------------------------
def sweep_items(rng, n_in, n_out, level, seed):
    """Sweep items for an input of n_in bytes whose whole-buffer run produces about n_out bytes."""
    it = []
    if level == "full":
        it += ["S:0:%d:1" % n_in, "O:0:%d:1" % min(n_out + 2, 4200)]
        it += ["B:%d" % k for k in range(16)]
        it += ["R:%d:12:400:16:16:25" % seed, "R:%d:6:60:%d:%d:10" % (seed + 100, max(1, n_in // 3), max(1, n_out // 3)),
               "R:%d:4:2000:3:3:50" % (seed + 200), "X:%d:24:%d" % (seed, n_out + 3), "N", "B:1", "B:3", "R:%d:6:300:9:9:40" % (seed + 300), "N"]
    elif level == "sample":
        step = max(1, n_in // 40)
        a = rng.randrange(step)
        it += ["S:%d:%d:%d" % (a, n_in, step), "S:0:%d:1" % min(n_in, 14), "S:%d:%d:1" % (max(0, n_in - 14), n_in)]
        ostep = max(1, (n_out + 2) // 24)
        it += ["O:%d:%d:%d" % (rng.randrange(ostep), min(n_out + 2, 4200), ostep)]
        it += ["B:%d" % k for k in (0, 3, 6, 7)] if n_in + n_out < 3000 else ["B:0", "B:3"]
        it += ["B:%d" % k for k in (8, 9, 10, 11, 12)] if n_in + n_out < 20000 else ["B:%d" % rng.choice((9, 10, 12))]
        it += ["B:13", "B:14", "B:15"]
        it += ["R:%d:4:300:16:16:25" % seed, "R:%d:3:40:%d:%d:10" % (seed + 100, max(1, n_in // 3), max(1, n_out // 3)),
               "X:%d:6:%d" % (seed, n_out + 3), "N", "B:3" if n_in + n_out < 3000 else "R:%d:1:200:9:9:40" % (seed + 300), "N"]
    elif level == "light":
        it += ["S:%d" % rng.randrange(n_in + 1), "S:%d" % rng.randrange(n_in + 1), "O:%d" % rng.randrange(n_out + 2),
               "R:%d:2:200:%d:%d:20" % (seed, max(1, n_in // 5), max(1, n_out // 5)), "R:%d:1:3000:40:40:30" % (seed + 50)]
        if n_in + n_out < 200000:
            it += ["B:0"]
        it += ["B:%d" % rng.choice((9, 10, 11, 12)), "B:%d" % rng.choice((13, 14)), "B:15"]
    elif level == "mt":
        it += ["S:%d" % rng.randrange(n_in + 1), "R:%d:2:100:%d:%d:20" % (seed, max(1, n_in // 5), max(1, n_out // 5)),
               "R:%d:1:1500:64:64:30" % (seed + 50), "B:%d" % rng.choice((8, 9, 10)), "B:12", "B:%d" % rng.choice((13, 14)), "B:15"]
        if n_in + n_out < 6000:
            it += ["B:0", "B:3"]
    # handle reuse: a seeded half of the sweeps starts on the process-wide handle that another coder used last (G), and checks
    # that a brand-new handle gives the reference result (FW); every sweep abandons a run mid-stream now and then (K) so that
    # the next run re-initialises a handle that was left in the middle of a stream (all other runs re-initialise a handle that
    # finished with success or with an error).
    for _ in range(2):
        it.insert(rng.randrange(len(it) + 1), "K:%d:%d" % (rng.randrange(n_in + 1), rng.choice((1, 1, 2, 3))))
    if rng.random() < 0.5:
        it = ["G", "FW"] + it
    return it


def est_runs(items, n_in, n_out):
    t = 0
    for it in items:
        p = it.split(":")
        if p[0] in "SO" and len(p) == 4:
            t += (int(p[2]) - int(p[1])) // int(p[3]) + 1
        elif p[0] == "R":
            t += int(p[2])
        elif p[0] == "X":
            t += int(p[2])
        elif p[0] == "B":
            t += 8   # many calls
        elif p[0] in ("G", "K"):
            pass
        elif p[0] != "N":
            t += 1
    return t


class Cases:
    """Collects sweep ops (one line per (coder, action, input)) and group comparisons."""

    def __init__(self, ctx):
        self.ctx = ctx
        self.sweeps = []   # dict(coder, act, data, cmp, items, tag, cost)
        self.groups = []   # dict(tag, cmp, data, members=[(coder, act, slicing)])

    def sweep(self, coder, data, cmp_, level, n_out=None, act="F", tag="", items=None):
        rng = self.ctx.rng
        exact_out = n_out is not None
        n_out = len(data) * 3 + 64 if n_out is None else n_out
        if items is None:
            items = sweep_items(rng, len(data), n_out, level, rng.randrange(1, 1 << 30))
            # output windows that end within the last bytes of the output (the coder has consumed all its input and only
            # has held-back bytes left to deliver): "everything but the last k bytes, then the rest"
            if exact_out and level != "full" and n_out >= 1 and not coder.startswith(("microe", "indexe")):
                items = items + ["O:%d:%d:1" % (max(0, n_out - 12), n_out)]
        cost = est_runs(items, len(data), n_out) * (len(data) + n_out + 200)
        self.sweeps.append(dict(coder=coder, act=act, data=data, cmp=cmp_, items=items, tag=tag, cost=cost, level=level))

    def group(self, tag, cmp_, data, members):
        self.groups.append(dict(tag=tag, cmp=cmp_, data=data, members=members))


# ------------------------------------------------------------------------------------------------
# what gets run
# ------------------------------------------------------------------------------------------------
def corpus_files():
    d = os.path.join(vlib.REPO, "tests", "files")
    out = []
    for f in sorted(os.listdir(d)):
        if f.endswith((".xz", ".lzma", ".lz")):
            out.append((f, open(os.path.join(d, f), "rb").read()))
    return out


def xz_index_field(data):
    """Index field of a single-Stream .xz file (located through the Stream Footer), or None."""
    if len(data) < 32 or data[-2:] != b"YZ":
        return None
    bsz = (struct.unpack("<I", data[-8:-4])[0] + 1) * 4
    if bsz + 12 > len(data) - 12:
        return None
    return data[len(data) - 12 - bsz:len(data) - 12]


def xz_index_records(data):
    """(unpadded size, uncompressed size) of every Record of the Index of a single-Stream .xz file, or None."""
    ix = xz_index_field(data)
    if ix is None or not ix or ix[0] != 0:
        return None
    n, o = _vli(ix, 1)
    if n is None or n > 100000:
        return None
    recs = []
    for _ in range(n):
        u, o = _vli(ix, o)
        v, o = _vli(ix, o) if u is not None else (None, o)
        if u is None or v is None:
            return None
        recs.append((u, v))
    return recs


def rand_chain(rng, last=None):
    """A random valid filter chain over the full option space (struct spec for the harness): lc/lp/pb 0..4 with lc+lp <= 4,
    depth 0 and non-zero, nice_len, match finder, mode, odd dictionary sizes, delta distances, BCJ start offsets 0 and non-zero."""
    last = last or rng.choice(("lzma2", "lzma2", "lzma2", "lzma1"))
    lc = rng.randrange(0, 5)
    lp = rng.randrange(0, 5 - lc)
    pb = rng.randrange(0, 5)
    mf = rng.choice(sorted(MF))
    nice = max({"hc3": 3, "hc4": 4, "bt2": 2, "bt3": 3, "bt4": 4}[mf], rng.choice((2, 3, 4, 5, 8, 16, 32, 64, 128, 272, 273, rng.randrange(2, 274))))
    depth = rng.choice((0, 0, 0, 1, 4, 100, rng.randrange(1, 1000)))
    dsz = rng.choice((4096, 4097, 8192, 65536, 12345, 1 << 20, 3 << 19, rng.randrange(4096, 1 << 22)))
    fs = []
    if last == "lzma2":
        for _ in range(rng.choice((0, 0, 1, 1, 2, 3))):
            if rng.random() < 0.4:
                fs.append("delta,dist=%d" % rng.choice((1, 2, 3, 4, 255, 256, rng.randrange(1, 257))))
            else:
                b = rng.choice(BCJ)
                r = rng.random()
                fs.append(b if r < 0.35 else "%s,start=0" % b if r < 0.55 else "%s,start=%d" % (b, BCJ_ALIGN[b] * rng.randrange(1, 1 << 20)))
    fs.append("%s,dict=%d,lc=%d,lp=%d,pb=%d,mode=%d,nice=%d,mf=%d,depth=%d" % (last, dsz, lc, lp, pb, rng.choice((1, 2)), nice, MF[mf], depth))
    return "+".join(fs)


def string_forms(ctx, H, C):
    """lzma_str_from_filters / lzma_str_to_filters: (a) the round trip gives the chain back field by field; (b) the textual form
    produced by the library denotes the same encoder: identical bytes for the struct-defined and the string-defined chain."""
    rng, quick = ctx.rng, ctx.quick()
    specs = [rand_chain(rng) for _ in range(150 if quick else 1500)]
    # corners: every zero-valued option at once, and each alone
    specs += ["lzma2,dict=4096,lc=0,lp=0,pb=0,mode=1,nice=8,mf=3,depth=0", "lzma2,dict=4096,lc=0,lp=2,pb=0,mode=2,nice=32,mf=20,depth=0",
              "lzma1,dict=4096,lc=0,lp=0,pb=0,mode=2,nice=64,mf=20,depth=0", "x86,start=0+delta,dist=1+lzma2,dict=65536,lc=3,lp=0,pb=2,mode=2,nice=64,mf=20,depth=0",
              "lzma2,dict=4096,lc=4,lp=0,pb=4,mode=2,nice=273,mf=18,depth=1"]
    lines = ["strrt " + sp for sp in specs]
    outs = H.run(lines)
    nbad = 0
    texts = []
    for sp, ln, o in zip(specs, lines, outs):
        if o is None:
            continue
        ctx.cov["evaluations"] += 1
        ctx.count("string-roundtrip:" + ("ok" if o.startswith("ok ") else "diff"))
        if o.startswith("ok "):
            texts.append((sp, o[3:].strip()))
        else:
            nbad += 1
            if nbad <= 5:
                ctx.violation("string-roundtrip", {"kind": "lzma_str_to_filters(lzma_str_from_filters(f)) differs from f", "op": ln, "result": o,
                                                   "expect_prefix": "ok "}, True)
    plains = [gen_plain(rng, 1500, "text"), gen_plain(rng, 3000, "code"), gen_plain(rng, 700, "wave")]
    for sp, text in (texts if not quick else rng.sample(texts, min(len(texts), 60)) + texts[-5:]):
        pl = rng.choice(plains)
        if sp.split("+")[-1].startswith("lzma1"):
            C.group("struct-vs-library-string", "f", pl, [("rawe:" + sp, "F", "W"), ("rawe:@" + text, "F", "W")])
        else:
            ck = rng.choice((0, 1, 4, 10))
            C.group("struct-vs-library-string", "f", pl, [("se:%d:%s" % (ck, sp), "F", "W"), ("se:%d:@%s" % (ck, text), "F", "W")])
    return nbad


def build_cases(ctx, H):
    """Phase A: produce compressed inputs with the real encoders. Then construct all sweeps."""
    rng, quick = ctx.rng, ctx.quick()
    C = Cases(ctx)
    files = corpus_files()
    lvl_small = "full"                       # inputs small enough for exhaustive two-piece splits
    lvl_mid = "sample" if quick else "full"

    def level_for(n, n_out=0):
        if n <= 128:
            return lvl_small
        if n <= 4096 and n_out <= 20000:
            return lvl_mid
        return "light"

    # ---- F1 family: always exhaustive, in both tiers -------------------------------------------------------
    for name, data in files:
        if name in ("good-known_size-with_eopm.lzma", "good-known_size-without_eopm.lzma", "good-unknown_size-with_eopm.lzma"):
            for act in "FR":
                C.sweep("alone:0", data, "a", "full", 20, act, "F1-family:" + name)
                C.sweep("auto:0:0", data, "a", "full", 20, act, "F1-family:" + name)
            # the raw LZMA1 payload after the 13-byte .lzma header, through LZMA1EXT with and without EOPM allowed
            props = data[0]
            pb, rem = divmod(props, 45)
            lp, lc = divmod(rem, 9)
            dict_size = struct.unpack("<I", data[1:5])[0]
            usize = struct.unpack("<Q", data[5:13])[0]
            base = "lzma1ext,dict=%d,lc=%d,lp=%d,pb=%d" % (max(dict_size, 4096), lc, lp, pb)
            sizes = [13, 2 ** 64 - 1] if usize == 2 ** 64 - 1 else [usize, 2 ** 64 - 1]
            for ext in sizes:
                for fl in (0, 1):
                    C.sweep("rawd:%s,extflags=%d,extsize=%d" % (base, fl, ext), data[13:], "a", "full", 20, "F", "F1-family-raw:" + name)

    # ---- decoders over tests/files ---------------------------------------------------------------------------
    sd_flags = [0, CONCAT, TELL_ANY | TELL_NO | TELL_UNSUP, IGNORE, CONCAT | TELL_ANY | IGNORE, TELL_UNSUP | TELL_NO]
    for name, data in files:
        n = len(data)
        big = n > 4096
        lv = "light" if big else level_for(n, 600)
        good = name.startswith("good")
        if name.endswith(".xz"):
            fl = sd_flags if (not quick or good or rng.random() < 0.5) else [0, CONCAT | TELL_ANY | IGNORE]
            for f in fl:
                C.sweep("sd:%d:0" % f, data, "a", lv, None, "F", name)
            C.sweep("sd:%d:0" % rng.choice(sd_flags), data, "a", lv, None, "R", name)
            C.sweep("auto:%d:0" % rng.choice(sd_flags), data, "a", lv, None, rng.choice("FR"), name)
            C.sweep("fileinfo:0", data, "i", "sample" if not big else "light", 400, "F", name)
            thr = (1, 2, 4) if not quick else (1, rng.choice((2, 4)))
            for t in thr:
                f = rng.choice((0, CONCAT, TELL_ANY))
                C.sweep("sdmt:%d:%d:0:0:0" % (f, t), data, "m", "mt" if quick or big else "sample", None, "F", name)
            C.sweep("sdmt:0:2:0:1:0", data, "m", "mt", None, "F", name)      # memlimit_threading = 1: direct mode
            if not quick:
                C.sweep("sdmt:%d:3:1:0:0" % CONCAT, data, "m", "mt", None, "F", name)   # 1 ms timeout
            for f in (0, CONCAT):
                C.group("st-vs-mt:" + name, "m", data, [("sd:%d:0" % f, "F", "W")] + [("sdmt:%d:%d:0:0:0" % (f, t), "F", "W") for t in (1, 2, 4)]
                        + [("sdmt:%d:2:0:1:0" % f, "F", "W")])
            if name == "good-1-check-crc32.xz":
                C.sweep("sd:0:1", data, "a", lv, None, "F", name + ":memlimit")
            ix = xz_index_field(data)
            if ix is not None:
                C.sweep("indexd:0", ix, "a", "full", 400, "F", name + ":index")
                if good:
                    C.sweep("indexe", ix, "f", "full", len(ix), "F", name + ":index")
            if n > 24:
                C.sweep("blockd:%d:0" % (data[7] & 0x0F), data[12:], "a", lv, None, "F", name + ":block")
        elif name.endswith(".lzma"):
            for act in "FR":
                C.sweep("alone:0", data, "a", lv, None, act, name)
            C.sweep("auto:0:0", data, "a", lv, None, "F", name)
            C.sweep("sd:0:0", data, "a", "light", None, "F", name + ":wrong-format")
        elif name.endswith(".lz"):
            for f in (0, CONCAT, IGNORE | TELL_ANY, CONCAT | IGNORE):
                C.sweep("lzip:%d:0" % f, data, "a", lv, None, "F", name)
            C.sweep("lzip:%d:0" % CONCAT, data, "a", lv, None, "R", name)
            C.sweep("auto:%d:0" % rng.choice((0, CONCAT)), data, "a", lv, None, "F", name)
        # mutants of the corpus files
        if not big:
            hows = ["trunc", "flip", "byte", "insert", "delete", "append", "headflip", "trunc-tail"]
            for _ in range(3 if quick else 6):
                m = mutate(rng, data, rng.choice(hows))
                dec = {"xz": rng.choice(["sd:%d:0" % rng.choice(sd_flags), "auto:%d:0" % CONCAT, "sdmt:0:2:0:0:0"]),
                       "lzma": rng.choice(["alone:0", "auto:0:0"]), "lz": rng.choice(["lzip:%d:0" % CONCAT, "lzip:0:0", "auto:0:0"])}[name.rsplit(".", 1)[1]]
                C.sweep(dec, m, "m" if dec.startswith("sdmt") else "a", "mt" if dec.startswith("sdmt") else level_for(len(m), 600), None, rng.choice("FFR") if not dec.startswith("sdmt") else "F", name + ":mutant")

    # ---- plaintexts ----------------------------------------------------------------------------------------------
    kinds = ["text", "rand", "zero", "runs", "code", "wave"]
    sizes = [0, 1, 2, 7, 40, 300, 1500, 4000] if quick else [0, 1, 2, 3, 7, 16, 40, 100, 300, 800, 1500, 2500, 4000, 4096]
    plains = []
    for n in sizes:
        ks = [rng.choice(kinds)] if quick and n not in (300, 4000) else (kinds if not quick else ["text", "code"])
        for k in ks:
            plains.append((k, gen_plain(rng, n, k)))
    big_plains = [("text", gen_plain(rng, 20000 if quick else 70000, "text")), ("code", gen_plain(rng, 33000, "code"))]
    if not quick:
        big_plains += [("runs", gen_plain(rng, 300000, "runs")), ("wave", gen_plain(rng, 120000, "wave")), ("rand", gen_plain(rng, 66000, "rand"))]

    # ---- encoder configurations ---------------------------------------------------------------------------------
    small = lz("lzma2", dict=4096)
    lz_variants = [
        lz("lzma2", dict=4096),
        lz("lzma2", dict=4096, lc=0, lp=2, pb=0, mode="fast", mf="hc3", nice=8),
        lz("lzma2", dict=8192, lc=4, lp=0, pb=4, mode="normal", mf="bt2", nice=273, depth=4),
        lz("lzma2", dict=4096, lc=1, lp=3, pb=1, mode="fast", mf="hc4", nice=32, depth=1),
        lz("lzma2", dict=65536, mode="normal", mf="bt3", nice=5),
        lz("lzma2", dict=4096, mode="normal", mf="bt4", nice=4),
        lz("lzma2", dict=4096, lc=0, lp=0, pb=0, depth=0, mode="normal", mf="bt4", nice=16),
        lz("lzma2", dict=4096, lc=0, lp=4, pb=0, depth=0, mode="fast", mf="hc4", nice=16),
        lz("lzma2", preset=0), lz("lzma2", preset=3), lz("lzma2", preset=1 | EXTREME, dict=16384),
    ]
    chains = [chain(v) for v in lz_variants]
    chains += [chain(("delta", d), small) for d in (1, 2, 3, 4, 256)]
    chains += [chain(b, small) for b in BCJ]
    chains += [chain((b, BCJ_ALIGN[b] * rng.randrange(1, 5000)), small) for b in BCJ]
    chains += [chain("x86", ("delta", 4), small), chain(("delta", 1), "arm64", ("delta", 7), small), chain("arm", "powerpc", "sparc", small)]
    lzma1_variants = [lz("lzma1", dict=4096), lz("lzma1", dict=4096, lc=0, lp=0, pb=0, mode="fast", mf="hc3", nice=16),
                      lz("lzma1", dict=65536, lc=2, lp=2, pb=2, mode="normal", mf="bt4", nice=64), lz("lzma1", preset=2)]

    enc_jobs = []   # (coder, plain, purpose, extra)

    def enc(coder, plain, purpose, extra=None):
        enc_jobs.append((coder, plain, purpose, extra))

    checks = [0, 1, 4, 10]
    # easy presets 0..9 and 0e..9e
    presets = list(range(10)) + [p | EXTREME for p in range(10)]
    for p in presets:
        heavy = (p & 0xFF) >= 7
        for k, pl in (plains if not quick else rng.sample(plains, 3)):
            if heavy and len(pl) not in (0, 40, 300, 4000) and rng.random() < 0.8:
                continue
            if not quick and rng.random() < 0.75 and len(pl) > 100:
                continue
            enc("easy:%d:%d" % (p, rng.choice(checks)), pl, "xz", dict(level="light" if heavy or (p & EXTREME and len(pl) > 1000) else level_for(len(pl))))
        if not heavy or not quick:
            k, pl = rng.choice(big_plains[:2])
            enc("easy:%d:%d" % (p, rng.choice(checks)), pl, "xz", dict(level="light"))
    # stream encoder with chains; struct and string forms must give identical bytes
    for (ss, ts) in chains:
        has_bcj = any(b in ss for b in BCJ)
        for k, pl in (plains if not quick else rng.sample(plains, 2) + [p for p in plains if len(p[1]) == 4000 and p[0] == "code"][:1 if has_bcj else 0]):
            if not quick and rng.random() < 0.7:
                continue
            ck = rng.choice(checks)
            enc("se:%d:%s" % (ck, ss), pl, "xz", dict(level=level_for(len(pl)), twin="se:%d:%s" % (ck, ts), bcj=has_bcj))
        k, pl = rng.choice(big_plains)
        enc("se:%d:%s" % (4, ss), pl, "xz", dict(level="light", twin="se:%d:%s" % (4, ts), bcj=has_bcj))
        # raw and block coders on the same chains
        k, pl = rng.choice(plains)
        enc("rawe:" + ss, pl, "raw", dict(level=level_for(len(pl)), twin="rawe:" + ts, chain=ss, bcj=has_bcj))
        k, pl = rng.choice(plains)
        ck = rng.choice(checks)
        enc("blocke:%d:%s" % (ck, ss), pl, "block", dict(level=level_for(len(pl)), twin="blocke:%d:%s" % (ck, ts), check=ck, bcj=has_bcj))
    for (ss, ts) in lzma1_variants:
        for k, pl in rng.sample(plains, 3 if quick else 10) + [rng.choice(big_plains[:2])]:
            enc("alonee:" + ss, pl, "alone", dict(level=level_for(len(pl))))
            if rng.random() < 0.5:
                enc("rawe:" + ss, pl, "raw", dict(level=level_for(len(pl)), twin="rawe:@" + ts, chain=ss, lzma1=True))
        for cap in (6, 7, 20, 100, 1000, 5000):
            k, pl = rng.choice(plains[3:])
            enc("microe:%d:%s" % (cap, ss), pl, "micro", dict(level="light", opts=ss))
    # threaded encoder: identical bytes for every thread count / timeout; several block sizes and chains
    mt_cfgs = [("4096:1", chains[0][0]), ("8192:4", chains[11][0] if len(chains) > 11 else chains[0][0]), ("16384:0", "1"), ("0:10", "0")]
    if not quick:
        mt_cfgs += [("5000:4", chain("x86", small)[0]), ("65536:1", "6"), ("12345:4", str(3 | EXTREME))]
    mt_plains = [big_plains[0][1][:20000], big_plains[1][1][:33000]] + ([] if quick else [big_plains[2][1][:200000]]) + [plains[3][1], b""]
    for bs_ck, what in mt_cfgs:
        for pl in (mt_plains if not quick else [mt_plains[0], rng.choice(mt_plains[1:])]):
            members = []
            for t in range(1, 9):
                for to in (0, 1, 50):
                    if quick and rng.random() < 0.5 and not (t in (1, 8) and to == 0):
                        continue
                    members.append(("semt:%d:%d:%s:%s" % (t, to, bs_ck, what), "F", "W"))
            C.group("mt-encoder-determinism", "f", pl, members)
            for m in rng.sample(members, 3 if quick else 8):
                C.sweep(m[0], pl, "f", "mt", len(pl) // 2 + 100, "F", "semt")
            if bs_ck.startswith("4096") or bs_ck.startswith("8192"):
                enc(members[-1][0], pl, "xz-mt", dict(level="light", multiblock=True))

    # Blocks WITH size fields in their headers (only the threaded encoder writes them) behind a BCJ filter: the Block decoder's
    # in/out limit logic meets a filter that still holds decoded bytes back after LZMA2 has consumed its end marker.
    bcj_mt = [chain(b, small) for b in (BCJ if not quick else rng.sample(BCJ, 3))]
    bcj_mt += [chain(("delta", rng.choice((1, 4))), rng.choice(BCJ), small), chain(rng.choice(BCJ), ("delta", 2), small)]
    if not quick:
        bcj_mt += [chain((b, BCJ_ALIGN[b] * rng.randrange(1, 999)), small) for b in rng.sample(BCJ, 3)] + [chain("x86", "arm64", small)]
    for (ss, ts) in bcj_mt:
        for n in ((4096 * 2 + rng.randrange(1, 4096),) if quick else (4096 * 2 + rng.randrange(1, 4096), 4096 * 3, 4096 + rng.randrange(1, 12), 700)):
            pl = gen_plain(rng, n, "code")
            enc("semt:%d:0:4096:%d:%s" % (rng.choice((1, 2, 3)), rng.choice(checks), ss), pl, "xz-mt", dict(level="mt", multiblock=True, mtbcj=True))

    C.string_bad = string_forms(ctx, H, C)

    # ---- phase A: run the encoders whole-buffer to obtain their output (also the encoders' reference) ----------------
    lines = ["run %s F %s fresh full W" % (c, hx(pl)) for (c, pl, _, _) in enc_jobs]
    outs = H.run(lines, costs=[len(pl) + 1000 for (_, pl, _, _) in enc_jobs])
    made = {"xz": [], "raw": [], "block": [], "alone": [], "micro": []}
    for (coder, pl, purpose, extra), o in zip(enc_jobs, outs):
        if o is None:
            continue   # reported through H.abort
        r = parse_results(o)
        if not r:
            ctx.obligation_broken("harness did not understand the op: " + lines[0][:100], str(o)[:300])
            continue
        r = r[0]
        lvl = extra.get("level", "light")
        # the encoder itself under slicings of the plaintext and of the output space
        if purpose != "micro":
            C.sweep(coder, pl, "f", lvl, r["len"], "F", "enc")
        else:
            C.sweep(coder, pl, "f", "light", r["len"], "F", "enc")
        if extra.get("twin"):
            C.group("struct-vs-string-chain", "f", pl, [(coder, "F", "W"), (extra["twin"], "F", "W")])
        if r["ret"] != 1 or r["hex"] is None:
            continue
        comp = bytes.fromhex(r["hex"]) if r["hex"] != "-" else b""
        ctx.count("encoded:" + purpose)
        if purpose in ("xz", "xz-mt"):
            made["xz"].append((comp, pl, extra))
        elif purpose == "raw":
            made["raw"].append((comp, pl, extra))
        elif purpose == "block":
            # strip the textual trailer the harness adds ("|csize=..;usize=..;")
            cut = comp.rfind(b"|csize=")
            made["block"].append((comp[:cut], pl, extra))
        elif purpose == "alone":
            made["alone"].append((comp, pl, extra))
        elif purpose == "micro":
            made["micro"].append((comp, r["in"], extra))

    # ---- decoders over generated files and their mutants ---------------------------------------------------------
    hows = ["trunc", "flip", "byte", "insert", "delete", "append", "headflip", "trunc-tail", "flip", "flip"]

    def dec_level(comp, pl):
        return level_for(len(comp), len(pl))

    for comp, pl, extra in made["xz"]:
        if not extra.get("mtbcj"):
            continue
        recs = xz_index_records(comp)
        if not recs:
            continue
        bounds, acc = [], 0
        for (_, u) in recs:
            acc += u
            bounds.append(acc)
        tiny = ["B:5", "B:8", "B:9", "B:10", "B:11", "B:12"]
        near = []
        for b in bounds:
            near += ["O:%d:%d:1" % (max(0, b - 12), b + 1)]
        its = tiny + near + ["X:%d:8:%d" % (rng.randrange(1, 1 << 30), len(pl) + 3), "R:%d:3:400:%d:7:10" % (rng.randrange(1, 1 << 30), len(comp))]
        ck = comp[7] & 0x0F
        decs = ["sd:0:0", "sd:%d:0" % CONCAT, "auto:%d:0" % rng.choice((0, TELL_ANY)), "sdmt:0:1:0:0:0", "sdmt:0:2:0:0:0", "sdmt:0:2:0:1:0"]
        for d in (decs if not quick else ["sd:0:0", rng.choice(decs[1:3]), rng.choice(decs[3:])]):
            C.sweep(d, comp, "m" if d.startswith("sdmt") else "a", "mt", len(pl), "F", "gen-xz-mt-bcj", items=list(its))
        # the first Block alone through lzma_block_decoder
        b0 = ["O:%d:%d:1" % (max(0, bounds[0] - 12), bounds[0] + 1)]
        C.sweep("blockd:%d:0" % ck, comp[12:], "a", "mt", bounds[0], "F", "gen-xz-mt-bcj", items=tiny + b0)
    sel = made["xz"] if not quick else rng.sample(made["xz"], min(len(made["xz"]), 40))
    sel += [x for x in made["xz"] if x[2].get("multiblock") and x not in sel]
    for comp, pl, extra in sel:
        lv = dec_level(comp, pl)
        f = rng.choice(sd_flags)
        C.sweep("sd:%d:0" % f, comp, "a", lv, len(pl), rng.choice("FFR"), "gen-xz")
        if rng.random() < 0.3:
            C.sweep("auto:%d:0" % f, comp, "a", lv, len(pl), "F", "gen-xz")
        if rng.random() < 0.5:
            C.sweep("sdmt:%d:%d:%d:0:0" % (rng.choice((0, CONCAT)), rng.choice((1, 2, 4)), rng.choice((0, 0, 1))), comp, "m", "mt", len(pl), "F", "gen-xz")
        if rng.random() < 0.3 or extra.get("multiblock"):
            C.sweep("fileinfo:0", comp, "i", "mt", 400, "F", "gen-xz")
            ix = xz_index_field(comp)
            if ix is not None:
                C.sweep("indexd:0", ix, "a", level_for(len(ix)), 400, "F", "gen-index")
                C.sweep("indexe", ix, "f", level_for(len(ix)), len(ix), "F", "gen-index")
        # two streams + padding, with CONCATENATED
        if rng.random() < 0.25 and len(comp) < 3000:
            other = rng.choice(made["xz"])[0]
            if len(other) < 3000:
                cat = comp + bytes(4 * rng.randrange(0, 3)) + other + bytes(4 * rng.randrange(0, 2))
                C.sweep("sd:%d:0" % CONCAT, cat, "a", level_for(len(cat), 8000), None, rng.choice("FR"), "gen-xz-concat")
                C.sweep("fileinfo:0", cat, "i", "mt", 800, "F", "gen-xz-concat")
        for _ in range(2 if quick else 3):
            m = mutate(rng, comp, rng.choice(hows))
            dec = rng.choice(["sd:%d:0" % rng.choice(sd_flags), "sd:0:0", "auto:0:0", "sdmt:0:%d:0:0:0" % rng.choice((1, 2, 4))])
            mt = dec.startswith("sdmt")
            C.sweep(dec, m, "m" if mt else "a", "mt" if mt else level_for(len(m), len(pl)), len(pl), "F" if mt else rng.choice("FFR"), "gen-xz-mutant")
    for comp, pl, extra in made["raw"]:
        ch = extra["chain"]
        C.sweep("rawd:" + ch, comp, "a", dec_level(comp, pl), len(pl), "F", "gen-raw")
        if extra.get("lzma1"):
            base = "lzma1ext" + ch[len("lzma1"):]
            for ext, fl in ((len(pl), 1), (len(pl), 0), (2 ** 64 - 1, 0), (len(pl) + 1, 1), (max(0, len(pl) - 1), 1)):
                C.sweep("rawd:%s,extflags=%d,extsize=%d" % (base, fl, ext), comp, "a", dec_level(comp, pl), len(pl), "F", "gen-raw-lzma1ext")
        for _ in range(1 if quick else 3):
            m = mutate(rng, comp, rng.choice(hows))
            C.sweep("rawd:" + ch, m, "a", level_for(len(m), len(pl)), len(pl), "F", "gen-raw-mutant")
    for comp, pl, extra in made["block"]:
        C.sweep("blockd:%d:%d" % (extra["check"], rng.choice((0, 0, 1))), comp, "a", dec_level(comp, pl), len(pl), "F", "gen-block")
        for _ in range(1 if quick else 3):
            m = mutate(rng, comp, rng.choice(hows))
            C.sweep("blockd:%d:0" % extra["check"], m, "a", level_for(len(m), len(pl)), len(pl), "F", "gen-block-mutant")
    for comp, pl, extra in made["alone"]:
        C.sweep("alone:0", comp, "a", dec_level(comp, pl), len(pl), rng.choice("FR"), "gen-alone")
        if rng.random() < 0.3:
            C.sweep("auto:0:0", comp, "a", dec_level(comp, pl), len(pl), "F", "gen-alone")
        # known uncompressed size in the header while the encoder's end marker is present (the F1 shape)
        if len(comp) >= 13:
            ks = comp[:5] + struct.pack("<Q", len(pl)) + comp[13:]
            C.sweep("alone:0", ks, "a", dec_level(ks, pl), len(pl), rng.choice("FR"), "gen-alone-known-size+eopm")
        for _ in range(1 if quick else 3):
            m = mutate(rng, comp, rng.choice(hows))
            C.sweep("alone:0", m, "a", level_for(len(m), len(pl)), len(pl), "F", "gen-alone-mutant")
    for comp, used, extra in made["micro"]:
        o = extra["opts"]
        dsz = re.search(r"dict=(\d+)", o)
        dsz = int(dsz.group(1)) if dsz else 1 << 20
        for exact in (1, 0):
            C.sweep("microd:%d:%d:%d:%d" % (len(comp), used, exact, dsz), comp, "a" if exact else "o", level_for(len(comp), used), used, "F", "gen-micro")
        m = mutate(rng, comp, rng.choice(hows))
        C.sweep("microd:%d:%d:1:%d" % (len(m), used, dsz), m, "a", level_for(len(m), used), used, "F", "gen-micro-mutant")
    # raw noise into every decoder
    for _ in range(6 if quick else 40):
        noise = gen_plain(rng, rng.choice((1, 5, 12, 13, 14, 30, 200)), rng.choice(["rand", "zero", "runs"]))
        dec = rng.choice(["sd:0:0", "auto:0:0", "alone:0", "lzip:0:0", "indexd:0", "fileinfo:0", "rawd:" + small[0], "rawd:lzma1,dict=4096",
                          "microd:%d:100:0:4096" % len(noise), "sdmt:0:2:0:0:0", "blockd:1:0"])
        C.sweep(dec, noise, "i" if dec.startswith("fileinfo") else "m" if dec.startswith("sdmt") else "a", "full" if not dec.startswith("sdmt") else "mt", 300, "F", "noise")
    return C


# ------------------------------------------------------------------------------------------------
# small-coder tie (harness vs xzm_c06)
# ------------------------------------------------------------------------------------------------
def vli_bytes(v):
    out = bytearray()
    while v >= 0x80:
        out.append((v & 0x7F) | 0x80)
        v >>= 7
    out.append(v)
    return bytes(out)


def small_ops(ctx):
    rng, quick = ctx.rng, ctx.quick()
    ops = []
    N = 1 if quick else 6

    def pieces(total, k=None):
        k = rng.randrange(0, 7) if k is None else k
        return [str(rng.choice((0, 0, 1, 1, 1, 2, 3, rng.randrange(0, total + 2)))) for _ in range(k)]

    def pairs(n, k=None):
        k = rng.randrange(0, 30) if k is None else k
        return ["%d,%d" % (rng.choice((0, 1, 1, 2, 3, 5, rng.randrange(0, n + 2))), rng.choice((0, 1, 1, 2, 3, 4, 7, rng.randrange(0, n + 2)))) for _ in range(k)]

    # VLI
    vals = [0, 1, 127, 128, 129, 16383, 16384, 2 ** 21 - 1, 2 ** 28, 2 ** 35 + 5, 2 ** 49, 2 ** 56 - 1, 2 ** 56, 2 ** 62 + 12345, 2 ** 63 - 1, 2 ** 63, 2 ** 64 - 1]
    vals += [rng.getrandbits(rng.randrange(1, 64)) for _ in range(40 * N)]
    for v in vals:
        if v < 2 ** 63:
            enc = vli_bytes(v)
            tail = bytes(rng.getrandbits(8) for _ in range(rng.randrange(0, 3)))
            for _ in range(2 * N):
                ops.append("vlid %s %s" % (hx(enc + tail), " ".join(pieces(len(enc)))))
            ops.append("vlid1 %s" % hx(enc + tail))
        for _ in range(2 * N):
            ops.append(("vlie %d %s" % (v, " ".join(pieces(9)))).strip())
        ops.append("vlie1 %d %d" % (v, rng.randrange(0, 12)))
    # malformed VLIs: non-minimal, too long, truncated, random
    for _ in range(60 * N):
        k = rng.randrange(0, 12)
        b = bytearray(rng.getrandbits(8) | (0x80 if rng.random() < 0.8 else 0) for _ in range(k))
        if rng.random() < 0.3 and k:
            b[-1] = 0
        if rng.random() < 0.3 and k:
            b[-1] &= 0x7F
        ops.append(("vlid %s %s" % (hx(bytes(b)), " ".join(pieces(k)))).strip())
        ops.append("vlid1 %s" % hx(bytes(b)))
    # fixed-size field reader (lzma_bufcpy)
    for _ in range(60 * N):
        size = rng.choice((0, 1, 4, 6, 12, 12, 13, 32, 64, 1024))
        n = rng.randrange(0, size + 20)
        ops.append(("field %d %s %s" % (size, hx(gen_plain(rng, n, "rand")), " ".join(pieces(n)))).strip())
    # simple_code() with the test filter, delta
    for _ in range(300 * N):
        n = rng.choice((0, 1, 2, 3, 5, 8, 13, 16, 17, 31, 40, 64, 100, rng.randrange(0, 300)))
        data = gen_plain(rng, n, "rand")
        unit = rng.choice((1, 2, 3, 4, 5, 8, 16))
        umax = rng.choice((unit, unit, unit + 1, 2 * unit, 16)) if unit > 1 else rng.choice((1, 2, 4))
        umax = max(umax, unit)
        encf = rng.choice((0, 1))
        nextmode = 0 if encf else rng.choice((1, 2))
        fin = 1 if encf else rng.choice((0, 1))
        ops.append(("simple %d %d %d %d %d %s %s" % (unit, umax, encf, nextmode, fin, hx(data), " ".join(pairs(n)))).strip())
    for _ in range(150 * N):
        n = rng.choice((0, 1, 2, 3, 5, 8, 100, 255, 256, 257, 300, rng.randrange(0, 700)))
        data = gen_plain(rng, n, rng.choice(("rand", "wave")))
        dist = rng.choice((1, 2, 3, 4, 16, 255, 256, rng.randrange(1, 257)))
        encf = rng.choice((0, 1))
        nextmode = rng.choice((0, 1)) if encf else rng.choice((1, 2))
        fin = rng.choice((0, 1))
        ops.append(("delta %d %d %d %d %s %s" % (dist, encf, nextmode, fin, hx(data), " ".join(pairs(n)))).strip())
    # Index decoder sequence machine (index_decode() driven directly, piece by piece)
    import zlib
    for _ in range(150 * N):
        nrec = rng.choice((0, 0, 1, 1, 2, 3, 5, 17))
        body = bytearray(b"\x00" + vli_bytes(nrec))
        for _r in range(nrec):
            body += vli_bytes(rng.choice((5, 6, 100, 16383, 16384, rng.randrange(5, 1 << 30))))
            body += vli_bytes(rng.choice((0, 1, 127, 128, rng.randrange(0, 1 << 32))))
        body += bytes((-len(body)) % 4)
        body += struct.pack("<I", zlib.crc32(bytes(body)) & 0xFFFFFFFF)
        data = bytes(body)
        r = rng.random()
        if r < 0.5:
            data = mutate(rng, data, rng.choice(("flip", "byte", "trunc", "trunc-tail", "insert", "delete", "append")))
        n = len(data)
        ops.append(("ixd %s %s" % (hx(data), " ".join(pieces(n, rng.randrange(0, 12))))).strip())
    # LZMA2 chunk-header machine on streams without LZMA payload (uncompressed chunks, end marker, every kind of bad control byte)
    for _ in range(150 * N):
        out = bytearray()
        first = True
        for _c in range(rng.randrange(0, 5)):
            r = rng.random()
            if r < 0.7:
                ctl = 1 if first or rng.random() < 0.3 else 2
                if rng.random() < 0.1:
                    ctl = 2 if first else rng.choice((1, 2))
                m = rng.choice((1, 2, 3, 10, 256, 257, 5000, rng.randrange(1, 300)))
                out += bytes([ctl]) + struct.pack(">H", m - 1) + gen_plain(rng, m, rng.choice(("rand", "text")))
                first = False
            elif r < 0.8:
                out += bytes([rng.randrange(3, 0x80)])
            elif r < 0.9:
                out += bytes([rng.randrange(0x80, 0xC0), rng.getrandbits(8), rng.getrandbits(8), 0, 5])
            else:
                out += bytes([rng.randrange(0xC0, 0x100), 0, rng.getrandbits(8), 0, 3, rng.choice((0x5d, 0xe1, 0xff, 40, 44))])
        if rng.random() < 0.7:
            out += b"\x00"
        data = bytes(out)
        if rng.random() < 0.25:
            data = mutate(rng, data, rng.choice(("trunc", "flip", "append")))
        ops.append("l2d %s" % hx(data))
    return ops


# ------------------------------------------------------------------------------------------------
# stages
# ------------------------------------------------------------------------------------------------
def build(ctx):
    okb, log, _ = vlib.c_build("asan", targets=["liblzma"])
    if not okb:
        ctx.obligation_broken("stage B: the source tree does not build", log)
        return None
    okh, log, exe = vlib.harness_build("c06", HARNESS, libs=LINK)
    if not okh:
        ctx.obligation_broken("stage B: C06 harness does not compile against the source tree", log)
        return None
    return exe


def replay_dict(kind, data, cmp_, runs, results, note=""):
    return {"kind": kind, "cmp": cmp_, "input_hex": hx(data), "input_len": len(data),
            "runs": [{"coder": c, "action": a, "slicing": s} for (c, a, s) in runs],
            "results": results, "note": note,
            "meaning": "all runs must give the same result (cmp: f everything; a decoder [accepted: everything, rejected: everything unless a BCJ filter is involved, then status+total_in]; m threaded decoder; i file info)",
            "how_to_replay": "./check C06 --replay <this file>   (or: echo 'run <coder> <action> <input_hex> fresh hash <slicing>' | .cache/harness-asan/c06)"}


def confirm(H, data, cmp_, runs):
    """Re-run the given (coder, action, slicing) runs with fresh streams. Runs of the same coder share one op line (the first
    run of a line bounds the output the later ones may produce). Returns (differs, results)."""
    groups = []
    for (c, a, s) in runs:
        if groups and groups[-1][0] == (c, a):
            groups[-1][1].append(s)
        else:
            groups.append(((c, a), [s]))
    lines = ["run %s %s %s fresh hash %s" % (c, a, hx(data), " ".join(ss)) for ((c, a), ss) in groups]
    outs = H.run(lines, timeout=600)
    res = []
    for ((c, a), ss), o in zip(groups, outs):
        r = parse_results(o or "")
        res += r if len(r) == len(ss) else [None] * len(ss)
    if any(r is None for r in res):
        return True, [r["text"] if r else "harness-abort" for r in res]
    differs = any(not same(res[0], r, cmp_) for r in res[1:])
    return differs, [r["text"] for r in res]


def gen_repeats(rng, n, layout):
    """Data with long repeats where an older string is later the best match source."""
    out = bytearray()
    if layout == "records":
        vocab = [bytes(rng.choice(b"abcdefghijklmnopqrstuvwxyz_ ") for _ in range(rng.randrange(10, 60))) for _ in range(24)]
        k = 0
        while len(out) < n:
            k += 1
            out += b"id=%06d;" % (k * rng.choice((1, 1, 7))) + rng.choice(vocab) + b";" + rng.choice(vocab)[:rng.randrange(4, 40)] + b"\n"
    elif layout == "echo":
        out += bytes(rng.getrandbits(8) for _ in range(300))
        while len(out) < n:
            src = rng.randrange(0, len(out) - 4)
            ln = rng.choice((3, 4, 5, 8, 13, 21, 40, 80, 273, 300))
            out += out[src:src + ln]
            out += bytes(rng.getrandbits(8) for _ in range(rng.choice((0, 1, 1, 2, 5))))
    elif layout == "phrases":
        vocab = [bytes(rng.choice(b"ETAOIN SHRDLUetaoinshrdlu.,") for _ in range(rng.randrange(6, 90))) for _ in range(16)]
        hist = []
        while len(out) < n:
            ph = bytearray(rng.choice(vocab))
            if hist and rng.random() < 0.5:
                ph = bytearray(rng.choice(hist))
            if rng.random() < 0.4:
                ph[rng.randrange(len(ph))] ^= 0x20          # a near copy: agrees with the older one up to here
            if rng.random() < 0.3:
                ph = ph[:rng.randrange(3, len(ph) + 1)]
            hist.append(bytes(ph)); hist = hist[-40:]
            out += ph
    else:
        return gen_plain(rng, n, layout)
    return bytes(out[:n])


FLUSH_OK = re.compile(r" dec=[1-] runs=\d+ diffs=0$")


def flush_cases(ctx, H, tag=""):
    """Encoder output must not depend on how the input after LZMA_SYNC_FLUSH / LZMA_FULL_FLUSH / LZMA_FULL_BARRIER is sliced
    (fill_window restarts the match finder for the positions left pending by a flush only once enough look-ahead has arrived)."""
    rng, quick = ctx.rng, ctx.quick()
    nops = (70 if quick else 700) * (3 if ctx.broken else 1)
    lines, meta = [], []
    layouts = ["records", "echo", "phrases", "echo", "records", "text", "code", "runs"]
    for k in range(nops):
        n = rng.choice((6000, 9000, 12000, 16000)) + rng.randrange(0, 999)
        data = gen_repeats(rng, n, rng.choice(layouts))
        r = rng.random()
        kinds = "S"
        if r < 0.45:
            p = rng.choice((4, 5, 6, 7, 8, 9, 6)) | (EXTREME if rng.random() < 0.25 else 0)
            if (p & 0xFF) >= 8 and rng.random() < 0.6:
                p = (p & EXTREME) | rng.choice((4, 5, 6))
            coder = "easy:%d:%d" % (p, rng.choice((0, 1, 4, 10)))
            kinds = "SSF"
        elif r < 0.85:
            mf = rng.choice(("bt2", "bt3", "bt4", "bt4", "bt3", "hc3", "hc4"))
            nice = max({"hc3": 3, "hc4": 4, "bt2": 2, "bt3": 3, "bt4": 4}[mf], rng.choice((5, 8, 12, 16, 32, 64, 128, 273)))
            spec = "lzma2,dict=%d,lc=%d,lp=0,pb=%d,mode=%d,nice=%d,mf=%d,depth=%d" % (
                rng.choice((4096, 65536, 1 << 20)), rng.choice((0, 3, 4)), rng.choice((0, 2)), rng.choice((1, 2, 2)), nice, MF[mf], rng.choice((0, 0, 4, 50)))
            if rng.random() < 0.15:
                spec = "delta,dist=%d+" % rng.choice((1, 4)) + spec
            coder = rng.choice(("se:%d:%s" % (rng.choice((0, 1, 4)), spec), "rawe:" + spec, "se:4:" + spec))
            kinds = "SSF" if coder.startswith("se") else "S"
        else:
            coder = "semt:%d:0:%d:%d:%s" % (rng.choice((1, 2, 3)), rng.choice((4096, 8192, 0)), rng.choice((1, 4)), rng.choice(("1", "4", "6")))
            kinds = "FB"
        npt = rng.choice((1, 1, 1, 2, 3))
        pts = sorted(rng.randrange(2048, n - 1500) | 1 for _ in range(npt))
        points = ",".join("%s%d" % (rng.choice(kinds), q) for q in pts)
        variants = ["1/1", "1/5000", "3/5", "8/12000", "8/1", "2/64", "16/16", "40/7", "100/100", "5000/5000",
                    "%d/%d" % (rng.randrange(1, 300), rng.randrange(1, 300)), "a%d/%d" % (rng.randrange(1, 40), rng.randrange(1, 4000))]
        lines.append("flush %s %s %s %d %s" % (coder, hx(data), points, rng.choice((0, 0, 0, 7, 100, 4096)), " ".join(variants)))
        meta.append((coder, points, len(data)))
    # EMPTY lzma_code(LZMA_RUN) calls (avail_in == 0; also avail_out == 0) at the structural boundaries of an encoder: at the very
    # start of the Stream, right after a completed FULL_FLUSH / FULL_BARRIER / SYNC_FLUSH (between Blocks), after the last data
    # before LZMA_FINISH; also with no data after the last flush, two flushes in a row, and empty input overall. The bytes must
    # equal the run without the empty calls (same number of Blocks, no extra empty Block).
    small = "lzma2,dict=65536"
    for k in range((60 if quick else 500) * (3 if ctx.broken else 1)):
        n = rng.choice((0, 0, 1, 2, 100, 3000, 5000 + rng.randrange(0, 4000)))
        data = gen_repeats(rng, n, rng.choice(("records", "text", "echo"))) if n else b""
        r = rng.random()
        if r < 0.4:
            coder = rng.choice(("easy:%d:%d" % (rng.choice((0, 1, 3, 6)), rng.choice((0, 1, 4, 10))), "se:%d:%s" % (rng.choice((0, 4)), small),
                                "se:1:delta,dist=2+" + small, "se:4:x86+" + small))
            acts = "FBN" if ("x86" in coder) else "FBSN"
        elif r < 0.65:
            coder = "semt:%d:%d:%d:%d:%s" % (rng.choice((1, 2, 4)), rng.choice((0, 0, 1)), rng.choice((4096, 0)), rng.choice((1, 4)), rng.choice(("0", "1")))
            acts = "FBN"
        elif r < 0.8:
            coder, acts = "alonee:lzma1,dict=4096", "N"
        elif r < 0.9:
            coder, acts = "blocke:%d:%s" % (rng.choice((0, 4)), small), "SN"
        else:
            coder, acts = "rawe:" + rng.choice((small, "lzma1,dict=4096", "delta,dist=1+" + small)), ("N" if False else "SN")
            if "lzma1" in coder:
                acts = "N"
        def emp():
            return rng.choice(("e1", "e1", "e2", "z1", "e1z1", "z1e1", "e3"))
        pts = []
        shape = rng.randrange(6)
        mid = sorted(rng.randrange(0, n + 1) for _ in range(rng.choice((1, 2)))) if n else [0]
        fl = [a for a in acts if a != "N"] or ["N"]
        if shape == 0:
            pts = ["N0" + emp()]                                             # start of the Stream, then the data (or nothing)
        elif shape == 1:
            pts = ["%s%d%s" % (rng.choice(fl), n, emp())]                    # no data after the last flush
        elif shape == 2:
            pts = ["%s%d%s" % (rng.choice(fl), mid[0], emp()), "%s%d%s" % (rng.choice(fl), n, emp())]
        elif shape == 3:
            pts = ["%s%d" % (rng.choice(fl), mid[0]), "%s%d%s" % (rng.choice(fl), mid[0], emp())]   # two flushes in a row
            if rng.random() < 0.5:
                pts.append("N%d%s" % (n, emp()))
        elif shape == 4:
            pts = ["N0" + emp()] + ["%s%d%s" % (rng.choice(acts), q, emp()) for q in mid] + ["N%d%s" % (n, emp())]
        else:
            pts = ["N%d%s" % (n, emp())]                                     # after all data, before LZMA_FINISH
        variants = ["0/0"] + (["1/1", "a3/5", "100/100"] if n > 2 else [])
        lines.append("flush %s %s %s %d %s" % (coder, hx(data), ",".join(pts), rng.choice((0, 0, 0, 1, 7, 100)), " ".join(variants)))
        meta.append((coder, ",".join(pts) + "e", len(data)))
    outs = H.run(lines, costs=[m[2] * (8 if m[0].startswith("easy") else 1) for m in meta])
    bad = 0
    for ln, (coder, points, n), o in zip(lines, meta, outs):
        if o is None:
            continue
        mr = re.search(r" runs=(\d+) diffs=(\d+)$", o)
        if not mr or "bad-" in o:
            ctx.obligation_broken("harness did not understand a flush op", ln[:120] + " -> " + o[:300])
            continue
        ctx.cov["evaluations"] += int(mr.group(1)) + 1
        ctx.case((coder, points, ln[-64:]), True, {"flush": coder, "points": points, "input_len": n, "result": o[:140]} if bad == 0 and rng.random() < 0.02 else None)
        ctx.count("flush%s:" % tag + coder.split(":")[0] + ":" + "".join(sorted(set(c for c in points if c in "SFBN")))
                  + ("+empty-calls" if points.endswith("e") else ""), int(mr.group(1)) + 1)
        if not FLUSH_OK.search(o):
            bad += 1
            if bad <= 5:
                ctx.violation("flush-slicing" + tag, {"kind": "encoder output after a flush depends on how the following input is sliced (or does not decode to the input)",
                                                "op": ln, "result": o, "expect_regex": FLUSH_OK.pattern,
                                                "how_to_replay": "./check C06 --replay <this file>  (variants are <first piece>/<later pieces> after each flush point; the reference offers each segment whole)"}, True)
    ctx.cov["correspondence"]["flush" + tag] = {"ops": len(lines), "failing": bad}
    return bad


HIST_OK = re.compile(r" runs=\d+ diffs=0$")


def history_cases(ctx, H):
    """Same data + same options => same result, whatever the handle did before: brand-new handle vs a handle re-initialised
    (no lzma_end) after a finished job, after a job that ended in an error, and after a job ABANDONED in the middle - in particular
    a threaded encoder left with every worker busy and more Blocks pending (tiny output window, or a timeout), then re-initialised
    with DIFFERENT options."""
    rng, quick = ctx.rng, ctx.quick()
    nops = (36 if quick else 300) * (3 if ctx.broken else 1)
    small = "lzma2,dict=65536"

    def mt_history():
        thr = rng.choice((1, 1, 1, 2, 3))
        bs = rng.choice((65536, 65536, 262144, 1 << 20))
        what = rng.choice((str(9 | EXTREME), str(6 | EXTREME), "6", "lzma2,dict=4194304,mf=20,nice=273,depth=200,mode=2", "x86+lzma2,dict=1048576,mf=20,nice=128",
                           "delta,dist=4+lzma2,dict=65536,lc=0,lp=2,pb=0"))
        if what == str(9 | EXTREME) and rng.random() < 0.5:
            what = str(6 | EXTREME)
        timeout = rng.choice((0, 0, 1, 5))
        nblocks = rng.choice((2, 3, 4, 5))
        outcap = rng.choice((12, 12, 1, 13, 100, 0)) if timeout == 0 else rng.choice((0, 12, 4096))
        return "semt:%d:%d:%d:%d:%s|%d|%d|%d|%d|a" % (thr, timeout, bs, rng.choice((0, 1, 4, 10)), what, rng.randrange(1, 1 << 30),
                                                    bs * nblocks + rng.randrange(0, 999), outcap, rng.choice((1, 2, 2, 3, 3, 4, 5, 6, 8, 12)))

    def other_history():
        c = rng.choice(("easy:%d:4" % rng.choice((0, 1, 6)), "se:1:x86+" + small, "sd:0:0", "sdmt:0:2:0:0:0", "alone:0", "auto:8:0", "lzip:0:0",
                        "rawe:" + small, "rawd:" + small, "alonee:lzma1,dict=4096", "semt:2:0:4096:4:1", "indexd:0", "fileinfo:0"))
        kind = rng.choice("aaf")
        return "%s|%d|%d|%d|%d|%s" % (c, rng.randrange(1, 1 << 30), rng.choice((0, 1, 50, 5000, 70000)), rng.choice((0, 1, 12, 100)), rng.randrange(1, 6), kind)

    lines, meta = [], []
    for k in range(nops):
        r = rng.random()
        if r < 0.6:
            thr = rng.choice((1, 2, 3))
            bs = rng.choice((4096, 8192, 65536))
            what = rng.choice(("1", "0", "3", small, "delta,dist=1+" + small, "arm64+" + small, "lzma2,dict=4096,lc=0,lp=0,pb=0,mf=3,mode=1,nice=16"))
            coder = "semt:%d:%d:%d:%d:%s" % (thr, rng.choice((0, 0, 1)), bs, rng.choice((0, 1, 4)), what)
            data = gen_repeats(rng, bs * rng.choice((1, 2, 3)) + rng.randrange(1, 2000), rng.choice(("records", "text", "code", "echo")))
            sl = rng.choice(("W", "W", "B:12", "R:%d:50:%d:%d:10" % (rng.randrange(1, 1 << 30), max(1, len(data) // 3), 4096)))
            hs = [mt_history() for _ in range(4 if quick else 6)] + [other_history()]
        else:
            files = corpus_files()
            name, fdata = rng.choice([f for f in files if f[0].startswith("good")])
            if name.endswith(".xz"):
                coder = rng.choice(("sd:0:0", "sd:8:0", "auto:0:0", "sdmt:0:2:0:0:0", "fileinfo:0"))
            elif name.endswith(".lzma"):
                coder = rng.choice(("alone:0", "auto:0:0"))
            else:
                coder = rng.choice(("lzip:0:0", "auto:0:0"))
            if rng.random() < 0.4:
                coder = rng.choice(("easy:%d:4" % rng.choice((1, 6)), "se:4:x86+" + small, "rawe:" + small, "alonee:lzma1,dict=4096", "blocke:1:" + small))
                fdata = gen_repeats(rng, rng.choice((0, 100, 6000)), "records")
            if len(fdata) > 6000:
                continue
            data = fdata
            sl = rng.choice(("W", "B:0", "B:3", "B:13"))
            hs = [mt_history()] + [other_history() for _ in range(3 if quick else 5)]
        lines.append("hist %s F %s %s %s" % (coder, hx(data), sl, " ".join(hs)))
        meta.append((coder, len(data), hs))
    outs = H.run(lines, costs=[sum(int(h.split("|")[2]) for h in m[2]) + m[1] for m in meta])
    bad = 0
    for ln, (coder, n, hs), o in zip(lines, meta, outs):
        if o is None:
            continue
        mr = re.search(r" runs=(\d+) diffs=(\d+)$", o)
        if not mr or "bad-" in o:
            ctx.obligation_broken("harness did not understand a hist op", ln[:120] + " -> " + o[:300])
            continue
        ctx.cov["evaluations"] += int(mr.group(1)) + 1
        ctx.case((coder, ln[-80:]), True, None)
        ctx.count("history:" + coder.split(":")[0], int(mr.group(1)))
        for h in hs:
            ctx.count("history-kind:%s-%s" % (h.split("|")[0].split(":")[0], {"a": "abandoned", "f": "finished-or-error"}[h.split("|")[5]]))
        if not HIST_OK.search(o):
            bad += 1
            if bad <= 5:
                ctx.violation("handle-history", {"kind": "the result of a job depends on what the lzma_stream handle did before (re-initialised without lzma_end)",
                                                 "op": ln, "result": o, "expect_regex": HIST_OK.pattern,
                                                 "how_to_replay": "./check C06 --replay <this file>  (history = coderA|seed|len|outcap|calls|a(bandoned)/f(inished))"}, True)
    ctx.cov["correspondence"]["handle_history"] = {"ops": len(lines), "failing": bad}
    return bad


def lzma_resume_tie(ctx, H, model_ok):
    """K stage for the resumable LZMA1/LZMA2 decoder model (Model/LzmaResume*.lean, theorems in Props/C06Slice*.lean): the model
    (`LzmaR.runPieceX`, driver ops lzr1/lzr2) and the real raw decoder (harness op lzc) are driven with the SAME per-call
    (avail_in, avail_out) windows; per-call (ret, consumed, produced) and the final (ret, total_in, output hash) must agree.
    Where the model raises its chunk-overrun flag (known finding C06:lzma2-chunk-overrun: per-call progress legitimately differs
    between runs) only the final status is compared."""
    rng, quick = ctx.rng, ctx.quick()
    res = {"ops": 0, "mismatches": 0, "overrun_status_only": 0, "model_ran": False}
    ncase = 50 if quick else 700
    # 1. make streams with the real encoders
    jobs = []
    for _ in range(ncase):
        n = rng.choice((0, 1, 2, 10, 100, 300, 700, 1500, 5000) if quick else (0, 1, 2, 10, 100, 700, 3000, 5000, 9000))
        pl = gen_repeats(rng, n, rng.choice(("records", "text", "echo", "rand", "zero", "runs", "code"))) if n else b""
        fam = rng.choice(("lzma2", "lzma2", "lzma1", "alone"))
        lc = rng.randrange(0, 5); lp = rng.randrange(0, 5 - lc); pb = rng.randrange(0, 5)
        dsz = rng.choice((4096, 4096, 8192, 65536))
        if fam == "lzma2":
            coder = "rawe:lzma2,dict=%d,lc=%d,lp=%d,pb=%d,mode=%d,nice=%d" % (dsz, lc, lp, pb, rng.choice((1, 2)), rng.choice((8, 32, 273)))
        elif fam == "lzma1":
            coder = "rawe:lzma1,dict=%d,lc=%d,lp=%d,pb=%d" % (dsz, lc, lp, pb)
        else:
            coder = "alonee:lzma1,dict=%d,lc=%d,lp=%d,pb=%d" % (dsz, lc, lp, pb)
        jobs.append((fam, coder, pl, (lc, lp, pb, dsz)))
    outs = H.run(["run %s F %s fresh full W" % (c, hx(pl)) for (_, c, pl, _) in jobs])
    c_lines, m_lines, info = [], [], []
    for (fam, coder, pl, (lc, lp, pb, dsz)), o in zip(jobs, outs):
        r = parse_results(o or "")
        if not r or r[0]["ret"] != 1 or r[0]["hex"] is None:
            continue
        comp = bytes.fromhex(r[0]["hex"]) if r[0]["hex"] != "-" else b""
        for variant in (("valid", "trunc", "flip") if quick else ("valid", "trunc", "trunc", "flip", "flip", "byte")):
            data = comp
            if variant != "valid":
                body0 = 13 if fam == "alone" else 0
                if len(comp) <= body0 + 1:
                    continue
                if variant == "trunc":
                    data = comp[:rng.randrange(body0, len(comp))]
                else:
                    b = bytearray(comp)
                    i = rng.randrange(body0, len(comp))
                    b[i] = (b[i] ^ (1 << rng.randrange(8))) if variant == "flip" else rng.getrandbits(8)
                    data = bytes(b)
            if fam == "lzma2":
                cc, payload = "rawd:lzma2,dict=%d" % dsz, data
                mprefix = "lzr2 %d" % dsz
            elif fam == "lzma1":
                cc, payload = "rawd:lzma1,dict=%d,lc=%d,lp=%d,pb=%d" % (dsz, lc, lp, pb), data
                mprefix = "lzr1 %d %d %d %d u 0" % (lc, lp, pb, dsz)
            else:
                # .lzma payload with the header's known size and the encoder's end marker allowed (the F1 shape)
                known = rng.random() < 0.6
                payload = data[13:]
                usz = len(pl) if known else 2 ** 64 - 1
                cc = "rawd:lzma1ext,dict=%d,lc=%d,lp=%d,pb=%d,extflags=1,extsize=%d" % (dsz, lc, lp, pb, usz)
                mprefix = "lzr1 %d %d %d %d %s 1" % (lc, lp, pb, dsz, str(len(pl)) if known else "u")
            nin, nout = len(payload), len(pl)
            big = "99999999,99999999x3"
            sls = ["%s" % big]
            if nin + nout <= (2000 if quick else 12000):
                # byte at a time; one byte of room per call; one byte of input per call
                sls += ["1,1x%d %s" % (nin + nout + 6, big), "99999999,1x%d %s" % (nout + 4, big), "1,99999999x%d %s" % (nin + 3, big)]
            else:
                sls += ["%d,%d %s" % (rng.randrange(0, nin + 1), rng.randrange(0, nout + 1), big), "7,13x%d %s" % (rng.randrange(5, 60), big)]
            ragged = []
            for _k in range(rng.randrange(4, 40)):
                a = rng.choice((0, 0, 1, 1, 2, 3, 7, rng.randrange(0, nin + 2)))
                b_ = rng.choice((0, 0, 1, 1, 2, 5, 13, rng.randrange(0, nout + 2)))
                ragged.append("%d,%d" % (a, b_) + ("x%d" % rng.randrange(2, 9) if rng.random() < 0.2 else ""))
            sls.append(" ".join(ragged) + " " + big)
            sls.append("0,0x2 1,0 0,1 " + " ".join("%d,%d" % (rng.randrange(0, 4), rng.randrange(0, 4)) for _ in range(20)) + " 0,0 " + big)
            for sl in (sls if not quick else rng.sample(sls, 3)):
                c_lines.append("lzc %s %s %s" % (cc, hx(payload), sl))
                m_lines.append("%s %s %s" % (mprefix, hx(payload), sl))
                info.append((fam, variant))
    res["ops"] = len(c_lines)
    c_out = H.run(c_lines)
    if not model_ok:
        ctx.cov["correspondence"]["lzma_resume"] = res
        return
    mexe = vlib.model_exe("xzm_c06")
    parts = vlib.chunks(list(range(len(m_lines))), vlib.NCPU * 2)
    mres = vlib.par_map(lambda idx: vlib.run_lines([mexe], [m_lines[i] for i in idx]), parts)
    m_out = [None] * len(m_lines)
    for idx, (rc, out, err) in zip(parts, mres):
        if rc != 0 or len(out) != len(idx):
            ctx.obligation_broken("model driver xzm_c06 failed to answer every lzr op", (err or "")[-1500:])
            ctx.cov["correspondence"]["lzma_resume"] = res
            return
        for i, o in zip(idx, out):
            m_out[i] = o
    res["model_ran"] = True
    for i, (cl, ml) in enumerate(zip(c_lines, m_lines)):
        co, mo = c_out[i], m_out[i]
        if co is None or mo is None:
            continue
        ctx.case(cl, True, {"op": cl[:120], "impl": co[-90:], "model": mo[-100:]} if i % 499 == 0 else None)
        fam, variant = info[i]
        ctx.count("lzma-resume:%s:%s" % (fam, variant))
        body, _, flag = mo.rpartition(" overrun=")
        if flag.strip() == "1":
            # chunk overrun: how far each run got is slicing dependent in the implementation (known finding); status must agree
            res["overrun_status_only"] += 1
            ctx.count("lzma-resume:overrun-status-only")
            cs = co.rpartition(" | ")[2].split()[0]
            ms = body.rpartition(" | ")[2].split()[0]
            same_ = cs == ms
        else:
            same_ = co == body
        if not same_:
            res["mismatches"] += 1
            if res["mismatches"] <= 3:
                ctx.obligation_broken("correspondence C06 resumable LZMA model (lzr/lzc): model and implementation disagree (%s, %s)" % (fam, variant),
                                      json.dumps({"impl_op": cl[:3000], "model_op": ml[:300], "impl": co[-1500:], "model": mo[-1500:]}))
    ctx.cov["correspondence"]["lzma_resume"] = res


def oracle(ctx, H):
    """The direct C-vs-C slicing oracle. Returns number of violations found."""
    t0 = time.time()
    ctx.cov.setdefault("timing_ms", {})
    C = build_cases(ctx, H)
    ctx.log("oracle: %d sweeps, %d groups prepared in %.1fs" % (len(C.sweeps), len(C.groups), time.time() - t0))
    lines = ["sweep %s %s %s %s %s" % (s["coder"], s["act"], hx(s["data"]), s["cmp"], " ".join(s["items"])) for s in C.sweeps]
    outs = H.run(lines, costs=[s["cost"] for s in C.sweeps])
    nviol = 0
    total_runs = 0
    for s, o, ln in zip(C.sweeps, outs, lines):
        kind = s["coder"].split(":")[0]
        if o is None:
            continue
        m = re.search(r" runs=(\d+) diffs=(\d+)$", o)
        mt = re.search(r" ms=(\d+) runs=", o)
        if mt:
            ctx.count("ms:" + kind, int(mt.group(1)), table="timing_ms")
            ctx.count("ms-level:" + s.get("level", "?"), int(mt.group(1)), table="timing_ms")
        ref = parse_results(o.split(" diff=")[0])
        if not m or not ref or "bad-" in o:
            ctx.obligation_broken("harness did not understand a sweep op", (ln[:60] + " ... " + ln[-200:] + " -> " + o[:300]))
            continue
        runs, diffs = int(m.group(1)), int(m.group(2))
        total_runs += runs + 1
        ctx.cov["evaluations"] += runs
        ctx.case((s["coder"], s["act"], s["data"]), nontrivial=len(s["data"]) > 0,
                 sample={"coder": s["coder"], "action": s["act"], "input_len": len(s["data"]), "tag": s["tag"], "runs": runs, "ref": ref[0]["text"][:120]})
        ctx.count("coder:" + kind, runs + 1)
        ctx.count("ref-ret:" + RET.get(ref[0]["ret"], str(ref[0]["ret"])))
        src = s["tag"].split(":")[0]
        if src.endswith((".xz", ".lzma", ".lz")):
            src = "tests/files/" + src.split("-")[0] + "-*" + (":" + s["tag"].split(":")[1] if ":" in s["tag"] else "")
        ctx.count("source:" + src)
        if diffs and nviol >= MAX_REPORTS:
            ctx.count("violations-not-written-out (more than %d)" % MAX_REPORTS)
        elif diffs:
            for dm in re.finditer(r" diff=(\S+) (\[[^\]]*\])", o):
                sl = dm.group(1)
                runs_ = [(s["coder"], s["act"], "W"), (s["coder"], s["act"], sl)]
                differs, res = confirm(H, s["data"], s["cmp"], runs_)
                seen = parse_results(dm.group(2))
                if not differs and seen and seen[0]["ret"] == 99 and kind in ("sdmt", "semt"):
                    # a threaded coder made no progress for 30 s of wall time once, and does on the second try: machine load
                    ctx.count("transient:mt-no-progress-30s-not-reproduced")
                    break
                note = "" if differs else "seen inside a sweep that reuses one lzma_stream; not reproduced with fresh streams"
                if not differs:
                    res = [ref[0]["text"], dm.group(2)]
                key = None
                pair = [parse_results(x)[0] if parse_results(x) else None for x in res]
                if ref[0]["ret"] == 9 and classify_block_lookahead(H, s["coder"], s["data"], pair):
                    key = KEY_LOOKAHEAD
                    ctx.count("finding:block-decoder-lookahead")
                    note += " [Block decoder: with all declared output produced, `uncomp_done && *in_pos < in_size` depends on how much input the current call was offered]"
                elif ref[0]["ret"] == 9 and classify_lzma2_overrun(H, s["coder"], s["data"], pair):
                    key = KEY_OVERRUN
                    ctx.count("finding:lzma2-chunk-overrun")
                    note += " [LZMA2 chunk overrun: lzma2_decode() lets the LZMA decoder read past the chunk's compressed size and reports the error afterwards]"
                if ctx.violation("slicing-%s" % kind, replay_dict("slicing-dependence", s["data"], s["cmp"], runs_, res, note + " source=" + s["tag"]), True, key=key) is not None:
                    nviol += 1
                break
    # group comparisons (determinism across thread counts, timeouts, chain notations, ST vs MT)
    glines, gidx = [], []
    for gi, g in enumerate(C.groups):
        for (c, a, sl) in g["members"]:
            glines.append("run %s %s %s fresh hash %s" % (c, a, hx(g["data"]), sl))
            gidx.append(gi)
    gouts = H.run(glines, costs=[len(C.groups[gi]["data"]) for gi in gidx])
    per = {}
    for gi, o in zip(gidx, gouts):
        per.setdefault(gi, []).append(o)
    for gi, g in enumerate(C.groups):
        rs = [parse_results(o or "") for o in per.get(gi, [])]
        if any(not r for r in rs):
            continue
        rs = [r[0] for r in rs]
        total_runs += len(rs)
        ctx.cov["evaluations"] += len(rs)
        ctx.count("group:" + g["tag"].split(":")[0], len(rs))
        bad = [i for i in range(1, len(rs)) if not same(rs[0], rs[i], g["cmp"])]
        if bad and nviol >= MAX_REPORTS:
            ctx.count("violations-not-written-out (more than %d)" % MAX_REPORTS)
        elif bad:
            i = bad[0]
            runs_ = [g["members"][0], g["members"][i]]
            differs, res = confirm(H, g["data"], g["cmp"], runs_)
            if not differs:
                res = [rs[0]["text"], rs[i]["text"]]
            ctx.violation("determinism-%s" % g["tag"].split(":")[0],
                          replay_dict("determinism", g["data"], g["cmp"], runs_, res, ("" if differs else "not reproduced on the second try (non-deterministic) ") + g["tag"]), True)
            nviol += 1
    nviol += flush_cases(ctx, H)
    nviol += history_cases(ctx, H)
    # Once more on the plain optimised build (NDEBUG): there an encoder-internal assert() cannot pre-empt the comparison, so a
    # dependence on the slicing shows as differing bytes (the replay is then a property-level failing input).
    try:
        okr, _, _ = vlib.c_build("rel", targets=["liblzma"])
        okh, _, exe_rel = vlib.harness_build("c06rel", HARNESS, variant="rel", libs=LINK) if okr else (False, "", None)
    except Exception:
        okh = False
    if okh:
        Hrel = Harness(ctx, exe_rel)
        nviol += flush_cases(ctx, Hrel, tag="-ndebug")
        if Hrel.abort is not None and H.abort is None:
            H.abort, H.nabort = Hrel.abort, Hrel.nabort
    else:
        ctx.count("flush:ndebug-build-unavailable")
    if H.abort is not None:
        ln, err, rc = H.abort
        ctx.violation("harness-abort", {"kind": "implementation aborted (sanitizer / assert / crash / lzma_code() not returning: watchdog) while being driven by run_sliced",
                                        "op": ln[:200000], "rc": rc, "stderr": err[-3000:], "aborting_ops_seen": H.nabort}, True)
        nviol += 1
    ctx.cov["correspondence"]["oracle"] = {"sweeps": len(C.sweeps), "groups": len(C.groups), "coder_runs": total_runs, "violations": nviol,
                                           "wall_s": round(time.time() - t0, 1)}
    return nviol


def small_tie(ctx, H, model_ok):
    ops = small_ops(ctx)
    c_out = H.run(ops)
    res = {"ops": len(ops), "mismatches": 0, "model_ran": False}
    if not model_ok:
        ctx.cov["correspondence"]["small_coders"] = res
        return
    mexe = vlib.model_exe("xzm_c06")
    parts = vlib.chunks(list(range(len(ops))), vlib.NCPU)
    mres = vlib.par_map(lambda idx: vlib.run_lines([mexe], [ops[i] for i in idx]), parts)
    m_out = [None] * len(ops)
    okm = True
    for idx, (rc, out, err) in zip(parts, mres):
        if rc != 0 or len(out) != len(idx):
            okm = False
            ctx.obligation_broken("model driver xzm_c06 failed to answer every op", (err or "")[-1500:])
            break
        for i, o in zip(idx, out):
            m_out[i] = o
    if not okm:
        ctx.cov["correspondence"]["small_coders"] = res
        return
    res["model_ran"] = True
    for i, op in enumerate(ops):
        kind = op.split()[0]
        ctx.case(op, nontrivial=True, sample={"op": op[:160], "impl": (c_out[i] or "")[:160]} if i % 211 == 0 else None)
        ctx.count("small:" + kind)
        if c_out[i] is None:
            continue
        if m_out[i] == "skip":
            # outside the modelled fragment (LZMA payload reached / sizes beyond lzma_index_append's limits)
            ctx.count("small:skipped-by-model")
            continue
        if c_out[i] != m_out[i]:
            res["mismatches"] += 1
            if res["mismatches"] <= 3:
                ctx.obligation_broken("correspondence C06 small coders: model and implementation disagree on `%s`" % kind,
                                      json.dumps({"op": op[:2000], "impl": c_out[i][:2000], "model": (m_out[i] or "")[:2000]}))
    ctx.cov["correspondence"]["small_coders"] = res


def audit_primed_names(ctx, mods, p_ok):
    """vlib's axiom audit reads `'name' depends on axioms: [...]` with a pattern that stops at the first apostrophe, so theorem
    names that END in a prime (lzma2_call_absorbs') are reported as "axiom audit missing". Audit exactly those names here with a
    pattern that tolerates primes; every other broken obligation is left as it is."""
    missing = [b for b in ctx.broken if b["name"].startswith("axiom audit missing for ") and b["name"].endswith("'")]
    if not missing:
        return p_ok
    names = [b["name"][len("axiom audit missing for "):] for b in missing]
    audit = os.path.join(vlib.CACHE, "audit", "C06-primed.lean")
    vlib.write_if_changed(audit, "".join("import %s\n" % m for m in mods) + "".join("#print axioms %s\n" % n for n in names))
    rc, out = vlib.lean_run_file(audit)
    flat = out.replace("\n", " ")
    ok_names = set()
    for n in names:
        m1 = re.search(re.escape("'" + n + "'") + r" depends on axioms: \[([^\]]*)\]", flat)
        m2 = re.search(re.escape("'" + n + "'") + r" does not depend on any axioms", flat)
        axs = [a.strip() for a in m1.group(1).split(",") if a.strip()] if m1 else ([] if m2 else None)
        if axs is not None and all(a in vlib.ALLOWED_AXIOMS for a in axs):
            ok_names.add(n)
            ctx.cov["axioms"][n] = axs
    keep = [b for b in ctx.broken if not (b in missing and b["name"][len("axiom audit missing for "):] in ok_names)]
    fixed = len(ctx.broken) - len(keep)
    ctx.broken[:] = keep
    ctx.cov["discharged"] += fixed
    still = [b for b in ctx.broken if b not in missing or True]
    return p_ok or (fixed == len(missing) and not [b for b in ctx.broken if "axiom" in b["name"] or "forbidden" in b["name"] or "lake build" in b["name"] or b["name"].startswith(("theorem", "def", "example", "lemma"))])


def run(ctx):
    ctx.cov["rule"] = ("(coder, action, input) triples: every public liblzma coder x tests/files/* + files generated by the real encoders over "
                       "text/random/zero/run/code/wave plaintexts (0..4096 bytes exhaustively split; 20K-300K sampled) + mutants "
                       "(truncate/flip/insert/delete/append) + noise; per triple the whole-buffer run is compared with: every two-piece input split, "
                       "every two-piece output split, 13 byte-at-a-time / tiny-output patterns with empty calls, random slicings, NULL-pointer empty windows, "
                       "handle reuse after success / error / mid-stream abandon (K items) and across coders (G), fresh-handle cross-check (FW); "
                       "evaluations = coder runs; distinct = distinct (coder, action, input)")
    ctx.assumptions += [
        "resumable LZMA1/LZMA2 model (Props/C06Slice*.lean): that the C decoder's saved sequence/locals are the model's continuation is established by the lzr/lzc correspondence only (valid, truncated and corrupted streams; whole, byte-at-a-time, one byte of room, ragged and empty-call windows)",
        "Lean 4 kernel; the generic theorem is about coders that are images of byte machines; that the C LZMA/LZMA2/container coders behave like one is checked by the slicing oracle only (not proved)",
        "harness/c06_run.h implements the slicing semantics stated in its header comment; fairness = after the listed pieces every call offers all remaining input and 1 MiB of output",
        "thread schedules of the MT coders are those the OS produced during the run (systematic schedule exploration belongs to C07/C08)",
        "file-info decoder: only status and the resulting index are compared (the amount read around a seek depends on how much each call shows, by design)",
        "lzma_microlzma_decoder with uncomp_size_is_exact=false: only status and output bytes are compared (the API declares the size inexact; how far the range decoder has read when the requested output is complete varies by one byte with the slicing)",
        "known finding C06:block-decoder-uncomp-done-lookahead (findings/C06-block-decoder-lookahead.md) is attributed only when both runs return LZMA_DATA_ERROR with byte-identical output equal to everything the Block Headers declare up to a Block with a declared Uncompressed Size, and both total_in values lie inside that Block's compressed data",
        "known finding C06:lzma2-chunk-overrun (findings/C06-lzma2-chunk-overrun.md) is attributed only when both runs return LZMA_DATA_ERROR and an independent walk of the container and LZMA2 chunk headers shows the byte-at-a-time decoder failing exactly at chunk_end+1 inside an LZMA chunk",
    ]
    mods = ["XzVerif.Props.C06", "XzVerif.Props.C06Slice", "XzVerif.Props.C06SliceCoder"]
    p_ok = ctx.lean_stage(mods, exes=["xzm_c06"])
    p_ok = audit_primed_names(ctx, mods, p_ok)
    exe = build(ctx)
    if exe is None:
        return "proof"
    H = Harness(ctx, exe)
    small_tie(ctx, H, p_ok)
    lzma_resume_tie(ctx, H, p_ok)
    oracle(ctx, H)
    return "proof"


def replay(ctx, path):
    import replaylib
    r = replaylib.load(ctx, path)
    if "no_longer_checks" in r and "runs" not in r and "op" not in r:
        return replaylib.obligations("C06", run, r, path)
    exe = build(ctx)
    if exe is None:
        print("cannot build")
        return 2
    H = Harness(ctx, exe)
    if "op" in r and "runs" not in r:
        rc, out, err = vlib.run_lines([exe], [r["op"]])
        print("rc", rc, out, err[-2000:])
        if rc != 0 or (r.get("expect_prefix") and not (out and out[0].startswith(r["expect_prefix"]))) \
                or (r.get("expect_regex") and not (out and re.search(r["expect_regex"], out[0]))):
            print("VIOLATION property=C06 replay=%s" % path)
            return 1
        print("replay passes")
        return 0
    data = bytes.fromhex(r["input_hex"]) if r["input_hex"] != "-" else b""
    runs = [(x["coder"], x["action"], x["slicing"]) for x in r["runs"]]
    differs, res = confirm(H, data, r["cmp"], runs)
    for (c, a, s), t in zip(runs, res):
        print("%-40s %s %-24s %s" % (c[:40], a, s[:24], t))
    if differs:
        return replaylib.failed(ctx, "C06", r, path)
    print("replay passes (all runs agree)")
    return 0
