#!/usr/bin/env python3
"""Regenerates hooks/h3-mtdec.patch: applies the add-only H3 event hooks (all inside #ifdef TUKAANI_PROJECT_XZ_VERIF) to a
scratch worktree of /repo and prints `git diff`.   usage: c07_mkhook.py <worktree>   (the worktree must be clean)
Event numbers: 1xx main thread of the threaded decoder, 2xx its worker threads, 3xx outqueue.c (shared with the encoder)."""
import subprocess, sys

WT = sys.argv[1]
G = "TUKAANI_PROJECT_XZ_VERIF"


def ev(indent, n, p="NULL", a="0", b="0", c="0"):
    t = "\t" * indent
    return "#ifdef %s\n%sVERIF_MT_EV(%d, %s, %s, %s, %s);\n#endif\n" % (G, t, n, p, a, b, c)


def edit(path, edits):
    s = open(path).read()
    for anchor, where, text, *occ in edits:
        k = occ[0] if occ else 0
        idx = -1
        start = 0
        for _ in range(k + 1):
            idx = s.find(anchor, start)
            if idx < 0:
                raise SystemExit("anchor not found in %s: %r (#%d)" % (path, anchor, k))
            start = idx + 1
        if not occ and s.find(anchor, idx + 1) >= 0:
            raise SystemExit("anchor not unique in %s: %r" % (path, anchor))
        if where == "before":
            # insert at the beginning of the line containing the anchor start
            ls = s.rfind("\n", 0, idx) + 1
            s = s[:ls] + text + s[ls:]
        else:
            le = idx + len(anchor) if anchor.endswith("\n") else s.find("\n", idx + len(anchor)) + 1
            s = s[:le] + text + s[le:]
    open(path, "w").write(s)


OQH = WT + "/src/liblzma/common/outqueue.h"
OQC = WT + "/src/liblzma/common/outqueue.c"
DEC = WT + "/src/liblzma/common/stream_decoder_mt.c"

edit(OQH, [
    ('#include "common.h"', "after",
     "\n#ifdef %s\n"
     "// Verification hook H3 (/verif/hooks/h3-mtdec.patch): protocol events of the threaded coders.\n"
     "// NULL (the default) disables it. Defined in outqueue.c.\n"
     "extern void (*lzma_verif_mt_event)(unsigned ev, const void *p,\n"
     "\t\tuint64_t a, uint64_t b, uint64_t c);\n"
     "#\tdefine VERIF_MT_EV(ev, p, a, b, c) \\\n"
     "\t\tdo { if (lzma_verif_mt_event != NULL) \\\n"
     "\t\t\tlzma_verif_mt_event((ev), (p), (uint64_t)(a), \\\n"
     "\t\t\t\t(uint64_t)(b), (uint64_t)(c)); \\\n"
     "\t\t} while (0)\n"
     "#endif\n" % G),
])

edit(OQC, [
    ('#include "outqueue.h"', "after",
     "\n#ifdef %s\nvoid (*lzma_verif_mt_event)(unsigned ev, const void *p,\n\t\tuint64_t a, uint64_t b, uint64_t c) = NULL;\n#endif\n" % G),
    ("\toutq->mem_in_use += lzma_outq_outbuf_memusage(buf->allocated);\n\n\treturn buf;", "before", ev(1, 300, "buf", "buf->allocated", "lzma_outq_outbuf_memusage(buf->allocated)", "outq->bufs_in_use")),
    ("\t// Free this buffer for further use.\n\tmove_head_to_cache(outq, allocator);", "before", ev(1, 301, "buf", "finish_ret", "buf->pos")),
    ("\t\tenable_partial_output(outq->head->worker);", "before", ev(2, 302, "outq->head->worker")),
])

edit(DEC, [
    # ---- worker_enable_partial_update
    ("\t\tthr->partial_update = PARTIAL_START;", "after", ev(2, 210, "thr")),
    # ---- worker_decoder
    ("\tif (thr->state == THR_IDLE) {\n", "after", ev(2, 200, "thr")),
    ("\tif (thr->state == THR_EXIT) {\n", "after", ev(2, 201, "thr")),
    ("\tif (in_filled == thr->in_pos && partial_update != PARTIAL_START) {\n", "after", ev(2, 202, "thr", "in_filled", "thr->in_pos")),
    ("\tmythread_mutex_unlock(&thr->mutex);\n\n\t// Pass the input in small chunks", "before", ev(1, 203, "thr", "in_filled", "partial_update", "thr->in_pos")),
    ("\t\t\tthr->outbuf->allocated, LZMA_RUN);\n", "after", ev(1, 204, "thr", "ret", "thr->in_pos", "thr->out_pos")),
    ("\t\t\t\tthr->outbuf->decoder_in_pos = thr->in_pos;\n\t\t\t\tmythread_cond_signal(&thr->coder->cond);", "before", ev(4, 205, "thr", "thr->out_pos", "thr->in_pos")),
    ("\t\tif (thr->state != THR_EXIT)\n\t\t\tthr->state = THR_IDLE;\n", "after", ev(2, 206, "thr", "ret", "thr->state == THR_EXIT")),
    ("\t\tlzma_free(thr->in, thr->allocator);\n\t\tthr->in = NULL;\n\t}\n", "after", ev(1, 207, "thr", "ret == LZMA_STREAM_END")),
    ("\t\t\tthr->coder->threads_free = thr;\n\t\t}\n", "after", ev(2, 208, "thr", "ret")),
    ("\t\tlzma_free(thr->in, thr->allocator);\n\t\tlzma_next_end(&thr->block_decoder, thr->allocator);\n", "after", ev(2, 209, "thr")),
    # ---- threads_end / threads_stop
    ("\t\t\tcoder->threads[i].state = THR_EXIT;\n", "after", ev(3, 120, "&coder->threads[i]", "i")),
    ("\tcoder->threads_initialized = 0;\n\tcoder->threads = NULL;", "before", ev(1, 122)),
    ("\t\t\tcoder->threads[i].state = THR_IDLE;\n", "after", ev(3, 123, "&coder->threads[i]", "i")),
    # ---- initialize_new_thread / get_thread
    # announced BEFORE pthread_create so that the new worker's first event never precedes it
    ("\tif (mythread_create(&thr->thread_id, worker_decoder, thr))", "before", ev(1, 124, "thr", "coder->threads_initialized")),
    ("\t// If there is a free structure on the stack, use it.\n\tmythread_sync(coder->mutex) {\n", "after", ev(2, 126, "coder->threads_free", "coder->threads_free != NULL")),
    ("\t\t\tcoder->mem_cached -= coder->thr->mem_filters;\n", "after", ev(3, 125, "coder->thr")),
    # ---- read_output_and_wait
    ("\tlzma_ret ret = LZMA_OK;\n\n\tmythread_sync(coder->mutex) {\n\t\tdo {", "before",
     ev(1, 130, "NULL", "input_is_possible != NULL", "waiting_allowed", "out_size - *out_pos")),
    ("\t\t\t// Check if lzma_outq_read reported an error from\n", "before", ev(3, 131, "NULL", "ret", "*out_pos - out_start", "coder->thread_error")),
    ("\t\t\t// Wait for input or output to become possible.\n", "before", ev(3, 132, "NULL", "coder->timeout != 0")),
    ("\t\t\t\t\tret = LZMA_TIMED_OUT;\n", "after", ev(5, 133, "NULL", "1")),
    ("\t// If we are returning an error, then the application cannot get\n\t// more output from us", "before",
     ev(1, 134, "NULL", "ret", "input_is_possible != NULL && *input_is_possible", "coder->pending_error")),
    # ---- stream_decode_mt
    ("\tcoder->out_was_filled = false;\n\n\twhile (true)", "before", ev(1, 100, "NULL", "waiting_allowed", "action", "in_size - *in_pos")),
    ("\t\t// Return if we didn't get the whole Stream Header yet.\n", "before", ev(2, 101, "NULL", "coder->pos < LZMA_STREAM_HEADER_SIZE")),
    ("\t\tconst lzma_ret ret = lzma_stream_header_decode(\n\t\t\t\t&coder->stream_flags, coder->buffer);\n", "after", ev(2, 102, "NULL", "ret")),
    ("\t\tif (ret == LZMA_OK) {\n\t\t\t// We didn't decode the whole Block Header yet.", "before", ev(2, 103, "NULL", "ret", "action == LZMA_FINISH")),
    ("\t\t\t// One or more unknown Filter IDs.\n", "before", ev(3, 104)),
    ("\t\tif (coder->mem_next_filters > coder->memlimit_stop) {\n", "before", ev(2, 105, "NULL", "coder->mem_next_filters > coder->memlimit_stop")),
    ("\t\t\tcoder->sequence = SEQ_BLOCK_DIRECT_INIT;\n", "before", ev(3, 106, "NULL", "1"), 0),
    ("\t\t\tcoder->sequence = SEQ_BLOCK_DIRECT_INIT;\n", "before", ev(3, 106, "NULL", "2"), 1),
    ("\t\t\tcoder->sequence = SEQ_BLOCK_DIRECT_INIT;\n", "before", ev(3, 106, "NULL", "3"), 2),
    ("\t\tif (ret != LZMA_OK) {\n\t\t\tcoder->pending_error = ret;\n\t\t\tcoder->sequence = SEQ_ERROR;\n\t\t\tbreak;\n\t\t}\n\n\t\tcoder->sequence = SEQ_BLOCK_THR_INIT;", "before", ev(2, 107, "NULL", "ret", "coder->mem_next_block", "coder->memlimit_threading")),
    ("\t\tif (coder->pending_error != LZMA_OK) {\n\t\t\tcoder->sequence = SEQ_ERROR;\n\t\t\tbreak;\n\t\t}\n\n\t\tif (!block_can_start) {", "before",
     ev(2, 108, "NULL", "block_can_start", "coder->pending_error")),
    ("\t\t\tcoder->mem_in_use += coder->mem_next_in\n\t\t\t\t\t+ coder->mem_next_filters;\n", "after", ev(3, 109, "NULL", "coder->mem_next_in + coder->mem_next_filters", "coder->mem_in_use")),
    ("\t\t// Free the allocated filter options since they are needed\n\t\t// only to initialize the Block decoder.\n\t\tlzma_filters_free(coder->filters, allocator);\n\t\tcoder->thr->block_options.filters = NULL;", "before",
     ev(2, 110, "coder->thr", "ret")),
    ("\t\tcoder->thr->outbuf = lzma_outq_get_buf(\n\t\t\t\t&coder->outq, coder->thr);\n", "after", ev(2, 111, "coder->thr", "coder->thr->in_size", "coder->thr->outbuf->allocated")),
    ("\t\t\tcoder->thr->state = THR_RUN;\n", "after", ev(3, 112, "coder->thr")),
    ("\t\t\tlzma_outq_enable_partial_output(&coder->outq,\n\t\t\t\t\t&worker_enable_partial_update);", "before", ev(3, 113)),
    ("\t\tcoder->sequence = SEQ_BLOCK_THR_RUN;\n", "before", ev(2, 127)),
    ("\t\t// Tell the thread how much we copied.\n", "before", ev(2, 114, "coder->thr", "cur_in_filled", "*in_pos == in_size", "coder->thr->in_size")),
    ("\t\t\tcoder->thr->in_filled = cur_in_filled;\n", "after", ev(3, 115, "coder->thr", "cur_in_filled")),
    ("\t\t// Return if the input didn't contain the whole Block.\n", "before", ev(2, 116, "coder->thr", "coder->thr->in_filled < coder->thr->in_size", "coder->pending_error")),
    ("\t\t// Free the cached output buffers.\n\t\tlzma_outq_clear_cache(&coder->outq, allocator);", "before", ev(2, 117)),
    ("\t\t// Check if Block decoder initialization succeeded.\n\t\tif (ret != LZMA_OK)\n\t\t\treturn ret;", "before", ev(2, 118, "NULL", "ret")),
    ("\t\tcoder->progress_out += *out_pos - out_old;\n", "after", ev(2, 119, "NULL", "ret", "*out_pos - out_old", "*in_pos - in_old")),
    ("\t\tif (!lzma_outq_is_empty(&coder->outq))\n\t\t\treturn LZMA_OK;\n\n\t\tcoder->sequence = SEQ_INDEX_DECODE;", "before", ev(2, 140, "NULL", "!lzma_outq_is_empty(&coder->outq)")),
    ("\t\tif (ret != LZMA_STREAM_END)\n\t\t\treturn ret;\n\n\t\tcoder->sequence = SEQ_STREAM_FOOTER;", "before", ev(2, 141, "NULL", "ret")),
    ("\t\tif (!coder->fail_fast) {\n\t\t\t// Let the application get all data before the point", "before", ev(2, 142, "NULL", "coder->pending_error", "coder->fail_fast")),
    ("\t\t// Prepare to decode the next Stream.\n", "before", ev(2, 143)),
    ("\tthreads_end(coder, allocator);\n\tlzma_outq_end(&coder->outq, allocator);", "before", ev(1, 150)),
])

print(subprocess.run(["git", "-C", WT, "diff"], stdout=subprocess.PIPE).stdout.decode(), end="")
