"""Hand-built .xz files for the container level of the C03 correspondence (tools/props/c03.py).

Everything the project's encoder never emits: 1-4 filters incl. BCJ/delta chains WITHOUT start offset over MULTIPLE
Blocks and Streams (the decoder re-uses the filter coders from Block to Block), Blocks with/without each size field,
size fields off by +-1..8 with everything else consistent with the real layout, empty Blocks, Block Header padding,
reserved-but-valid Check IDs, unsupported filter IDs, Stream Padding.

The expected plaintext is known BY CONSTRUCTION: the bytes stored in the LZMA2 payload are chosen first, the plaintext is
what the Python filter decoders below (ported from src/liblzma/simple/*.c and delta_decoder.c, independent of the Lean
models) make of them, each Block starting at position 0.
"""
import struct
import c02lib
import lzmagen

M32 = 0xFFFFFFFF
X86, POWERPC, IA64, ARM, ARMTHUMB, SPARC, ARM64, RISCV, DELTA, LZMA2 = 4, 5, 6, 7, 8, 9, 10, 11, 3, 0x21
BCJ_PY = (X86, POWERPC, ARM, ARMTHUMB, SPARC)        # filters with a Python decoder below


# ------------------------------------------------------------------------------------------------
# filter decoders (whole buffer, start position `pos`)
# ------------------------------------------------------------------------------------------------

def delta_dec(buf, dist):
    out = bytearray(buf)
    for i in range(len(out)):
        out[i] = (out[i] + (out[i - dist] if i >= dist else 0)) & 0xFF
    return bytes(out)


def arm_dec(buf, pos=0):
    b = bytearray(buf)
    for i in range(0, len(b) & ~3, 4):
        if b[i + 3] == 0xEB:
            src = ((b[i + 2] << 16) | (b[i + 1] << 8) | b[i]) << 2
            dest = ((src - (pos + i + 8)) & M32) >> 2
            b[i + 2], b[i + 1], b[i] = (dest >> 16) & 0xFF, (dest >> 8) & 0xFF, dest & 0xFF
    return bytes(b)


def powerpc_dec(buf, pos=0):
    b = bytearray(buf)
    for i in range(0, len(b) & ~3, 4):
        if (b[i] >> 2) == 0x12 and (b[i + 3] & 3) == 1:
            src = ((b[i] & 3) << 24) | (b[i + 1] << 16) | (b[i + 2] << 8) | (b[i + 3] & ~3 & 0xFF)
            dest = (src - (pos + i)) & M32
            b[i] = 0x48 | ((dest >> 24) & 3)
            b[i + 1] = (dest >> 16) & 0xFF
            b[i + 2] = (dest >> 8) & 0xFF
            b[i + 3] = ((b[i + 3] & 3) | dest) & 0xFF
    return bytes(b)


def sparc_dec(buf, pos=0):
    b = bytearray(buf)
    for i in range(0, len(b) & ~3, 4):
        if (b[i] == 0x40 and (b[i + 1] & 0xC0) == 0) or (b[i] == 0x7F and (b[i + 1] & 0xC0) == 0xC0):
            src = ((b[i] << 24) | (b[i + 1] << 16) | (b[i + 2] << 8) | b[i + 3])
            src = (src << 2) & M32
            dest = ((src - (pos + i)) & M32) >> 2
            dest = ((((0 - ((dest >> 22) & 1)) & M32) << 22) & 0x3FFFFFFF) | (dest & 0x3FFFFF) | 0x40000000
            b[i:i + 4] = struct.pack(">I", dest & M32)
    return bytes(b)


def armthumb_dec(buf, pos=0):
    b = bytearray(buf)
    if len(b) < 4:
        return bytes(b)
    size = len(b) - 4
    i = 0
    while i <= size:
        if (b[i + 1] & 0xF8) == 0xF0 and (b[i + 3] & 0xF8) == 0xF8:
            src = ((b[i + 1] & 7) << 19) | (b[i] << 11) | ((b[i + 3] & 7) << 8) | b[i + 2]
            src = (src << 1) & M32
            dest = ((src - (pos + i + 4)) & M32) >> 1
            b[i + 1] = 0xF0 | ((dest >> 19) & 7)
            b[i] = (dest >> 11) & 0xFF
            b[i + 3] = 0xF8 | ((dest >> 8) & 7)
            b[i + 2] = dest & 0xFF
            i += 2
        i += 2
    return bytes(b)


def x86_dec(buf, pos=0):
    b = bytearray(buf)
    if len(b) < 5:
        return bytes(b)
    mask_to_bit = (0, 1, 2, 2, 3)
    prev_mask = 0
    prev_pos = (pos - 5) & M32            # x86_coder_init: prev_pos = -5; then `if (now_pos - prev_pos > 5) prev_pos = now_pos - 5`
    limit = len(b) - 5
    p = 0

    def msb(x):
        return x == 0 or x == 0xFF
    while p <= limit:
        if b[p] != 0xE8 and b[p] != 0xE9:
            p += 1
            continue
        offset = (pos + p - prev_pos) & M32
        prev_pos = (pos + p) & M32
        if offset > 5:
            prev_mask = 0
        else:
            for _ in range(offset):
                prev_mask = ((prev_mask & 0x77) << 1) & M32
        x = b[p + 4]
        if msb(x) and (prev_mask >> 1) <= 4 and (prev_mask >> 1) != 3:
            src = (x << 24) | (b[p + 3] << 16) | (b[p + 2] << 8) | b[p + 1]
            while True:
                dest = (src - (pos + p + 5)) & M32
                if prev_mask == 0:
                    break
                i = mask_to_bit[prev_mask >> 1]
                x = (dest >> (24 - i * 8)) & 0xFF
                if not msb(x):
                    break
                src = dest ^ (((1 << (32 - i * 8)) - 1) & M32)
            b[p + 4] = (~(((dest >> 24) & 1) - 1)) & 0xFF
            b[p + 3] = (dest >> 16) & 0xFF
            b[p + 2] = (dest >> 8) & 0xFF
            b[p + 1] = dest & 0xFF
            p += 5
            prev_mask = 0
        else:
            p += 1
            prev_mask |= 1
            if msb(x):
                prev_mask |= 0x10
    return bytes(b)


DEC = {X86: x86_dec, POWERPC: powerpc_dec, ARM: arm_dec, ARMTHUMB: armthumb_dec, SPARC: sparc_dec}


def chain_decode(filters, stored):
    """filters: list of (id, props) in Block Header order without the last (LZMA2) one; `stored` = LZMA2 plaintext."""
    data = stored
    for fid, props in reversed(filters):
        if fid == DELTA:
            data = delta_dec(data, props[0] + 1)
        elif fid not in DEC:
            continue          # unsupported filter ID: the Block is rejected anyway
        else:
            off = struct.unpack("<I", props)[0] if props else 0
            data = DEC[fid](data, off)
    return data


# ------------------------------------------------------------------------------------------------
# stored data with many convertible instructions
# ------------------------------------------------------------------------------------------------

def dense(rng, fid, n):
    out = bytearray()
    while len(out) < n:
        r = rng.random()
        if r < 0.3:
            out += bytes(rng.getrandbits(8) for _ in range(rng.choice((1, 2, 3, 4, 7))))
        elif fid == X86:
            out += bytes([rng.choice((0xE8, 0xE9))]) + bytes(rng.getrandbits(8) for _ in range(3)) + bytes([rng.choice((0, 0xFF, 0, 0xFF, 0x12))])
        elif fid == ARM:
            out += bytes(rng.getrandbits(8) for _ in range(3)) + b"\xEB"
        elif fid == POWERPC:
            out += bytes([0x48 | rng.getrandbits(2), rng.getrandbits(8), rng.getrandbits(8), (rng.getrandbits(6) << 2) | 1])
        elif fid == SPARC:
            out += (bytes([0x40, rng.getrandbits(6)]) if rng.random() < 0.5 else bytes([0x7F, 0xC0 | rng.getrandbits(6)])) + bytes(rng.getrandbits(8) for _ in range(2))
        elif fid == ARMTHUMB:
            out += bytes([rng.getrandbits(8), 0xF0 | rng.getrandbits(3), rng.getrandbits(8), 0xF8 | rng.getrandbits(3)])
        else:
            out += bytes(rng.getrandbits(8) for _ in range(4))
    return bytes(out[:n])


# ------------------------------------------------------------------------------------------------
# LZMA2 payloads with a chosen plaintext
# ------------------------------------------------------------------------------------------------

def lzma2_uncompressed(rng, data):
    """LZMA2 stream holding `data` in uncompressed chunks of random sizes"""
    out = bytearray()
    first = True
    i = 0
    while i < len(data):
        n = min(len(data) - i, rng.choice((1, 5, 100, 1000, 65536)))
        out.append(1 if first else rng.choice((1, 2, 2)))
        out += (n - 1).to_bytes(2, "big") + data[i:i + n]
        first = False
        i += n
    out.append(0)
    return bytes(out)


def payload(rng, fid_hint, n):
    """-> (lzma2 stream, its plaintext = the stored bytes, dict size byte)"""
    if rng.random() < 0.3:
        # a synthesised LZMA2 stream of lzmagen (random symbols; the plaintext is whatever it decodes to)
        while True:
            c = lzmagen.gen_lzma2(rng, False)
            if c["expect"] and c["expect"][0] == "end" and not c["preset"] and len(c["stream"]) == c.get("valid_len", len(c["stream"])):
                return c["stream"], c["plain"], c02lib.dict_code_for(max(c["dict"], 4096))
    stored = dense(rng, fid_hint, n)
    return lzma2_uncompressed(rng, stored), stored, rng.choice((0, 0, 2, 12))


# ------------------------------------------------------------------------------------------------
# files
# ------------------------------------------------------------------------------------------------

def pick_chain(rng):
    """non-last filters: list of (id, props)"""
    r = rng.random()
    if r < 0.15:
        return []
    chain = []
    for _ in range(rng.choice((1, 1, 1, 2, 3))):
        if rng.random() < 0.3:
            chain.append((DELTA, bytes([rng.choice((0, 1, 3, 15, 255))])))
        else:
            fid = rng.choice(BCJ_PY)
            # mostly WITHOUT a start offset (empty Filter Properties); sometimes an aligned one
            props = b""
            if rng.random() < 0.2:
                props = struct.pack("<I", rng.choice((0, 16, 4096, 0xFFFFFFF0)) & ~(c02lib.BCJ[fid] - 1) & M32)
            chain.append((fid, props))
    return chain


def build_block(rng, check, chain, size, tweak=None, cs_present=None, us_present=None):
    """-> dict(bytes, plain, unpadded, uncompressed, header_size, valid, note). `tweak` = (field, delta) or None."""
    hint = next((f for f, _ in chain if f in DEC), rng.choice(BCJ_PY))
    comp, stored, dcode = payload(rng, hint, size) if size > 0 else (b"\x00", b"", 0)
    plain = chain_decode(chain, stored)
    filters = list(chain) + [(LZMA2, bytes([dcode]))]
    cs_present = rng.random() < 0.5 if cs_present is None else cs_present
    us_present = rng.random() < 0.5 if us_present is None else us_present
    cs, us = (len(comp) if cs_present else None), (len(plain) if us_present else None)
    valid, note = True, ""
    if tweak is not None:
        field, d = tweak
        if field == "cs":
            cs = max(1, len(comp) + d)
            valid = cs == len(comp)
        else:
            us = max(0, len(plain) + d)
            valid = us == len(plain)
        note = "%s%+d" % (field, d)
    hdr = c02lib.block_header(cs, us, filters, extra_pad=rng.choice((0, 0, 0, 1, 3)))
    pad = b"\0" * ((-len(comp)) % 4)
    if check in (0, 1, 4, 10):
        chk = c02lib.check_value(check, plain)
    else:
        chk = bytes(rng.getrandbits(8) for _ in range(c02lib.CHECK_SIZES[check]))
    return dict(bytes=hdr + comp + pad + chk, plain=plain, unpadded=len(hdr) + len(comp) + len(chk), uncompressed=len(plain),
                header_size=len(hdr), valid=valid, note=note, lone=hdr + comp + pad + chk)


def build_stream(rng, check, blocks):
    body = b"".join(b["bytes"] for b in blocks)
    # the Index describes the REAL layout (the decoder records the real sizes)
    index = c02lib.index_field([(b["unpadded"], b["uncompressed"]) for b in blocks])
    return c02lib.stream_header(check) + body + index + c02lib.stream_footer(check, len(index))


BIG_DICT_BYTES = (40, 40, 39, 38, 37, 30, 24)


def gen_bigdict_file(rng):
    """A .xz file whose LZMA2 dictionary-size byte is at / near the format maximum (40 = 4 GiB - 1) and whose data uses
    distances beyond 4 KiB / 64 KiB (valid), or whose byte is 41..255 (must be rejected with LZMA_OPTIONS_ERROR)."""
    check = rng.choice((0, 1, 4))
    if rng.random() < 0.25:
        code = rng.choice((41, 42, 63, 64, 0x40 | 40, 0x80, 0xC0 | 12, 255))
        comp, plain = lzmagen.gen_far_lzma2(rng, 1 << 20, 4096)
        hdr = c02lib.block_header(None, None, [(LZMA2, bytes([code]))])
        b = dict(bytes=hdr + comp + b"\0" * ((-len(comp)) % 4) + c02lib.check_value(check, plain), unpadded=len(hdr) + len(comp) + c02lib.CHECK_SIZES[check],
                 uncompressed=len(plain))
        data = build_stream(rng, check, [b])
        return dict(file=data, plain=b"", expect=8, tag="xz:dict-byte-invalid", lone=[], nstreams=1)
    code = rng.choice(BIG_DICT_BYTES)
    reach = rng.choice((4096, 4097, 8192, 65536, 65537, 70000))
    comp, plain = lzmagen.gen_far_lzma2(rng, c02lib.dict_of_code(code), reach)
    cs = len(comp) if rng.random() < 0.5 else None
    us = len(plain) if rng.random() < 0.5 else None
    hdr = c02lib.block_header(cs, us, [(LZMA2, bytes([code]))])
    blk = hdr + comp + b"\0" * ((-len(comp)) % 4) + c02lib.check_value(check, plain)
    b = dict(bytes=blk, unpadded=len(hdr) + len(comp) + c02lib.CHECK_SIZES[check], uncompressed=len(plain))
    data = build_stream(rng, check, [b])
    return dict(file=data, plain=plain, expect=1, tag="xz:dict-byte-%d" % code, lone=[(check, blk, plain, True, False)], nstreams=1)


def gen_lzma_alone(rng):
    """A .lzma file with a dictionary size at the 32-bit limit whose data uses far distances -> (file, plain, tag)"""
    ds = rng.choice((0xFFFFFFFF, 0xFFFFFFFF, 0xFFFFFFF1, 0xFFFFFFF0, 0xFFFFFFFE, 0x80000000, 0xC0000000, 1 << 30, 65536, 100000))
    reach = rng.choice((4096, 8192, 65537))
    if ds < (1 << 20):
        reach = 4096
    known = rng.random() < 0.5
    (lc, lp, pb), stream, plain = lzmagen.gen_far_lzma1(rng, ds, reach, eopm=(not known) or rng.random() < 0.3)
    hdr = bytes([(pb * 5 + lp) * 9 + lc]) + struct.pack("<I", ds) + struct.pack("<Q", len(plain) if known else (1 << 64) - 1)
    return hdr + stream, plain, "lzma:dict=%#x" % ds


def gen_file(rng):
    """-> dict(file, plain, expect_ret (with LZMA_CONCATENATED) or None, tag, blocks=[lone block cases])"""
    kind = rng.choice(("valid",) * 6 + ("cs-off", "cs-off", "us-off", "bad-filter", "reserved-check"))
    nstreams = rng.choice((1, 1, 2, 3))
    out = bytearray()
    plain = bytearray()
    expect = 1
    lone = []
    chained = False
    bad_at = (rng.randrange(nstreams), None)
    same_chain = pick_chain(rng) if rng.random() < 0.7 else None     # the same filter IDs in every Block: coder reuse
    for si in range(nstreams):
        check = rng.choice((0, 1, 4, 10))
        if kind == "reserved-check" and si == bad_at[0]:
            check = rng.choice((2, 3, 5, 6, 7, 8, 9, 11, 12, 13, 14, 15))
        nblocks = rng.choice((0, 1, 2, 2, 3, 4))
        if kind in ("cs-off", "us-off", "bad-filter") and si == bad_at[0]:
            nblocks = max(nblocks, 1)
        bad_block = rng.randrange(nblocks) if nblocks else -1
        blocks = []
        for bi in range(nblocks):
            chain = same_chain if same_chain is not None else pick_chain(rng)
            size = rng.choice((0, 1, 3, 4, 5, 17, 64, 200, 1000, 3000))
            tweak = None
            is_bad = si == bad_at[0] and bi == bad_block and expect == 1
            if is_bad and kind == "cs-off":
                tweak = ("cs", rng.choice((-8, -3, -2, -1, 1, 1, 2, 3, 4, 7, 8)))
            elif is_bad and kind == "us-off":
                tweak = ("us", rng.choice((-8, -1, 1, 2, 8)))
            if is_bad and kind == "bad-filter":
                chain = [(rng.choice((0x0C, 0x20, 0x22, 0x4000000000000001, 1 << 62)), b"")] + list(chain[:2])
            chained = chained or bool(chain)
            b = build_block(rng, check, chain, size, tweak)
            if is_bad and kind == "bad-filter":
                b["valid"] = False
            blocks.append(b)
            if len(chain) <= 3 and kind != "bad-filter":
                lone.append((check, b["lone"], b["plain"], b["valid"], bool(chain)))
            if expect == 1:
                if b["valid"]:
                    plain += b["plain"]
                else:
                    expect = 8 if (kind == "bad-filter" and chain[0][0] < (1 << 62)) else 9
                    if not (kind == "cs-off" and tweak[1] < 0) and kind != "bad-filter":
                        # data decoded before the size mismatch is noticed may or may not be delivered: only ret is predicted
                        pass
        out += build_stream(rng, check, blocks)
        if si + 1 < nstreams:
            out += b"\0" * (4 * rng.choice((0, 0, 1, 3)))
    return dict(file=bytes(out), plain=bytes(plain), expect=expect, tag="xz:" + kind + ("+chain" if chained else ""), lone=lone, nstreams=nstreams)
