"""Independent Python reference for the .xz container (written from doc/xz-file-format.txt), used by tools/props/c02.py
 * to build valid / boundary / malformed inputs for the decoders,
 * as the search-stage oracle that judges the bytes produced by the C encoders without any help from Lean:
   `parse_xz`, `parse_block` re-measure every size by walking the bytes and compare all stored fields.
Nothing here imports vlib or talks to Lean."""
import hashlib, struct, zlib

VLI_MAX = (1 << 63) - 1
U64 = (1 << 64) - 1
UNPADDED_MIN, UNPADDED_MAX = 5, VLI_MAX & ~3
BACKWARD_MAX = 1 << 34
HEADER_MAGIC = b"\xfd7zXZ\x00"
FOOTER_MAGIC = b"YZ"
CHECK_SIZES = [0, 4, 4, 4, 8, 8, 8, 16, 16, 16, 32, 32, 32, 64, 64, 64]
RESERVED_START = 1 << 62
LZMA1, LZMA1EXT, LZMA2, DELTA = 0x4000000000000001, 0x4000000000000002, 0x21, 0x03
BCJ = {4: 1, 5: 4, 6: 16, 7: 4, 8: 2, 9: 4, 10: 4, 11: 2}     # id -> required alignment of the start offset
P64 = 0xC96C5795D7870F42

_T64 = []
for _i in range(256):
    _c = _i
    for _ in range(8):
        _c = (_c >> 1) ^ P64 if _c & 1 else _c >> 1
    _T64.append(_c)


def crc64(data, crc=0):
    c = crc ^ U64
    for b in data:
        c = _T64[(c ^ b) & 0xFF] ^ (c >> 8)
    return c ^ U64


def crc32(data):
    return zlib.crc32(data) & 0xFFFFFFFF


def le32(n):
    return struct.pack("<I", n & 0xFFFFFFFF)


def vli_enc(v):
    out = bytearray()
    while v >= 0x80:
        out.append((v & 0x7F) | 0x80)
        v >>= 7
    out.append(v)
    return bytes(out)


def vli_dec(b, pos=0):
    """-> (value, new_pos) or None (truncated, > 9 bytes, or non-minimal)."""
    v = 0
    for i in range(9):
        if pos + i >= len(b):
            return None
        byte = b[pos + i]
        v |= (byte & 0x7F) << (7 * i)
        if not byte & 0x80:
            if byte == 0 and i > 0:
                return None
            return v, pos + i + 1
    return None


def vli_size(v):
    return len(vli_enc(v)) if v <= VLI_MAX else 0


def stream_header(check, flag0=0):
    fl = bytes([flag0, check])
    return HEADER_MAGIC + fl + le32(crc32(fl))


def stream_footer(check, backward, flag0=0):
    body = le32(backward // 4 - 1) + bytes([flag0, check])
    return le32(crc32(body)) + body + FOOTER_MAGIC


def dict_of_code(c):
    return 0xFFFFFFFF if c == 40 else (2 | (c & 1)) << (c // 2 + 11)


def dict_code_for(d):
    """Smallest dictionary-size byte whose size covers max(d, 4096) (what a correct encoder must store)."""
    d = max(d, 4096)
    for c in range(41):
        if dict_of_code(c) >= d:
            return c
    return 40


def filter_flags(fid, props):
    return vli_enc(fid) + vli_enc(len(props)) + bytes(props)


def block_header(cs, us, filters, extra_pad=0, flags_or=0, pad_byte=0, nfilters_field=None, size_byte=None, fix_crc=True):
    """filters: list of (id, props bytes). Returns the header bytes (possibly deliberately malformed)."""
    body = bytearray([0, 0])
    flags = (len(filters) - 1 if nfilters_field is None else nfilters_field) & 3
    if cs is not None:
        flags |= 0x40
        body += vli_enc(cs)
    if us is not None:
        flags |= 0x80
        body += vli_enc(us)
    for fid, props in filters:
        body += filter_flags(fid, props)
    while (len(body) + 4) % 4:
        body.append(pad_byte)
    body += bytes([pad_byte]) * (4 * extra_pad)
    body[0] = ((len(body) + 4) // 4 - 1) & 0xFF if size_byte is None else size_byte
    body[1] = flags | flags_or
    return bytes(body) + (le32(crc32(bytes(body))) if fix_crc else b"\0\0\0\0")


def index_field(records, count=None, pad=None, indicator=0):
    body = bytearray([indicator]) + vli_enc(len(records) if count is None else count)
    for u, c in records:
        body += vli_enc(u) + vli_enc(c)
    n = (-len(body)) % 4 if pad is None else pad
    body += b"\0" * n
    return bytes(body) + le32(crc32(bytes(body)))


# ------------------------------------------------------------------------------------------------
# structural parser / validator (the independent oracle)
# ------------------------------------------------------------------------------------------------

class Bad(Exception):
    pass


def props_ok(fid, props):
    """Filter Properties acceptable to a conforming decoder (format spec section 5.3)."""
    if fid == LZMA2:
        return len(props) == 1 and props[0] <= 40
    if fid == DELTA:
        return len(props) == 1
    if fid in BCJ:
        if len(props) == 0:
            return True
        return len(props) == 4 and struct.unpack("<I", bytes(props))[0] % BCJ[fid] == 0
    return False


def parse_block_header(b, pos, check):
    """-> dict(hs, cs, us, filters=[(id, props)])"""
    if pos >= len(b):
        raise Bad("block:truncated")
    hs = (b[pos] + 1) * 4
    if hs < 8 or pos + hs > len(b):
        raise Bad("block-header:truncated")
    h = b[pos:pos + hs]
    if crc32(h[:-4]) != struct.unpack("<I", h[-4:])[0]:
        raise Bad("block-header:crc32")
    fl = h[1]
    if fl & 0x3C:
        raise Bad("block-header:reserved-flags")
    p = 2
    cs = us = None
    lim = hs - 4
    if fl & 0x40:
        r = vli_dec(h[:lim], p)
        if r is None:
            raise Bad("block-header:compressed-size-vli")
        cs, p = r
        if cs == 0 or cs + hs + CHECK_SIZES[check] > UNPADDED_MAX:
            raise Bad("block-header:compressed-size-range")
    if fl & 0x80:
        r = vli_dec(h[:lim], p)
        if r is None:
            raise Bad("block-header:uncompressed-size-vli")
        us, p = r
    filters = []
    for _ in range((fl & 3) + 1):
        r = vli_dec(h[:lim], p)
        if r is None:
            raise Bad("block-header:filter-id-vli")
        fid, p = r
        if fid >= RESERVED_START:
            raise Bad("block-header:reserved-filter-id")
        r = vli_dec(h[:lim], p)
        if r is None:
            raise Bad("block-header:props-size-vli")
        ps, p = r
        if lim - p < ps:
            raise Bad("block-header:props-overrun")
        props = h[p:p + ps]
        p += ps
        if not props_ok(fid, props):
            raise Bad("block-header:filter-props(id=%d)" % fid)
        filters.append((fid, bytes(props)))
    if any(h[p:lim]):
        raise Bad("block-header:padding-nonzero")
    ids = [f for f, _ in filters]
    if ids[-1] != LZMA2 or any(i == LZMA2 for i in ids[:-1]):
        raise Bad("filter-chain")
    return dict(hs=hs, cs=cs, us=us, filters=filters)


def walk_chunks(b, pos, plain):
    """LZMA2 chunk walk from pos. plain = (data, dpos) when uncompressed chunks must equal the input.
    -> (end_pos, uncompressed_total, nchunks)"""
    need_props = need_reset = True
    usum = n = 0
    while True:
        if pos >= len(b):
            raise Bad("chunks:truncated-control")
        c = b[pos]
        if c == 0:
            return pos + 1, usum, n
        resets = c >= 0xE0 or c == 1
        if not resets and need_reset:
            raise Bad("chunks:first-chunk-without-dictionary-reset")
        if resets:
            need_props = True
        need_reset = False
        if c >= 0x80:
            if pos + 5 > len(b):
                raise Bad("chunks:truncated-header")
            us = ((c & 0x1F) << 16) + (b[pos + 1] << 8) + b[pos + 2] + 1
            cs = (b[pos + 3] << 8) + b[pos + 4] + 1
            hdr = 5
            if c >= 0xC0:
                if pos + 6 > len(b):
                    raise Bad("chunks:truncated-props")
                pr = b[pos + 5]
                if pr > 224 or (pr % 45) // 9 + (pr % 9) > 4:
                    raise Bad("chunks:bad-lclppb")
                need_props = False
                hdr = 6
            elif need_props:
                raise Bad("chunks:lzma-chunk-without-properties")
            if pos + hdr + cs > len(b):
                raise Bad("chunks:compressed-size-overruns")
            pos += hdr + cs
            usum += us
        elif c > 2:
            raise Bad("chunks:invalid-control(%d)" % c)
        else:
            if pos + 3 > len(b):
                raise Bad("chunks:truncated-header")
            cs = (b[pos + 1] << 8) + b[pos + 2] + 1
            if pos + 3 + cs > len(b):
                raise Bad("chunks:uncompressed-chunk-overruns")
            if plain is not None:
                d, dpos = plain
                if d[dpos + usum:dpos + usum + cs] != b[pos + 3:pos + 3 + cs]:
                    raise Bad("chunks:uncompressed-chunk-differs-from-input")
            pos += 3 + cs
            usum += cs
        n += 1


def check_value(check, data):
    if check == 1:
        return le32(crc32(data))
    if check == 4:
        return struct.pack("<Q", crc64(data))
    if check == 10:
        return hashlib.sha256(data).digest()
    if check == 0:
        return b""
    return None


def parse_block(b, pos, check, data, dpos):
    """-> (info dict, new_pos). Measures the real sizes and compares with every stored field."""
    h = parse_block_header(b, pos, check)
    hs = h["hs"]
    plain = (data, dpos) if len(h["filters"]) == 1 else None
    end, usum, nch = walk_chunks(b, pos + hs, plain)
    clen = end - (pos + hs)
    if h["cs"] is not None and h["cs"] != clen:
        raise Bad("compressed-size-field:%d!=%d" % (h["cs"], clen))
    if h["us"] is not None and h["us"] != usum:
        raise Bad("uncompressed-size-field:%d!=%d" % (h["us"], usum))
    if dpos + usum > len(data):
        raise Bad("block-longer-than-input")
    pad = (-clen) % 4
    cpos = end + pad
    csz = CHECK_SIZES[check]
    if cpos + csz > len(b):
        raise Bad("block-padding-or-check:truncated")
    if any(b[end:cpos]):
        raise Bad("block-padding:nonzero")
    want = check_value(check, data[dpos:dpos + usum])
    if want is not None and b[cpos:cpos + csz] != want:
        raise Bad("check-value")
    info = dict(hs=hs, cs=clen, us=usum, chunks=nch, ids=[f for f, _ in h["filters"]], filters=h["filters"],
                has_cs=h["cs"] is not None, has_us=h["us"] is not None)
    return info, cpos + csz


def show_block(i):
    return "%d/%d/%d/%d/%s" % (i["hs"], i["cs"], i["us"], i["chunks"], "+".join(str(x) for x in i["ids"]))


def parse_xz(out, check, data):
    """-> ('ok', summary, blocks) or ('bad', reason, None). Same summary format as Model/XzStruct.lean `validateXz`."""
    try:
        if len(out) < 24:
            raise Bad("stream:too-short")
        if out[:6] != HEADER_MAGIC:
            raise Bad("stream-header:magic")
        if crc32(out[6:8]) != struct.unpack("<I", out[8:12])[0]:
            raise Bad("stream-header:crc32")
        if out[6] != 0 or out[7] & 0xF0:
            raise Bad("stream-header:reserved")
        if out[7] != check:
            raise Bad("stream-header:check=%d" % out[7])
        pos, dpos, blocks = 12, 0, []
        while True:
            if pos >= len(out):
                raise Bad("blocks:truncated-before-index")
            if out[pos] == 0:
                break
            try:
                info, pos = parse_block(out, pos, check, data, dpos)
            except Bad as e:
                raise Bad("block%d:%s" % (len(blocks), e))
            dpos += info["us"]
            blocks.append(info)
        if dpos != len(data):
            raise Bad("uncompressed-total:%d!=%d" % (dpos, len(data)))
        ipos = pos
        r = vli_dec(out, pos + 1)
        if r is None:
            raise Bad("index:count-vli")
        count, pos = r
        if count != len(blocks):
            raise Bad("index:count=%d blocks=%d" % (count, len(blocks)))
        for i, bi in enumerate(blocks):
            r = vli_dec(out, pos)
            if r is None:
                raise Bad("index:unpadded-vli")
            u, pos = r
            r = vli_dec(out, pos)
            if r is None:
                raise Bad("index:uncompressed-vli")
            c, pos = r
            if u != bi["hs"] + bi["cs"] + CHECK_SIZES[check] or c != bi["us"]:
                raise Bad("index-records-differ-from-blocks(record %d: %d,%d)" % (i, u, c))
        pad = (-(pos - ipos)) % 4
        if any(out[pos:pos + pad]):
            raise Bad("index:padding-nonzero")
        pos += pad
        if pos + 4 > len(out) or crc32(out[ipos:pos]) != struct.unpack("<I", out[pos:pos + 4])[0]:
            raise Bad("index:crc32")
        pos += 4
        isz = pos - ipos
        ft = out[pos:]
        if len(ft) != 12:
            raise Bad("footer:length=%d" % len(ft))
        if ft[10:12] != FOOTER_MAGIC:
            raise Bad("stream-footer:magic")
        if crc32(ft[4:10]) != struct.unpack("<I", ft[0:4])[0]:
            raise Bad("stream-footer:crc32")
        if ft[8:10] != out[6:8]:
            raise Bad("footer-flags-differ-from-header")
        bs = (struct.unpack("<I", ft[4:8])[0] + 1) * 4
        if bs != isz:
            raise Bad("backward-size:%d!=%d" % (bs, isz))
        return "ok", "ok check=%d blocks=%d index=%d %s" % (check, len(blocks), isz, ";".join(show_block(b) for b in blocks)), blocks
    except Bad as e:
        return "bad", str(e), None
    except (IndexError, struct.error) as e:
        return "bad", "parser-exception:" + repr(e), None


def stream_chunk_props(out, check):
    """For a Stream that parse_xz accepted: every LZMA chunk as (offset of its first byte in the uncompressed data,
    properties byte or None when the chunk reuses the previous properties), in stream order."""
    res, pos, doff = [], 12, 0
    while pos < len(out) and out[pos] != 0:
        hs = (out[pos] + 1) * 4
        p = pos + hs
        while out[p] != 0:
            c = out[p]
            if c >= 0x80:
                us = ((c & 0x1F) << 16) + (out[p + 1] << 8) + out[p + 2] + 1
                cs = (out[p + 3] << 8) + out[p + 4] + 1
                if c >= 0xC0:
                    res.append((doff, out[p + 5]))
                    p += 6 + cs
                else:
                    res.append((doff, None))
                    p += 5 + cs
                doff += us
            else:
                cs = (out[p + 1] << 8) + out[p + 2] + 1
                p += 3 + cs
                doff += cs
        clen = p + 1 - (pos + hs)
        pos = p + 1 + (-clen) % 4 + CHECK_SIZES[check]
    return res


def show_chunk_props(props):
    """Same rendering as Model/XzStruct.lean `streamChunkProps`."""
    return ",".join("%d:%s" % (o, "-" if b is None else str(b)) for o, b in props) if props else "-"


def parse_lone_block(out, check, data):
    try:
        info, pos = parse_block(out, 0, check, data, 0)
        if pos != len(out):
            raise Bad("block:trailing=%d" % (len(out) - pos))
        if info["us"] != len(data):
            raise Bad("uncompressed-total")
        return "ok", "ok " + show_block(info), info
    except Bad as e:
        return "bad", str(e), None
    except (IndexError, struct.error) as e:
        return "bad", "parser-exception:" + repr(e), None


def parse_alone(out):
    if len(out) < 18:
        return "bad", "alone:too-short"
    pr = out[0]
    if pr > 224 or (pr % 45) // 9 + (pr % 9) > 4:
        return "bad", "alone:bad-properties-byte"
    if out[13] != 0:
        return "bad", "alone:first-range-coder-byte-not-zero"
    return "ok", "ok %d/%d/%d dict=%d usize=%d" % (pr % 9, (pr % 45) // 9, pr // 45, struct.unpack("<I", out[1:5])[0], struct.unpack("<Q", out[5:13])[0])


# ------------------------------------------------------------------------------------------------
# bound functions, re-derived from the worst case (not a transcription of the C code)
# ------------------------------------------------------------------------------------------------

def worst_case_block_size(n, check_size=64):
    """Size of a Block holding n bytes as LZMA2 uncompressed chunks: the fallback every single-call encoder uses.
    Header: size byte + flags + two VLIs + LZMA2 filter flags (3 bytes) + padding + CRC32."""
    chunks = (n + 65535) // 65536
    payload = n + 3 * chunks + 1
    hdr = 2 + vli_size(payload) + vli_size(n) + 3
    hdr = (hdr + 3) // 4 * 4 + 4
    return hdr + (payload + 3) // 4 * 4 + check_size
