#!/bin/sh
# Runs every claimed check once (tier $1, seed $2) and prints one summary line per property.
cd "$(dirname "$0")/.."
tier=${1:-quick}; seed=${2:-1}
for p in $(cat tools/ready.txt); do
  t0=$(date +%s)
  out=$(VERIF_SEED=$seed ./check $p --tier $tier 2>&1); rc=$?
  t1=$(date +%s)
  nv=$(printf '%s\n' "$out" | grep -c '^VIOLATION')
  nk=$(printf '%s\n' "$out" | grep -c '^KNOWN-FINDING')
  last=$(printf '%s\n' "$out" | grep 'done:' | tail -1 | sed 's/.*done: //')
  echo "$p rc=$rc violations=$nv known=$nk $((t1-t0))s  $last"
done
