"""Input generators for the C04 observation engine: .xz/.lzma/.lz structure builders (CRC-correct, arbitrary field
values), structure-aware mutations, adversarial sizes, noise, filter strings. Pure Python; all randomness from the rng
handed in."""
import os, struct, zlib

MAGIC_H = b"\xfd7zXZ\x00"
MAGIC_F = b"YZ"
VLI_MAX = (1 << 63) - 1
U64 = (1 << 64) - 1


def crc32(b):
    return struct.pack("<I", zlib.crc32(b) & 0xFFFFFFFF)


def vli(v, nbytes=None):
    """VLI encoding; with nbytes an over-long (or 10-byte) encoding is produced on purpose."""
    out = bytearray()
    while v >= 0x80:
        out.append((v & 0x7F) | 0x80)
        v >>= 7
    out.append(v)
    if nbytes is not None:
        while len(out) < nbytes:
            out[-1] |= 0x80
            out.append(0)
    return bytes(out)


def stream_header(check=1, flag0=0, good_crc=True):
    fl = bytes([flag0, check])
    c = crc32(fl)
    if not good_crc:
        c = bytes([c[0] ^ 1]) + c[1:]
    return MAGIC_H + fl + c


def stream_footer(backward_size_field, check=1, flag0=0):
    """backward_size_field is the stored 32-bit value (real size = (field + 1) * 4)."""
    body = struct.pack("<I", backward_size_field & 0xFFFFFFFF) + bytes([flag0, check])
    return crc32(body) + body + MAGIC_F


def block_header(filters, comp=None, uncomp=None, flags_extra=0, size_bytes=None, pad_garbage=False, good_crc=True,
                 nfilters_field=None):
    """filters: list of (id, props bytes, declared props size or None). Returns a CRC-correct Block Header."""
    nf = len(filters) if nfilters_field is None else nfilters_field
    flags = ((nf - 1) & 3) | flags_extra
    body = bytearray()
    if comp is not None:
        flags |= 0x40
        body += vli(comp) if isinstance(comp, int) else comp
    if uncomp is not None:
        flags |= 0x80
        body += vli(uncomp) if isinstance(uncomp, int) else uncomp
    for fid, props, psz in filters:
        body += vli(fid) if isinstance(fid, int) else fid
        body += vli(len(props) if psz is None else psz)
        body += props
    total = 2 + len(body) + 4
    size = (total + 3) // 4 * 4 if size_bytes is None else size_bytes
    size = max(8, min(1024, size))
    pad = size - total
    if pad < 0:
        body = body[:len(body) + pad]
        pad = 0
    padb = bytes([0xA5] * pad) if pad_garbage else bytes(pad)
    hdr = bytes([size // 4 - 1, flags & 0xFF]) + bytes(body) + padb
    c = crc32(hdr)
    if not good_crc:
        c = bytes([c[0] ^ 1]) + c[1:]
    return hdr + c


def index_field(records, count=None, pad=None, good_crc=True, indicator=0):
    body = bytearray([indicator])
    body += vli(len(records) if count is None else count) if not isinstance(count, bytes) else count
    for us, un in records:
        body += vli(us) if isinstance(us, int) else us
        body += vli(un) if isinstance(un, int) else un
    p = (-len(body)) % 4 if pad is None else pad
    body += bytes(p)
    c = crc32(bytes(body))
    if not good_crc:
        c = bytes([c[0] ^ 1]) + c[1:]
    return bytes(body) + c


LZMA2_EMPTY = b"\x00"                              # end marker only


def lzma2_uncompressed(data, reset=True):
    out = bytearray()
    first = True
    for i in range(0, len(data), 65536):
        piece = data[i:i + 65536]
        out += bytes([1 if (first and reset) else 2]) + struct.pack(">H", len(piece) - 1) + piece
        first = False
    return bytes(out) + b"\x00"


def check_field(check, data):
    if check == 1:
        return crc32(data)
    if check == 4:
        # CRC64 is not needed exactly: a wrong check is an interesting input too, a right one comes from the encoders
        return bytes(8)
    if check == 10:
        import hashlib
        return hashlib.sha256(data).digest()
    sizes = [0, 4, 4, 4, 8, 8, 8, 16, 16, 16, 32, 32, 32, 64, 64, 64]
    return bytes(sizes[check & 15])


def xz_stream(blocks, check=1, index_override=None, footer_backward=None, header=None, footer_check=None):
    """blocks: list of (header bytes, compressed bytes, uncompressed bytes). Builds Stream = header, blocks, index, footer."""
    out = bytearray(header if header is not None else stream_header(check))
    recs = []
    for hdr, comp, unc in blocks:
        out += hdr + comp
        out += bytes((-len(comp)) % 4)
        cf = check_field(check, unc)
        out += cf
        recs.append((len(hdr) + len(comp) + len(cf), len(unc)))
    idx = index_field(recs) if index_override is None else index_override
    out += idx
    bs = len(idx) // 4 - 1 if footer_backward is None else footer_backward
    out += stream_footer(bs, check if footer_check is None else footer_check)
    return bytes(out)


def lzma_alone_header(lc=3, lp=0, pb=2, dict_size=1 << 16, uncomp=U64, props=None):
    p = (pb * 5 + lp) * 9 + lc if props is None else props
    return bytes([p & 0xFF]) + struct.pack("<I", dict_size & 0xFFFFFFFF) + struct.pack("<Q", uncomp & U64)


def lzip_member(lzma_stream, data_crc, data_size, dict_byte=12, version=1, member_size=None):
    hdr = b"LZIP" + bytes([version, dict_byte])
    total = len(hdr) + len(lzma_stream) + (20 if version == 1 else 12)
    tr = struct.pack("<I", data_crc & 0xFFFFFFFF) + struct.pack("<Q", data_size & U64)
    if version == 1:
        tr += struct.pack("<Q", (total if member_size is None else member_size) & U64)
    return hdr + lzma_stream + tr


# ------------------------------------------------------------------------------------------------------------------
# parsing of valid single-stream .xz files (to cut out Block / Index pieces)
# ------------------------------------------------------------------------------------------------------------------

def read_vli(b, pos):
    v, sh = 0, 0
    for i in range(9):
        if pos + i >= len(b):
            return None, pos
        c = b[pos + i]
        v |= (c & 0x7F) << sh
        sh += 7
        if not c & 0x80:
            return v, pos + i + 1
    return None, pos


def xz_parts(data):
    """For a well-formed single-stream file: dict(blocks=[bytes of header+data+padding+check], index=bytes, check=id)."""
    try:
        if len(data) < 32 or data[:6] != MAGIC_H or data[-2:] != MAGIC_F:
            return None
        check = data[7] & 15
        bsz = (struct.unpack("<I", data[-8:-4])[0] + 1) * 4
        ipos = len(data) - 12 - bsz
        if ipos < 12 or data[ipos] != 0:
            return None
        n, p = read_vli(data, ipos + 1)
        if n is None or n > 1000:
            return None
        recs = []
        for _ in range(n):
            us, p = read_vli(data, p)
            un, p = read_vli(data, p)
            if us is None or un is None:
                return None
            recs.append((us, un))
        blocks, off = [], 12
        for us, un in recs:
            tot = (us + 3) // 4 * 4
            if off + tot > ipos:
                return None
            blocks.append(data[off:off + tot])
            off += tot
        if off != ipos:
            return None
        return {"blocks": blocks, "index": data[ipos:ipos + bsz], "check": check, "records": recs}
    except Exception:
        return None


def fix_xz_crcs(data):
    """Recompute the header CRCs of a (mutated) .xz file where the fields can still be located, so that the mutation
    reaches the code behind the CRC checks."""
    b = bytearray(data)
    if len(b) >= 12:
        b[8:12] = crc32(bytes(b[6:8]))
    if len(b) >= 24:
        b[-12:-8] = crc32(bytes(b[-8:-2]))
        bsz = (struct.unpack("<I", bytes(b[-8:-4]))[0] + 1) * 4
        ipos = len(b) - 12 - bsz
        if 12 <= ipos and bsz >= 8:
            b[len(b) - 12 - 4:len(b) - 12] = crc32(bytes(b[ipos:len(b) - 16]))
    if len(b) > 13 and b[12] != 0:
        hs = (b[12] + 1) * 4
        if 12 + hs <= len(b):
            b[12 + hs - 4:12 + hs] = crc32(bytes(b[12:12 + hs - 4]))
    return bytes(b)


def fix_block_crc(data):
    b = bytearray(data)
    if len(b) > 1 and b[0] != 0:
        hs = (b[0] + 1) * 4
        if hs <= len(b):
            b[hs - 4:hs] = crc32(bytes(b[:hs - 4]))
    return bytes(b)


def fix_index_crc(data):
    b = bytearray(data)
    if len(b) >= 8:
        b[-4:] = crc32(bytes(b[:-4]))
    return bytes(b)


# ------------------------------------------------------------------------------------------------------------------
# mutations
# ------------------------------------------------------------------------------------------------------------------

EDGE = (0, 1, 0x7F, 0x80, 0xFF, 0xFE, 0x40, 0x20)


def mutate(rng, data, pool):
    b = bytearray(data)
    k = rng.randrange(14)
    n = len(b)
    if n == 0:
        return bytes(rng.getrandbits(8) for _ in range(rng.randrange(1, 20)))
    if k == 0:
        i = rng.randrange(n)
        b[i] ^= 1 << rng.randrange(8)
    elif k == 1:
        for _ in range(rng.randrange(2, 9)):
            i = rng.randrange(n)
            b[i] ^= 1 << rng.randrange(8)
    elif k == 2:
        b = b[:rng.randrange(n)]
    elif k == 3:
        b = b[:max(0, n - rng.randrange(1, 17))]
    elif k == 4:
        b[rng.randrange(n)] = rng.choice(EDGE)
    elif k == 5:
        i = rng.randrange(n + 1)
        b[i:i] = bytes(rng.choice(EDGE) if rng.random() < 0.5 else rng.getrandbits(8) for _ in range(rng.randrange(1, 9)))
    elif k == 6:
        i = rng.randrange(n)
        del b[i:i + rng.randrange(1, 9)]
    elif k == 7:
        o = rng.choice(pool)
        b = b[:rng.randrange(n + 1)] + bytearray(o[rng.randrange(len(o) + 1):])
    elif k == 8:
        i = rng.randrange(min(n, 32))
        b[i] = rng.choice(EDGE) if rng.random() < 0.5 else rng.getrandbits(8)
    elif k == 9:
        i = n - 1 - rng.randrange(min(n, 32))
        b[i] = rng.choice(EDGE) if rng.random() < 0.5 else rng.getrandbits(8)
    elif k == 10:
        w = rng.choice((1, 2, 4, 8, 9))
        i = rng.randrange(min(n, 40))
        b[i:i + w] = bytes([0xFF] * w) if rng.random() < 0.6 else bytes([0xFF] * (w - 1) + [0x7F])
    elif k == 11:
        o = rng.choice(pool)
        b = b + bytearray(bytes(rng.choice((0, 4, 3, 8))) + o)
    elif k == 12:
        i = rng.randrange(n)
        j = min(n, i + rng.randrange(1, 64))
        b[i:i] = b[i:j]
    else:
        i = rng.randrange(n)
        j = min(n, i + rng.randrange(1, 32))
        for t in range(i, j):
            b[t] = rng.getrandbits(8)
    return bytes(b)


# ------------------------------------------------------------------------------------------------------------------
# uncompressed sample data
# ------------------------------------------------------------------------------------------------------------------

def samples(rng, quick):
    out = [b"", b"a", b"hello hello hello hello hello\n" * 3]
    out.append(bytes(rng.getrandbits(8) for _ in range(100)))
    out.append((b"The quick brown fox jumps over the lazy dog. " * 120)[:5000])
    out.append(bytes(10000))
    code = bytearray()
    for i in range(600):
        code += b"\xE8" + struct.pack("<i", rng.randrange(-4000, 4000)) + bytes([0x90, 0x0F, 0x80 + (i & 7)])
    out.append(bytes(code))
    mix = bytearray()
    for i in range(60 if quick else 300):
        r = rng.random()
        if r < 0.4:
            mix += bytes(rng.getrandbits(8) for _ in range(rng.randrange(1, 60)))
        elif r < 0.8 and mix:
            j = rng.randrange(len(mix))
            mix += mix[j:j + rng.randrange(2, 300)]
        else:
            mix += bytes([rng.getrandbits(8)]) * rng.randrange(1, 400)
    out.append(bytes(mix))
    # boundary lengths: SHA-256 padding (55/56/64 mod 64), the xz I/O buffer (8 KiB), LZMA2 chunk limits (64 KiB of
    # incompressible data = uncompressed-chunk fallback; 2 MiB uncompressed per LZMA chunk is out of reach of the budgets)
    for n in (55, 56, 64, 119, 8192, 8193):
        out.append(bytes((i * 131 + 7) & 0xFF for i in range(n)))
    rnd = lambda n: rng.getrandbits(8 * n).to_bytes(n, "little")
    out.append(rnd(65536))
    out.append(rnd(65537))
    if not quick:
        out.append(rnd(65535))
        out.append(rnd(2 * 65536 + 1))
        out.append(bytes(rng.getrandbits(8) if rng.random() < 0.1 else 0x41 for _ in range(70000)))
    return out


# ------------------------------------------------------------------------------------------------------------------
# adversarial / hand-built inputs
# ------------------------------------------------------------------------------------------------------------------

LZMA2_ID, DELTA_ID, X86_ID, ARM64_ID, RISCV_ID = 0x21, 0x03, 0x04, 0x0A, 0x0B


def adversarial(rng):
    """(format tag, bytes) pairs: CRC-valid containers with extreme field values."""
    out = []
    small = b"ABCDEFGH" * 4
    # --- .xz with huge LZMA2 dictionaries / sizes ---
    for dictbyte in (0, 1, 18, 30, 35, 38, 39, 40, 41, 63, 255):
        hdr = block_header([(LZMA2_ID, bytes([dictbyte]), None)])
        out.append(("xz", xz_stream([(hdr, lzma2_uncompressed(small), small)])))
    for comp, unc in ((0, 0), (1, 0), (VLI_MAX, VLI_MAX), (VLI_MAX - 3, 5), (len(lzma2_uncompressed(small)), len(small)),
                      (len(lzma2_uncompressed(small)) + 1, len(small)), (len(lzma2_uncompressed(small)), len(small) + 1),
                      (None, VLI_MAX), (VLI_MAX, None), (1 << 62, 1 << 62)):
        hdr = block_header([(LZMA2_ID, b"\x00", None)], comp=comp, uncomp=unc)
        out.append(("xz", xz_stream([(hdr, lzma2_uncompressed(small), small)])))
    # over-long / overflowing VLIs in the sizes
    for raw in (b"\xff" * 9, b"\xff" * 8 + b"\x7f", b"\x80\x00", b"\xff" * 10, b"\x80" * 8 + b"\x01"):
        hdr = block_header([(LZMA2_ID, b"\x00", None)], comp=raw)
        out.append(("xz", xz_stream([(hdr, lzma2_uncompressed(small), small)])))
    # filter chains: too many, unknown ids, wrong props sizes, wrong order, reserved bits, garbage padding
    chains = [
        [(DELTA_ID, b"\x00", None), (LZMA2_ID, b"\x00", None)],
        [(DELTA_ID, b"\xff", None), (X86_ID, b"", None), (ARM64_ID, b"", None), (LZMA2_ID, b"\x08", None)],
        [(X86_ID, struct.pack("<I", 0x1000), None), (LZMA2_ID, b"\x00", None)],
        [(X86_ID, struct.pack("<I", 3), None), (LZMA2_ID, b"\x00", None)],
        [(ARM64_ID, struct.pack("<I", 2), None), (LZMA2_ID, b"\x00", None)],
        [(RISCV_ID, struct.pack("<I", 1), None), (LZMA2_ID, b"\x00", None)],
        [(LZMA2_ID, b"\x00", None), (DELTA_ID, b"\x00", None)],
        [(LZMA2_ID, b"\x00", None), (LZMA2_ID, b"\x00", None)],
        [(DELTA_ID, b"\x00", None)],
        [(X86_ID, b"", None)],
        [(0x4000000000000001, b"\x5d\x00\x00\x01\x00", None)],
        [(0x22, b"", None)],
        [(VLI_MAX, b"", None)],
        [(LZMA2_ID, b"", None)],
        [(LZMA2_ID, b"\x00\x00", None)],
        [(LZMA2_ID, b"\x00", 200)],
        [(LZMA2_ID, b"\x00", VLI_MAX)],
        [(DELTA_ID, b"", None), (LZMA2_ID, b"\x00", None)],
        [(DELTA_ID, b"\x00\x00", None), (LZMA2_ID, b"\x00", None)],
        [(X86_ID, b"\x00\x00", None), (LZMA2_ID, b"\x00", None)],
    ]
    for ch in chains:
        out.append(("xz", xz_stream([(block_header(ch), lzma2_uncompressed(small), small)])))
    out.append(("xz", xz_stream([(block_header([(LZMA2_ID, b"\x00", None)], flags_extra=0x04), lzma2_uncompressed(small), small)])))
    out.append(("xz", xz_stream([(block_header([(LZMA2_ID, b"\x00", None)], pad_garbage=True, size_bytes=32), lzma2_uncompressed(small), small)])))
    out.append(("xz", xz_stream([(block_header([(LZMA2_ID, b"\x00", None)], size_bytes=1024), lzma2_uncompressed(small), small)])))
    out.append(("xz", xz_stream([(block_header([(LZMA2_ID, b"\x00", None)] * 4, nfilters_field=4), lzma2_uncompressed(small), small)])))
    out.append(("xz", xz_stream([(block_header([(LZMA2_ID, b"\x00", None)], nfilters_field=3), lzma2_uncompressed(small), small)])))
    # --- Index abuse ---
    good_hdr = block_header([(LZMA2_ID, b"\x00", None)])
    blk = (good_hdr, lzma2_uncompressed(small), small)
    for cnt in (0, 2, 1000, 1 << 20, 1 << 32, VLI_MAX, b"\xff" * 9):
        out.append(("xz", xz_stream([blk], index_override=index_field([(len(good_hdr) + 40, 32)], count=cnt))))
    for rec in ((0, 0), (4, 32), (5, VLI_MAX), (VLI_MAX, 1), (VLI_MAX - 3, VLI_MAX), (1 << 62, 1 << 62), (b"\xff" * 9, 1)):
        out.append(("xz", xz_stream([blk], index_override=index_field([rec]))))
    out.append(("xz", xz_stream([blk], index_override=index_field([(VLI_MAX // 2, VLI_MAX // 2)] * 3))))
    out.append(("xz", xz_stream([blk], index_override=index_field([(len(good_hdr) + 40, 32)], pad=7))))
    out.append(("xz", xz_stream([blk], index_override=index_field([(len(good_hdr) + 40, 32)], indicator=1))))
    for fb in (0, 1, 0xFFFFFFFF, 0x7FFFFFFF, 100):
        out.append(("xz", xz_stream([blk], footer_backward=fb)))
    out.append(("xz", xz_stream([blk], footer_check=4)))
    for chk in range(16):
        out.append(("xz", xz_stream([blk], check=chk)))
    out.append(("xz", xz_stream([blk], header=stream_header(1, flag0=1))))
    out.append(("xz", xz_stream([blk]) + bytes(4) + xz_stream([blk], check=0) + bytes(8)))
    out.append(("xz", xz_stream([blk]) + bytes(3) + xz_stream([blk])))
    out.append(("xz", xz_stream([]) + xz_stream([]) + xz_stream([blk] * 5)))
    out.append(("xz", xz_stream([]) * 40))
    # Record counts around the group size of lzma_index (INDEX_GROUP_SIZE = 512)
    for nrec in (511, 512, 513, 1024, 1025):
        out.append(("index", index_field([(5 + (i % 9), i % 5) for i in range(nrec)])))
    # many tiny records: Index memory usage vs memlimit
    out.append(("index", index_field([(5 + (i % 7), i % 3) for i in range(3000)])))
    out.append(("index", index_field([(VLI_MAX // 4096, VLI_MAX // 4096)] * 4000)))
    # --- .lzma headers ---
    eos = b"\x00" + b"\x00" * 4                       # rc init bytes only
    for ds in (0, 1, 4095, 4096, 1 << 16, (1 << 16) + 1, 3 << 28, 0xFFFFFFFF, 0x80000000):
        for un in (0, 1, U64, 1 << 62, (1 << 38) - 1, 1 << 38):
            out.append(("lzma", lzma_alone_header(dict_size=ds, uncomp=un) + eos))
    for props in (0, 224, 225, 255, 44, 100):
        out.append(("lzma", lzma_alone_header(props=props) + eos + bytes(20)))
    out.append(("lzma", lzma_alone_header(uncomp=5) + b"\x01" + bytes(30)))       # first rc byte non-zero
    out.append(("lzma", lzma_alone_header(uncomp=U64) + b"\x00" + b"\xff" * 64))
    out.append(("lzma", lzma_alone_header(uncomp=100000, dict_size=4096) + b"\x00" + b"\x00" * 64))
    # --- .lz members ---
    for db in (0, 11, 12, 29, 30, 0x1D | 0xE0, 0xFF, 0x2C):
        for ver in (0, 1, 2):
            out.append(("lz", lzip_member(eos + b"\xff" * 8, 0, 0, dict_byte=db, version=ver)))
    out.append(("lz", lzip_member(eos, 0, 0, member_size=U64)))
    out.append(("lz", lzip_member(eos, 0, U64)))
    out.append(("lz", b"LZIP\x01\x0c"))
    out.append(("lz", b"LZIP"))
    return out


def padded_files():
    """VALID .xz files with long Stream Padding (the file-info decoder looks back from EOF through an 8 KiB window, so
    whole windows of padding, windows that start inside padding, and padding at EOF / between Streams all occur).
    Returns (name, bytes, uncompressed bytes of the FIRST Stream)."""
    small = b"ABCDEFGH" * 4
    blk = (block_header([(LZMA2_ID, b"\x00", None)]), lzma2_uncompressed(small), small)
    s1 = xz_stream([blk])                 # 1 Block
    s0 = xz_stream([])                    # empty Stream
    big = bytes((i * 7) & 0xFF for i in range(9000))
    sb = xz_stream([(block_header([(LZMA2_ID, b"\x00", None)]), lzma2_uncompressed(big), big)])   # > 8 KiB Stream
    out = []
    for n in (4, 8188, 8192, 8196, 16380, 16384, 16388, 24580):
        out.append(("gen-pad-eof-%d" % n, s1 + bytes(n), small))
        out.append(("gen-pad-mid-%d" % n, s1 + bytes(n) + s1, small))
        out.append(("gen-pad-mid-eof-%d" % n, s0 + bytes(n) + s1 + bytes(n), b""))
    # windows from EOF that start inside the padding
    for n, tail in ((12000, s1), (8192 + 100, s1), (20000, s0), (8192, sb), (9000, s1 + bytes(8)), (30000, s1 + bytes(8192))):
        out.append(("gen-pad-window-%d-%d" % (n, len(tail)), s1 + bytes(n) + tail, small))
    out.append(("gen-pad-3streams", sb + bytes(8192) + s0 + bytes(16384) + s1 + bytes(8196), big))
    return out


def noise(rng, quick):
    out = []
    prefixes = (b"", MAGIC_H, MAGIC_H + b"\x00\x01\x69\x22\xde\x36", b"LZIP\x01\x0c", b"\x5d\x00\x00\x01\x00", b"\x00",
                b"\x02\x00\x21\x01\x00", b"\x00\x01")
    for i in range(60 if quick else 400):
        n = rng.choice((0, 1, 2, 3, 5, 8, 12, 13, 24, 32, 64, 200, 1000))
        body = bytes(rng.getrandbits(8) for _ in range(n)) if rng.random() < 0.7 else bytes([rng.choice(EDGE)]) * n
        out.append(rng.choice(prefixes) + body)
    return out


def rc_noise(rng, n=None):
    """A range-coder payload: the mandatory 0x00 first byte followed by noise (decodes to arbitrary symbol sequences)."""
    n = rng.choice((4, 5, 8, 20, 21, 22, 40, 100, 300, 1200)) if n is None else n
    r = rng.random()
    if r < 0.6:
        body = bytes(rng.getrandbits(8) for _ in range(n))
    elif r < 0.8:
        body = bytes([rng.choice(EDGE)]) * n
    else:
        body = bytes(rng.choice(EDGE) for _ in range(n))
    return b"\x00" + body


def lzma2_chunks(rng):
    """A sequence of LZMA2 chunks with arbitrary (often inconsistent) control bytes, sizes and properties."""
    out = bytearray()
    for k in range(rng.randrange(1, 6)):
        r = rng.random()
        if r < 0.25:      # uncompressed chunk
            data = bytes(rng.getrandbits(8) for _ in range(rng.choice((1, 2, 100, 5000))))
            ctrl = rng.choice((1, 2, 1, 2, 3, 0x7F))
            declared = len(data) - 1 if rng.random() < 0.8 else rng.randrange(65536)
            out += bytes([ctrl]) + struct.pack(">H", declared & 0xFFFF) + data
        elif r < 0.9:     # LZMA chunk
            payload = rc_noise(rng)
            ctrl = rng.choice((0x80, 0xA0, 0xC0, 0xE0, 0xE0, 0xE0, 0xFF, 0x9F))
            unc = rng.choice((0, 1, 100, 4095, 65535, 1 << 16, (1 << 21) - 1))
            ctrl |= (unc >> 16) & 0x1F
            comp = len(payload) - 1 if rng.random() < 0.7 else rng.randrange(65536)
            out += bytes([ctrl & 0xFF]) + struct.pack(">H", unc & 0xFFFF) + struct.pack(">H", comp & 0xFFFF)
            if ctrl & 0x40 or rng.random() < 0.1:
                out += bytes([rng.choice((0x5D, 0, 224, 225, 255, 44, 100, rng.randrange(256)))])
            out += payload
        else:
            out += bytes([rng.choice((0, 0, 3, 0x7F))])
    if rng.random() < 0.6:
        out += b"\x00"
    return bytes(out)


def decoder_noise(rng, quick):
    """(format tag, bytes): valid containers around noise payloads, so that the LZMA/LZMA2 decoders themselves (symbol
    decoding, dictionary copies, chunk state machine) run on arbitrary data."""
    out = []
    for _ in range(250 if quick else 2500):
        lc, lp = rng.choice(((3, 0), (0, 0), (4, 0), (0, 4), (2, 2), (1, 3), (0, 2)))
        pb = rng.randrange(5)
        unc = rng.choice((U64, U64, 0, 1, 50, 1000, 70000))
        out.append(("lzma", lzma_alone_header(lc, lp, pb, rng.choice((0, 4096, 65536, 1 << 20)), unc) + rc_noise(rng)))
    for _ in range(150 if quick else 1500):
        pay = rc_noise(rng)
        out.append(("lz", lzip_member(pay, rng.getrandbits(32), rng.choice((0, 1, 100, 5000)), dict_byte=rng.choice((12, 16, 20)))))
    for _ in range(250 if quick else 2500):
        out.append(("raw:%d" % rng.choice((3, 4, 5, 6, 7, 22, 23)), rc_noise(rng)))
    for _ in range(350 if quick else 3500):
        ch = lzma2_chunks(rng)
        out.append(("raw:%d" % rng.choice((0, 1, 2, 10, 12, 19, 20, 21)), ch))
        if rng.random() < 0.4:
            hdr = block_header([(LZMA2_ID, bytes([rng.choice((0, 8, 18))]), None)])
            chk = rng.choice((0, 1, 4, 10))
            out.append(("xz", xz_stream([(hdr, ch, b"")], check=chk)))
    return out


FILTER_STRINGS = [
    "6", "0", "9e", "3e", "lzma2", "lzma2:dict=1MiB", "lzma2:preset=6e,dict=64KiB,lc=4,lp=0,pb=0,mode=fast,nice=273,mf=bt4,depth=200",
    "delta:dist=4 lzma2", "x86 lzma2", "x86:start=4096--lzma2:dict=4KiB", "arm64 riscv lzma2", "delta--delta--delta--lzma2",
    "lzma1:dict=4096", "lzma2:dict=4GiB", "lzma2:dict=1.5GiB", "lzma2:dict=4095", "lzma2:lc=3,lp=2", "lzma2:pb=5", "--lzma2",
    "lzma2--", "lzma2:", "lzma2:dict", "lzma2:dict=", "lzma2:dict=99999999999999999999999", "lzma2:dict=1KiBB", "lzma2:nice=1",
    "lzma2:mf=zz", "powerpc ia64 arm armthumb sparc lzma2", "x86 arm64 delta riscv lzma2", "delta", "x86", "delta:dist=0 lzma2",
    "delta:dist=257 lzma2", "arm64:start=3 lzma2", "-6", "10", "6ee", "6x", "", " ", "  lzma2  ", "lzma2 lzma2", "LZMA2",
    "lzma2:depth=4294967296", "lzma2:dict=4294967296", "lzma2:preset=9e", "lzma2:preset=10", "lzma2:mode=normal,mf=hc3",
    "x" * 300, "lzma2:" + "lc=0," * 100 + "lp=0", "delta:dist=256--x86:start=4294967280--lzma2:dict=4096KiB",
]


def filter_strings(rng, quick):
    out = list(FILTER_STRINGS)
    alphabet = "lzmadeltx86armiscvpowerspc0123456789:=,- KMGiBe\t\x01\xff"
    for _ in range(150 if quick else 1500):
        s = rng.choice(FILTER_STRINGS)
        r = rng.random()
        if r < 0.5 and s:
            i = rng.randrange(len(s))
            s = s[:i] + rng.choice(alphabet) + s[i + (rng.random() < 0.5):]
        elif r < 0.7 and s:
            i = rng.randrange(len(s))
            s = s[:i] + s[i + rng.randrange(1, 5):]
        elif r < 0.85:
            s = s + rng.choice((" ", "--", ",", ":")) + rng.choice(FILTER_STRINGS)
        else:
            s = "".join(rng.choice(alphabet) for _ in range(rng.randrange(1, 40)))
        out.append(s)
    return [s.encode("latin-1") for s in out]
