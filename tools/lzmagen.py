"""LZMA / LZMA2 stream synthesis for the C03 correspondence (and whoever else needs odd but valid streams).

* `RcEnc`       range encoder (low/range/cache/cache_size, carry propagation) as in the LZMA SDK
* `LzmaWriter`  symbol encoder driven by the CALLER's symbol choices: literal / match / rep0..3 / short rep / EOPM with
                all lc/lp/pb, tracking state, reps, probabilities and the plaintext; nothing here searches for matches,
                so every combination the format allows can be emitted (and, on request, combinations it forbids)
* `gen_lzma1`, `gen_lzma2`  random stream builders that know the plaintext of what they built
* `mutate`      byte-level mutations
* `RefDecoder`  small independent reference decoder (search-stage oracle): written from the format description,
                shares no code with the encoder above except the constants
All randomness comes from the `random.Random` passed in.
"""

TOP = 1 << 24
U32 = 1 << 32

# probability array layout (same as Model/Lzma.lean, documented there)
P_IS_MATCH, P_IS_REP, P_IS_REP0, P_IS_REP1, P_IS_REP2, P_IS_REP0_LONG = 0, 192, 204, 216, 228, 240
P_DIST_SLOT, P_POS_SPECIAL, P_POS_ALIGN, P_MATCH_LEN, P_REP_LEN, P_LITERAL = 432, 688, 802, 818, 1332, 1846
LEN_LOW, LEN_MID, LEN_HIGH = 2, 130, 258
EOPM_DIST = 0xFFFFFFFF


def round_dict(ds):
    return ((max(ds, 4096) + 15) // 16) * 16


def dist_slot(d):
    if d < 4:
        return d
    n = d.bit_length() - 1
    return 2 * n + ((d >> (n - 1)) & 1)


def slot_range(slot):
    """(lowest, highest) distance of a slot"""
    if slot < 4:
        return slot, slot
    fb = (slot >> 1) - 1
    base = (2 | (slot & 1)) << fb
    return base, base + (1 << fb) - 1


class RcEnc:
    def __init__(self):
        self.low = 0
        self.range = 0xFFFFFFFF
        self.cache = 0
        self.cache_size = 1
        self.out = bytearray()

    def shift_low(self):
        if self.low < 0xFF000000 or self.low >= U32:
            carry = self.low >> 32
            temp = self.cache
            while True:
                self.out.append((temp + carry) & 0xFF)
                temp = 0xFF
                self.cache_size -= 1
                if self.cache_size == 0:
                    break
            self.cache = (self.low >> 24) & 0xFF
        self.cache_size += 1
        self.low = (self.low & 0x00FFFFFF) << 8

    def bit(self, probs, i, b):
        p = probs[i]
        bound = (self.range >> 11) * p
        if b == 0:
            self.range = bound
            probs[i] = p + ((2048 - p) >> 5)
        else:
            self.low += bound
            self.range -= bound
            probs[i] = p - (p >> 5)
        while self.range < TOP:
            self.range = (self.range << 8) & 0xFFFFFFFF
            self.shift_low()

    def direct(self, value, nbits):
        for i in range(nbits - 1, -1, -1):
            self.range >>= 1
            if (value >> i) & 1:
                self.low += self.range
            while self.range < TOP:
                self.range = (self.range << 8) & 0xFFFFFFFF
                self.shift_low()

    def flush(self):
        for _ in range(5):
            self.shift_low()

    def pending_size(self):
        """bytes the stream will have if flushed now"""
        return len(self.out) + self.cache_size + 4


def upd_lit(s):
    return 0 if s <= 3 else (s - 3 if s <= 9 else s - 6)


class LzmaWriter:
    """Symbol-level LZMA encoder. `hist` is the dictionary content (preset tail + everything written since the last
    dictionary reset); `n0` the alignment origin (dict.pos & mask == (n0 + len(hist)) & mask with n0 = 0)."""

    def __init__(self, lc, lp, pb, dict_size, preset=b""):
        self.dict_rounded = round_dict(dict_size)
        tail = preset[len(preset) - min(len(preset), self.dict_rounded):] if preset else b""
        self.hist = bytearray(tail)      # current dictionary epoch
        self.plain = bytearray()         # everything produced (all epochs)
        self.rc = RcEnc()
        self.reset_state(lc, lp, pb)

    # -- state ----------------------------------------------------------------------------
    def reset_state(self, lc, lp, pb):
        self.lc, self.lp, self.pb = lc, lp, pb
        self.probs = [1024] * (P_LITERAL + (0x300 << (lc + lp)))
        self.state = 0
        self.reps = [0, 0, 0, 0]

    def reset_dict(self):
        self.hist = bytearray()

    def new_rc(self):
        self.rc = RcEnc()

    def full(self):
        return min(len(self.hist), self.dict_rounded)

    def pos_state(self):
        return len(self.hist) & ((1 << self.pb) - 1)

    def _emit(self, b):
        self.hist.append(b)
        self.plain.append(b)

    def byte_at(self, dist):
        return self.hist[len(self.hist) - 1 - dist] if dist < len(self.hist) else 0

    # -- pieces ---------------------------------------------------------------------------
    def _bittree(self, base, nbits, value):
        sym = 1
        for i in range(nbits - 1, -1, -1):
            b = (value >> i) & 1
            self.rc.bit(self.probs, base + sym, b)
            sym = (sym << 1) | b

    def _rev_bittree(self, base, nbits, value):
        sym = 1
        for i in range(nbits):
            b = (value >> i) & 1
            self.rc.bit(self.probs, base + sym, b)
            sym = (sym << 1) | b

    def _align(self, value):
        sym, offset = 0, 1
        for i in range(4):
            b = (value >> i) & 1
            self.rc.bit(self.probs, P_POS_ALIGN + offset + sym, b)
            sym += b * offset
            offset <<= 1

    def _len(self, base, length, ps):
        l = length - 2
        if l < 8:
            self.rc.bit(self.probs, base + 0, 0)
            self._bittree(base + LEN_LOW + ps * 8, 3, l)
        elif l < 16:
            self.rc.bit(self.probs, base + 0, 1)
            self.rc.bit(self.probs, base + 1, 0)
            self._bittree(base + LEN_MID + ps * 8, 3, l - 8)
        else:
            self.rc.bit(self.probs, base + 0, 1)
            self.rc.bit(self.probs, base + 1, 1)
            self._bittree(base + LEN_HIGH, 8, l - 16)

    def _dist(self, dist, length):
        ds = length - 2 if length < 6 else 3
        slot = dist_slot(dist)
        self._bittree(P_DIST_SLOT + ds * 64, 6, slot)
        if slot >= 4:
            fb = (slot >> 1) - 1
            base = (2 | (slot & 1)) << fb
            red = dist - base
            if slot < 14:
                self._rev_bittree(P_POS_SPECIAL + base - slot - 1, fb, red)
            else:
                self.rc.direct(red >> 4, fb - 4)
                self._align(red & 15)

    # -- symbols --------------------------------------------------------------------------
    def literal(self, byte):
        ps = self.pos_state()
        st = self.state
        self.rc.bit(self.probs, P_IS_MATCH + st * 16 + ps, 0)
        prev = self.hist[-1] if len(self.hist) else 0
        pos = len(self.hist)
        mask = (0x100 << self.lp) - (0x100 >> self.lc)
        base = P_LITERAL + 3 * ((((pos << 8) + prev) & mask) << self.lc)
        if st < 7:
            self._bittree(base, 8, byte)
        else:
            mb = self.byte_at(self.reps[0]) << 1
            sym, offset = 1, 0x100
            for i in range(7, -1, -1):
                match_bit = mb & offset
                b = (byte >> i) & 1
                self.rc.bit(self.probs, base + offset + match_bit + sym, b)
                sym = (sym << 1) | b
                offset = (offset ^ match_bit) if b == 0 else match_bit
                mb <<= 1
        self.state = upd_lit(st)
        self._emit(byte)

    def _copy(self, dist, length):
        for _ in range(length):
            self._emit(self.byte_at(dist))

    def match(self, dist, length, do_copy=True):
        """simple match; with do_copy=False only the code is written (for deliberately invalid distances / EOPM)"""
        ps = self.pos_state()
        st = self.state
        self.rc.bit(self.probs, P_IS_MATCH + st * 16 + ps, 1)
        self.rc.bit(self.probs, P_IS_REP + st, 0)
        self._len(P_MATCH_LEN, length, ps)
        self._dist(dist, length)
        self.reps = [dist, self.reps[0], self.reps[1], self.reps[2]]
        self.state = 7 if st < 7 else 10
        if do_copy:
            self._copy(dist, length)

    def eopm(self, length=2):
        self.match(EOPM_DIST, length, do_copy=False)

    def rep(self, idx, length, do_copy=True):
        """long repeated match with rep[idx]"""
        ps = self.pos_state()
        st = self.state
        self.rc.bit(self.probs, P_IS_MATCH + st * 16 + ps, 1)
        self.rc.bit(self.probs, P_IS_REP + st, 1)
        if idx == 0:
            self.rc.bit(self.probs, P_IS_REP0 + st, 0)
            self.rc.bit(self.probs, P_IS_REP0_LONG + st * 16 + ps, 1)
        else:
            self.rc.bit(self.probs, P_IS_REP0 + st, 1)
            if idx == 1:
                self.rc.bit(self.probs, P_IS_REP1 + st, 0)
            else:
                self.rc.bit(self.probs, P_IS_REP1 + st, 1)
                self.rc.bit(self.probs, P_IS_REP2 + st, idx - 2)
            d = self.reps.pop(idx)
            self.reps.insert(0, d)
        self._len(P_REP_LEN, length, ps)
        self.state = 8 if st < 7 else 11
        if do_copy:
            self._copy(self.reps[0], length)

    def short_rep(self, do_copy=True):
        ps = self.pos_state()
        st = self.state
        self.rc.bit(self.probs, P_IS_MATCH + st * 16 + ps, 1)
        self.rc.bit(self.probs, P_IS_REP + st, 1)
        self.rc.bit(self.probs, P_IS_REP0 + st, 0)
        self.rc.bit(self.probs, P_IS_REP0_LONG + st * 16 + ps, 0)
        self.state = 9 if st < 7 else 11
        if do_copy:
            self._copy(self.reps[0], 1)

    def raw_bytes(self, data):
        """uncompressed LZMA2 chunk payload: goes to the dictionary without touching the LZMA state"""
        for b in data:
            self._emit(b)


# ------------------------------------------------------------------------------------------------
# random symbol choice
# ------------------------------------------------------------------------------------------------

LEN_EDGES = (2, 3, 4, 5, 6, 9, 10, 11, 17, 18, 19, 272, 273)


def pick_len(rng, maxlen):
    if maxlen < 2:
        return None
    r = rng.random()
    if r < 0.25:
        l = rng.choice(LEN_EDGES)
    elif r < 0.5:
        l = rng.randrange(2, 10)
    elif r < 0.7:
        l = rng.randrange(10, 18)
    else:
        l = rng.randrange(18, 274)
    return min(l, maxlen)


def pick_dist(rng, full):
    """a valid distance (0 <= d < full), spread over the distance slots"""
    r = rng.random()
    if r < 0.2:
        return rng.randrange(0, min(4, full))
    if r < 0.75:
        top = dist_slot(full - 1)
        slot = rng.randrange(0, top + 1)
        lo, hi = slot_range(slot)
        hi = min(hi, full - 1)
        e = rng.random()
        return lo if e < 0.15 else hi if e < 0.3 else rng.randrange(lo, hi + 1)
    if r < 0.85:
        return full - 1
    return rng.randrange(0, full)


def random_symbols(rng, w, budget, stats, lit_bias=0.3, long_bias=False):
    """Emit random valid symbols into writer `w` until exactly `budget` plaintext bytes have been added.
    Stops early (returns False) if w.rc grows beyond `max_comp` bytes (LZMA2 chunk limit) -- handled by caller via budget."""
    done = 0
    while done < budget:
        left = budget - done
        full = w.full()
        r = rng.random()
        if full == 0 or r < lit_bias:
            if w.state >= 7 and rng.random() < 0.3:
                b = w.byte_at(w.reps[0]) ^ rng.choice((0, 0, 1, 0x80, 0xFF))
            else:
                b = rng.getrandbits(8) if rng.random() < 0.7 else rng.choice((0, 0xFF, 0x41))
            w.literal(b)
            stats["literal"] = stats.get("literal", 0) + 1
            done += 1
            continue
        r = rng.random()
        if r < 0.12:
            w.short_rep()
            stats["shortrep"] = stats.get("shortrep", 0) + 1
            done += 1
            continue
        length = pick_len(rng, left) if (not long_bias or left < 2) else min(left, rng.choice((273, 273, 200, 18, 2)))
        if length is None:
            if rng.random() < 0.5:
                w.short_rep()
                stats["shortrep"] = stats.get("shortrep", 0) + 1
            else:
                w.literal(rng.getrandbits(8))
                stats["literal"] = stats.get("literal", 0) + 1
            done += 1
            continue
        if r < 0.45:
            idx = rng.randrange(4)
            w.rep(idx, length)
            stats["rep%d" % idx] = stats.get("rep%d" % idx, 0) + 1
        else:
            d = pick_dist(rng, full)
            w.match(d, length)
            s = dist_slot(d)
            k = "slot<4" if s < 4 else "slot<14" if s < 14 else "slot<24" if s < 24 else "slot>=24"
            stats[k] = stats.get(k, 0) + 1
        lc = "len-low" if length < 10 else "len-mid" if length < 18 else "len-high"
        stats[lc] = stats.get(lc, 0) + 1
        done += length
    return True


def pick_props(rng):
    r = rng.random()
    if r < 0.2:
        return 3, 0, 2
    while True:
        lc, lp, pb = rng.randrange(5), rng.randrange(5), rng.randrange(5)
        if lc + lp <= 4:
            return lc, lp, pb


def pick_dict_size(rng):
    return rng.choice((0, 1, 4095, 4096, 4096, 4096, 4097, 4112, 5000, 6144, 8192, 12345, 65536, 1 << 20))


def pick_preset(rng):
    if rng.random() < 0.8:
        return b""
    n = rng.choice((1, 7, 16, 100, 4095, 4096, 4097, 6000))
    return bytes(rng.getrandbits(8) if rng.random() < 0.5 else 0x61 + (i % 7) for i in range(n))


def pick_plain_size(rng, big):
    r = rng.random()
    if r < 0.1:
        return rng.randrange(0, 4)
    if r < 0.6:
        return rng.randrange(1, 400)
    if r < 0.9 or not big:
        return rng.randrange(400, 6000)
    return rng.randrange(6000, 300000)


# ------------------------------------------------------------------------------------------------
# LZMA1 (raw LZMA_FILTER_LZMA1 / LZMA_FILTER_LZMA1EXT)
# ------------------------------------------------------------------------------------------------

def gen_lzma1(rng, big=False, stats=None):
    """Returns a dict: kind (1|2), lc lp pb, dict, extflags, extsize, preset, stream, plain, expect
    expect = ("end"|"ok"|"error"|None, plain) -- None means 'ask the reference decoder'."""
    stats = stats if stats is not None else {}
    lc, lp, pb = pick_props(rng)
    ds = pick_dict_size(rng)
    preset = pick_preset(rng)
    w = LzmaWriter(lc, lp, pb, ds, preset)
    n = pick_plain_size(rng, big)
    long_bias = n > 6000
    variant = rng.choice(("eopm", "eopm", "known", "known", "known+eopm", "known+eopm-disallowed", "known-too-big",
                          "known-too-small", "unknown-no-eopm", "ext-unknown", "eopm-early", "bad-first-byte",
                          "invalid-dist", "rep-on-empty", "huge-dist", "not-finished"))
    stats["lzma1:" + variant] = stats.get("lzma1:" + variant, 0) + 1
    kind, extflags, extsize = 2, 0, n
    expect = None
    if variant == "eopm":
        kind = rng.choice((1, 2))
        extflags, extsize = rng.choice((0, 1)), (1 << 64) - 1
        random_symbols(rng, w, n, stats, long_bias=long_bias)
        w.eopm(rng.choice((2, 2, 3, 17, 273)))
        w.rc.flush()
        expect = ("end", bytes(w.plain))
    elif variant == "ext-unknown":
        # unknown size with allow-EOPM flag clear: EOPM is still required (and accepted)
        extflags, extsize = 0, (1 << 64) - 1
        random_symbols(rng, w, n, stats)
        w.eopm()
        w.rc.flush()
        expect = ("end", bytes(w.plain))
    elif variant == "known":
        extflags = rng.choice((0, 1))
        random_symbols(rng, w, n, stats, long_bias=long_bias)
        w.rc.flush()
        expect = ("end", bytes(w.plain))
    elif variant == "known+eopm":
        extflags = 1
        random_symbols(rng, w, n, stats)
        w.eopm(rng.choice((2, 5, 100)))
        w.rc.flush()
        expect = ("end", bytes(w.plain))
    elif variant == "known+eopm-disallowed":
        extflags = 0
        random_symbols(rng, w, n, stats)
        w.eopm()
        w.rc.flush()
        expect = ("error", bytes(w.plain))
    elif variant == "known-too-big":
        # the stream holds fewer bytes than declared and then ends (flush): decoder runs out of input
        random_symbols(rng, w, n, stats)
        w.rc.flush()
        extsize = n + rng.choice((1, 2, 100, 1 << 33))
        expect = None
    elif variant == "known-too-small":
        random_symbols(rng, w, n + rng.choice((1, 2, 50)), stats)
        if rng.random() < 0.5:
            w.eopm()
        w.rc.flush()
        expect = None
    elif variant == "unknown-no-eopm":
        kind = rng.choice((1, 2))
        extflags, extsize = 1, (1 << 64) - 1
        random_symbols(rng, w, n, stats)
        w.rc.flush()
        expect = None
    elif variant == "eopm-early":
        extflags = 1
        random_symbols(rng, w, n // 2, stats)
        w.eopm()
        w.rc.flush()
        expect = ("error", bytes(w.plain)) if n // 2 < n else None
    elif variant == "bad-first-byte":
        extflags, extsize = 1, (1 << 64) - 1
        random_symbols(rng, w, n, stats)
        w.eopm()
        w.rc.flush()
        expect = ("error", b"")
    elif variant in ("invalid-dist", "huge-dist"):
        extflags, extsize = 1, (1 << 64) - 1
        if rng.random() < 0.5:
            # fill the dictionary completely so that the boundary distance is the (rounded) dictionary size itself
            ds = rng.choice((0, 4096, 4097, 5000))
            preset = b""
            w = LzmaWriter(lc, lp, pb, ds, preset)
            n = round_dict(ds) + rng.choice((0, 1, 15, 16, rng.randrange(0, 700)))
            random_symbols(rng, w, n, stats, long_bias=True)
        else:
            random_symbols(rng, w, n, stats)
        full = w.full()
        before = bytes(w.plain)
        if variant == "invalid-dist":
            d = full + rng.choice((0, 0, 1, 15, 16, 4096))
        else:
            lo, hi = slot_range(rng.randrange(30, 64))
            d = max(full, min(rng.randrange(lo, hi + 1), EOPM_DIST - 1))
        w.match(d, pick_len(rng, 273), do_copy=False)
        # something after it so that the decoder could go on if it accepted the distance
        for _ in range(4):
            w.rc.bit(w.probs, P_IS_MATCH + w.state * 16, 0)
        w.rc.flush()
        expect = ("error", before)
    elif variant == "rep-on-empty":
        extflags, extsize = 1, (1 << 64) - 1
        w = LzmaWriter(lc, lp, pb, ds, b"")
        preset = b""
        if rng.random() < 0.5:
            w.short_rep(do_copy=False)
        else:
            w.rep(rng.randrange(4), 2, do_copy=False)
        w.rc.flush()
        expect = ("error", b"")
    elif variant == "not-finished":
        # known size, no EOPM allowed, but the range coder is not in the finished state at the end
        extflags = 0
        random_symbols(rng, w, n, stats)
        w.literal(0x55)
        w.rc.flush()
        w.plain = w.plain[:-1]
        expect = None
    stream = bytes(w.rc.out)
    if variant == "bad-first-byte" and stream:
        stream = bytes([rng.randrange(1, 256)]) + stream[1:]
    return dict(kind=kind, lc=lc, lp=lp, pb=pb, dict=ds, extflags=extflags, extsize=extsize, preset=preset,
                stream=stream, plain=bytes(w.plain), expect=expect, variant="lzma1:" + variant)


# ------------------------------------------------------------------------------------------------
# LZMA2
# ------------------------------------------------------------------------------------------------

def props_byte(lc, lp, pb):
    return (pb * 5 + lp) * 9 + lc


def lzma2_chunk_header(control_base, usize, csize, props=None):
    h = bytearray()
    h.append(control_base | ((usize - 1) >> 16))
    h += ((usize - 1) & 0xFFFF).to_bytes(2, "big")
    h += (csize - 1).to_bytes(2, "big")
    if props is not None:
        h.append(props)
    return bytes(h)


def gen_lzma2(rng, big=False, stats=None):
    stats = stats if stats is not None else {}
    ds = pick_dict_size(rng)
    preset = pick_preset(rng)
    lc, lp, pb = pick_props(rng)
    w = LzmaWriter(lc, lp, pb, ds, preset)
    out = bytearray()
    variant = rng.choice(("valid",) * 8 + ("no-initial-dict-reset", "props-missing", "bad-control", "bad-props",
                                           "eopm-in-chunk", "invalid-dist", "csize-small", "csize-big", "usize-small", "usize-big",
                                           "no-end-marker", "trailing"))
    stats["lzma2:" + variant] = stats.get("lzma2:" + variant, 0) + 1
    nchunks = rng.choice((0, 1, 1, 2, 3, 5, 8))
    have_props = False        # decoder's need_properties == False
    need_dict_reset = not preset
    first = True
    broken_at = None          # plaintext at the point where an error must be reported
    error_chunk = rng.randrange(max(1, nchunks)) if variant not in ("valid", "no-end-marker", "trailing") else -1
    if variant != "valid" and nchunks == 0 and variant not in ("no-end-marker", "trailing"):
        nchunks, error_chunk = 1, 0
    for ci in range(nchunks):
        is_err = ci == error_chunk
        n = pick_plain_size(rng, big)
        kind = rng.random()
        if is_err and variant == "bad-control":
            out.append(rng.randrange(3, 0x80))
            broken_at = bytes(w.plain)
            break
        if kind < 0.25 or (n == 0):
            # uncompressed chunk
            n = max(1, min(n, 1 << 16))
            if rng.random() < 0.1:
                n = 1 << 16
            reset = need_dict_reset or rng.random() < 0.2
            if is_err and variant == "no-initial-dict-reset":
                if not need_dict_reset:
                    variant = "valid-after-all"
                else:
                    out.append(2)
                    broken_at = bytes(w.plain)
                    break
            data = bytes(rng.getrandbits(8) if rng.random() < 0.5 else 0x20 for _ in range(n))
            out.append(1 if reset else 2)
            out += (n - 1).to_bytes(2, "big")
            out += data
            if reset:
                w.reset_dict()
                have_props = False
                need_dict_reset = False
            w.raw_bytes(data)
            stats["l2-uncompressed"] = stats.get("l2-uncompressed", 0) + 1
            continue
        # LZMA chunk: choose the reset level
        if need_dict_reset:
            level = 3
        elif not have_props:
            level = rng.choice((2, 3))
        else:
            level = rng.choice((0, 0, 1, 2, 3))
        if is_err and variant == "no-initial-dict-reset":
            if need_dict_reset:
                level = rng.choice((0, 1, 2))
                out.append(0x80 | (level << 5))
                broken_at = bytes(w.plain)
                break
            variant = "valid-after-all"
        if is_err and variant == "props-missing":
            if not have_props and not need_dict_reset:
                level = rng.choice((0, 1))
                out.append(0x80 | (level << 5))
                broken_at = bytes(w.plain)
                break
            variant = "valid-after-all"
        if level == 3:
            w.reset_dict()
        if level >= 2:
            lc, lp, pb = pick_props(rng)
            w.reset_state(lc, lp, pb)
        elif level == 1:
            w.reset_state(w.lc, w.lp, w.pb)
        if is_err and variant == "bad-props":
            bad = rng.choice((225, 255, props_byte(4, 1, 0), props_byte(3, 2, 4), props_byte(8, 0, 2), props_byte(0, 4, 4) + 1))
            out += lzma2_chunk_header(0x80 | (max(level, 2) << 5), 10, 10, bad)
            broken_at = bytes(w.plain)
            break
        w.new_rc()
        n = max(1, min(n, 1 << 21))
        before = bytes(w.plain)
        # emit symbols; stop if the compressed size approaches 64 KiB
        produced = 0
        target = n
        while produced < target:
            step = min(target - produced, 2000)
            random_symbols(rng, w, step, stats, long_bias=target > 6000)
            produced += step
            if w.rc.pending_size() > 60000:
                break
        usize = produced
        if is_err and variant == "invalid-dist":
            cut = bytes(w.plain)
            full = w.full()
            w.match(full + rng.choice((0, 0, 1, 16)), pick_len(rng, 273), do_copy=False)
            w.rc.flush()
            body = bytes(w.rc.out)
            out += lzma2_chunk_header(0x80 | (level << 5), usize + 2, len(body), props_byte(lc, lp, pb) if level >= 2 else None)
            out += body
            broken_at = cut
            break
        if is_err and variant == "eopm-in-chunk":
            cut = bytes(w.plain)
            w.eopm()
            w.rc.flush()
            body = bytes(w.rc.out)
            out += lzma2_chunk_header(0x80 | (level << 5), usize + 1, len(body), props_byte(lc, lp, pb) if level >= 2 else None)
            out += body
            broken_at = cut
            break
        w.rc.flush()
        body = bytes(w.rc.out)
        csize = len(body)
        hdr_usize, hdr_csize = usize, csize
        if is_err and variant == "csize-small":
            hdr_csize = max(1, csize - rng.choice((1, 1, 2, 5)))
            broken_at = None if hdr_csize != csize else bytes(w.plain)
        if is_err and variant == "csize-big":
            hdr_csize = min(1 << 16, csize + rng.choice((1, 2, 7)))
        if is_err and variant == "usize-small":
            hdr_usize = max(1, usize - rng.choice((1, 2, 100)))
        if is_err and variant == "usize-big":
            hdr_usize = min(1 << 21, usize + rng.choice((1, 2, 100)))
        out += lzma2_chunk_header(0x80 | (level << 5), hdr_usize, hdr_csize, props_byte(lc, lp, pb) if level >= 2 else None)
        out += body
        have_props = True
        need_dict_reset = False
        stats["l2-lzma-level%d" % level] = stats.get("l2-lzma-level%d" % level, 0) + 1
        if is_err and (hdr_usize, hdr_csize) != (usize, csize):
            broken_at = "unknown"
            # follow with an end marker so that a decoder that accepts the chunk could finish
            out.append(0)
            break
    else:
        if variant != "no-end-marker":
            out.append(0)
    trailing = b""
    if variant == "trailing":
        trailing = bytes(rng.getrandbits(8) for _ in range(rng.randrange(1, 20)))
    plain = bytes(w.plain)
    if broken_at == "unknown":
        expect = None
    elif broken_at is not None:
        expect = ("error", broken_at)
    elif variant == "no-end-marker":
        expect = ("ok", plain)
    else:
        expect = ("end", plain)
    return dict(kind=3, lc=0, lp=0, pb=0, dict=ds, extflags=0, extsize=0, preset=preset, stream=bytes(out) + trailing,
                plain=plain, expect=expect, variant="lzma2:" + variant, valid_len=len(out))


def gen_lzma2_limits(rng, stats=None):
    """LZMA2 streams at the chunk size limits: an LZMA chunk of exactly LZMA2_UNCOMPRESSED_MAX (2^21) bytes, LZMA chunks whose
    compressed size is at or just below LZMA2_CHUNK_MAX (2^16), uncompressed chunks of exactly 2^16 bytes, and headers
    that claim one more than the limits allow is impossible by construction (the fields cannot express it)."""
    stats = stats if stats is not None else {}
    ds = rng.choice((4096, 65536, 1 << 20, 1 << 22))
    lc, lp, pb = pick_props(rng)
    w = LzmaWriter(lc, lp, pb, ds, b"")
    out = bytearray()
    kind = rng.choice(("usize-max", "csize-max", "uncompressed-max", "usize-max"))
    stats["lzma2-limits:" + kind] = stats.get("lzma2-limits:" + kind, 0) + 1
    if kind == "uncompressed-max":
        for k in range(rng.choice((1, 2, 3))):
            data = bytes(rng.getrandbits(8) for _ in range(1 << 16))
            out.append(1 if k == 0 else 2)
            out += ((1 << 16) - 1).to_bytes(2, "big") + data
            if k == 0:
                w.reset_dict()
            w.raw_bytes(data)
    elif kind == "usize-max":
        w.new_rc()
        w.literal(rng.getrandbits(8))
        random_symbols(rng, w, (1 << 21) - 1, stats, lit_bias=0.02, long_bias=True)
        w.rc.flush()
        body = bytes(w.rc.out)
        assert len(body) <= 1 << 16
        out += lzma2_chunk_header(0xE0, 1 << 21, len(body), props_byte(lc, lp, pb)) + body
    else:
        # compressed size as close to 2^16 as the symbol granularity allows, with several attempts at the exact value
        w.new_rc()
        produced = 0
        while w.rc.pending_size() < (1 << 16) - 40:
            w.literal(rng.getrandbits(8))
            produced += 1
        while w.rc.pending_size() < (1 << 16):
            w.literal(rng.getrandbits(8))
            produced += 1
            if w.rc.pending_size() >= (1 << 16) - rng.choice((0, 0, 1, 2)):
                break
        w.rc.flush()
        body = bytes(w.rc.out)
        if len(body) > 1 << 16:
            return gen_lzma2_limits(rng, stats)
        stats["lzma2-limits:csize=%s" % ("65536" if len(body) == 65536 else "<65536")] = stats.get("lzma2-limits:csize=%s" % ("65536" if len(body) == 65536 else "<65536"), 0) + 1
        out += lzma2_chunk_header(0xE0, produced, len(body), props_byte(lc, lp, pb)) + body
    out.append(0)
    plain = bytes(w.plain)
    return dict(kind=3, lc=0, lp=0, pb=0, dict=ds, extflags=0, extsize=0, preset=b"", stream=bytes(out), plain=plain,
                expect=("end", plain), variant="lzma2-limits:" + kind, valid_len=len(out))


def far_symbols(rng, w, reach, stats=None):
    """Fill writer `w` with at least `reach` + a few bytes (long matches, cheap) and then emit matches / reps whose distance
    is close to `reach` and close to everything produced so far: data that really USES a dictionary of more than `reach`
    bytes (a decoder that works with a smaller dictionary than declared must fail on it)."""
    stats = stats if stats is not None else {}
    w.literal(rng.getrandbits(8))
    for _ in range(rng.randrange(1, 40)):
        w.literal(rng.getrandbits(8))
    random_symbols(rng, w, reach + rng.randrange(1, 600), stats, lit_bias=0.05, long_bias=True)
    full = w.full()
    for d in (reach, reach - 1, full - 1, rng.randrange(reach - 1, full), reach + 1 if reach + 1 < full else reach):
        d = min(d, full - 1)
        w.match(d, pick_len(rng, 273))
        if rng.random() < 0.5:
            w.literal(rng.getrandbits(8))
        if rng.random() < 0.5:
            w.rep(0, pick_len(rng, 273))
        full = w.full()
    stats["far-match"] = stats.get("far-match", 0) + 1


def gen_far_lzma2(rng, dict_size, reach, stats=None):
    """one-chunk-per-2^21 LZMA2 stream using distances > reach; -> (stream, plain)"""
    lc, lp, pb = pick_props(rng)
    w = LzmaWriter(lc, lp, pb, dict_size, b"")
    w.new_rc()
    far_symbols(rng, w, reach, stats)
    w.rc.flush()
    body = bytes(w.rc.out)
    assert len(body) <= 1 << 16 and len(w.plain) <= 1 << 21
    out = lzma2_chunk_header(0xE0, len(w.plain), len(body), props_byte(lc, lp, pb)) + body + b"\x00"
    return out, bytes(w.plain)


def gen_far_lzma1(rng, dict_size, reach, stats=None, eopm=True):
    """raw LZMA1 stream using distances > reach; -> (props triple, stream, plain)"""
    lc, lp, pb = pick_props(rng)
    w = LzmaWriter(lc, lp, pb, dict_size, b"")
    far_symbols(rng, w, reach, stats)
    if eopm:
        w.eopm()
    w.rc.flush()
    return (lc, lp, pb), bytes(w.rc.out), bytes(w.plain)


# ------------------------------------------------------------------------------------------------
# byte-level mutation
# ------------------------------------------------------------------------------------------------

def mutate(rng, s, other=b""):
    s = bytearray(s)
    kind = rng.choice(("flip", "flip", "flip", "byte", "trunc", "trunc", "insert", "delete", "splice", "header", "zero-run"))
    if not s:
        return bytes([rng.getrandbits(8) for _ in range(rng.randrange(0, 8))]), "noise"
    if kind == "flip":
        for _ in range(rng.choice((1, 1, 1, 2, 5))):
            i = rng.randrange(len(s)) if rng.random() < 0.7 else rng.randrange(min(len(s), 16))
            s[i] ^= 1 << rng.randrange(8)
    elif kind == "byte":
        i = rng.randrange(len(s))
        s[i] = rng.choice((0, 1, 2, 3, 0x7F, 0x80, 0xA0, 0xC0, 0xE0, 0xFF, rng.getrandbits(8)))
    elif kind == "trunc":
        cut = rng.randrange(len(s)) if rng.random() < 0.6 else max(0, len(s) - rng.randrange(1, 8))
        del s[cut:]
    elif kind == "insert":
        i = rng.randrange(len(s) + 1)
        s[i:i] = bytes(rng.getrandbits(8) for _ in range(rng.randrange(1, 5)))
    elif kind == "delete":
        i = rng.randrange(len(s))
        del s[i:i + rng.randrange(1, 4)]
    elif kind == "splice":
        if other:
            i = rng.randrange(len(s))
            j = rng.randrange(len(other))
            s[i:] = other[j:]
        else:
            s.reverse()
    elif kind == "header":
        i = rng.randrange(min(len(s), 7))
        s[i] = (s[i] + rng.choice((1, -1, 0x20, -0x20, 0x80))) & 0xFF
    elif kind == "zero-run":
        i = rng.randrange(len(s))
        n = rng.randrange(1, 8)
        s[i:i + n] = bytes(min(n, len(s) - i))
    return bytes(s), kind


# ------------------------------------------------------------------------------------------------
# reference decoder (oracle of the search stage)
# ------------------------------------------------------------------------------------------------

class _NeedInput(Exception):
    pass


class _DataError(Exception):
    pass


class _End(Exception):
    pass


class RefDecoder:
    """Straightforward LZMA/LZMA2 decoder written from the format description. Whole input, unlimited output.
    Result of decode_*: (status, output, consumed) with status 'end' | 'ok' (input truncated) | 'error'."""

    def __init__(self, data, dict_size, preset=b""):
        self.data = data
        self.ip = 0
        self.dmax = round_dict(dict_size)
        tail = preset[len(preset) - min(len(preset), self.dmax):] if preset else b""
        self.win = bytearray(tail)   # current dictionary epoch
        self.out = bytearray()

    # range decoder
    def rc_init(self):
        self.range = 0xFFFFFFFF
        self.code = 0
        for i in range(5):
            if self.ip >= len(self.data):
                raise _NeedInput()
            b = self.data[self.ip]
            if i == 0 and b != 0:
                raise _DataError()
            self.code = ((self.code << 8) | b) & 0xFFFFFFFF
            self.ip += 1

    def norm(self):
        if self.range < TOP:
            if self.ip >= len(self.data):
                raise _NeedInput()
            self.range = (self.range << 8) & 0xFFFFFFFF
            self.code = ((self.code << 8) | self.data[self.ip]) & 0xFFFFFFFF
            self.ip += 1

    def bit(self, i):
        self.norm()
        p = self.probs[i]
        bound = (self.range >> 11) * p
        if self.code < bound:
            self.range = bound
            self.probs[i] = p + ((2048 - p) >> 5)
            return 0
        self.range -= bound
        self.code -= bound
        self.probs[i] = p - (p >> 5)
        return 1

    def direct(self, n):
        v = 0
        for _ in range(n):
            self.norm()
            self.range >>= 1
            t = (self.code - self.range) & 0xFFFFFFFF
            if t & 0x80000000:
                v = (v << 1) & 0xFFFFFFFF
            else:
                self.code = t
                v = ((v << 1) | 1) & 0xFFFFFFFF
        return v

    def tree(self, base, n):
        s = 1
        for _ in range(n):
            s = (s << 1) | self.bit(base + s)
        return s - (1 << n)

    def rtree(self, base, n):
        s, v = 1, 0
        for i in range(n):
            b = self.bit(base + s)
            s = (s << 1) | b
            v |= b << i
        return v

    def reset_state(self, lc, lp, pb):
        self.lc, self.lp, self.pb = lc, lp, pb
        self.probs = [1024] * (P_LITERAL + (0x300 << (lc + lp)))
        self.state = 0
        self.reps = [0, 0, 0, 0]

    def full(self):
        return min(len(self.win), self.dmax)

    def put(self, b):
        self.win.append(b)
        self.out.append(b)

    def back(self, d):
        return self.win[len(self.win) - 1 - d]

    def length(self, base, ps):
        if self.bit(base) == 0:
            return 2 + self.tree(base + LEN_LOW + ps * 8, 3)
        if self.bit(base + 1) == 0:
            return 10 + self.tree(base + LEN_MID + ps * 8, 3)
        return 18 + self.tree(base + LEN_HIGH, 8)

    def lzma_body(self, size, allow_eopm):
        """decode symbols; size None = unknown. Raises _End / _DataError / _NeedInput."""
        produced = 0
        eopm_ok = size is None
        while True:
            if size is not None and produced == size:
                self.norm()
                if self.code == 0:
                    raise _End()
                if not allow_eopm:
                    raise _DataError()
                eopm_ok = True
            ps = len(self.win) & ((1 << self.pb) - 1)
            st = self.state
            if self.bit(P_IS_MATCH + st * 16 + ps) == 0:
                prev = self.win[-1] if self.full() else 0
                ctx = ((len(self.win) & ((1 << self.lp) - 1)) << self.lc) + (prev >> (8 - self.lc))
                base = P_LITERAL + 0x300 * ctx
                if st < 7:
                    sym = self.tree(base, 8)
                else:
                    mb = self.back(self.reps[0])
                    sym = 1
                    while sym < 0x100:
                        mbit = (mb >> 7) & 1
                        mb = (mb << 1) & 0xFF
                        b = self.bit(base + ((1 + mbit) << 8) + sym)
                        sym = (sym << 1) | b
                        if mbit != b:
                            while sym < 0x100:
                                sym = (sym << 1) | self.bit(base + sym)
                            break
                    sym &= 0xFF
                self.state = upd_lit(st)
                if size is not None and produced == size:
                    raise _DataError()
                self.put(sym)
                produced += 1
                continue
            if self.bit(P_IS_REP + st) == 0:
                self.state = 7 if st < 7 else 10
                ln = self.length(P_MATCH_LEN, ps)
                slot = self.tree(P_DIST_SLOT + min(ln - 2, 3) * 64, 6)
                if slot < 4:
                    d = slot
                else:
                    fb = (slot >> 1) - 1
                    d = (2 | (slot & 1)) << fb
                    if slot < 14:
                        d += self.rtree(P_POS_SPECIAL + d - slot - 1, fb)
                    else:
                        d += self.direct(fb - 4) << 4
                        d += self.rtree(P_POS_ALIGN, 4)
                        if d == EOPM_DIST:
                            if not eopm_ok:
                                raise _DataError()
                            self.norm()
                            if self.code == 0:
                                raise _End()
                            raise _DataError()
                self.reps = [d, self.reps[0], self.reps[1], self.reps[2]]
                if d >= self.full():
                    raise _DataError()
            else:
                if self.full() == 0:
                    raise _DataError()
                if self.bit(P_IS_REP0 + st) == 0:
                    if self.bit(P_IS_REP0_LONG + st * 16 + ps) == 0:
                        self.state = 9 if st < 7 else 11
                        if size is not None and produced == size:
                            raise _DataError()
                        self.put(self.back(self.reps[0]))
                        produced += 1
                        continue
                else:
                    if self.bit(P_IS_REP1 + st) == 0:
                        i = 1
                    elif self.bit(P_IS_REP2 + st) == 0:
                        i = 2
                    else:
                        i = 3
                    d = self.reps.pop(i)
                    self.reps.insert(0, d)
                self.state = 8 if st < 7 else 11
                ln = self.length(P_REP_LEN, ps)
            d = self.reps[0]
            for _ in range(ln):
                if size is not None and produced == size:
                    raise _DataError()
                self.put(self.back(d))
                produced += 1

    def decode_lzma1(self, lc, lp, pb, size, allow_eopm):
        self.reset_state(lc, lp, pb)
        try:
            self.rc_init()
            self.lzma_body(size, allow_eopm or size is None)
        except _End:
            return "end", bytes(self.out), self.ip
        except _NeedInput:
            return "ok", bytes(self.out), self.ip
        except _DataError:
            return "error", bytes(self.out), self.ip

    def decode_lzma2(self):
        need_props = True
        need_dict_reset = len(self.win) == 0
        data = self.data
        try:
            while True:
                if self.ip >= len(data):
                    raise _NeedInput()
                c = data[self.ip]
                self.ip += 1
                if c == 0:
                    return "end", bytes(self.out), self.ip
                if c >= 0xE0 or c == 1:
                    need_props = True
                    need_dict_reset = False
                    self.win = bytearray()
                elif need_dict_reset:
                    raise _DataError()
                if c >= 0x80:
                    if c < 0xC0 and need_props:
                        raise _DataError()
                    if self.ip + 4 > len(data):
                        self.ip = len(data)
                        raise _NeedInput()
                    usize = ((c & 0x1F) << 16) + (data[self.ip] << 8) + data[self.ip + 1] + 1
                    csize = (data[self.ip + 2] << 8) + data[self.ip + 3] + 1
                    self.ip += 4
                    if c >= 0xC0:
                        if self.ip >= len(data):
                            raise _NeedInput()
                        pbyte = data[self.ip]
                        self.ip += 1
                        if pbyte > 224:
                            raise _DataError()
                        pb_, r = divmod(pbyte, 45)
                        lp_, lc_ = divmod(r, 9)
                        if lc_ + lp_ > 4:
                            raise _DataError()
                        self.reset_state(lc_, lp_, pb_)
                        need_props = False
                    elif c >= 0xA0:
                        self.reset_state(self.lc, self.lp, self.pb)
                    start = self.ip
                    try:
                        self.rc_init()
                        self.lzma_body(usize, False)
                    except _End:
                        pass
                    except _NeedInput:
                        if self.ip - start > csize:
                            raise _DataError()
                        raise
                    if self.ip - start != csize:
                        raise _DataError()
                else:
                    if c > 2:
                        raise _DataError()
                    if self.ip + 2 > len(data):
                        self.ip = len(data)
                        raise _NeedInput()
                    n = (data[self.ip] << 8) + data[self.ip + 1] + 1
                    self.ip += 2
                    chunk = data[self.ip:self.ip + n]
                    for b in chunk:
                        self.put(b)
                    self.ip += len(chunk)
                    if len(chunk) < n:
                        raise _NeedInput()
        except _NeedInput:
            return "ok", bytes(self.out), self.ip
        except _DataError:
            return "error", bytes(self.out), self.ip


def reference(case):
    """(status, out) of the reference decoder for a case dict as produced by gen_*"""
    d = RefDecoder(case["stream"], case["dict"], case["preset"])
    if case["kind"] == 3:
        st, out, used = d.decode_lzma2()
    else:
        unknown = case["kind"] == 1 or case["extsize"] == (1 << 64) - 1
        size = None if unknown else case["extsize"]
        allow = True if case["kind"] == 1 else bool(case["extflags"] & 1)
        st, out, used = d.decode_lzma1(case["lc"], case["lp"], case["pb"], size, allow)
    return st, out, used
